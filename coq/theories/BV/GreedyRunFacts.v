(** Proofs about runs of the greedy rule under an arbitrary tie-break:
    [S_greedy_sel_run_ok], [S_greedy_run_valid], [S_greedy_run_depth],
    [S_greedy_choice_ok_spec].
    The cost function is treated as opaque. *)
From WG Require Import Base.Prelude Codes.Codes BV.Model BV.RefSel BV.SelStatements
  BV.GreedyFacts.
From Coq Require Import ZifyBool ZifyN ZifyNat.
Local Open Scope N_scope.

(** * The minimality test *)

Lemma cand_all_ge_mono p cs x cur b b' : b' <= b ->
  forall n prev delta,
  cand_all_ge p cs x cur delta n prev b = true ->
  cand_all_ge p cs x cur delta n prev b' = true.
Proof.
  intros Hle.
  induction n as [|n IH]; intros prev delta H.
  - reflexivity.
  - destruct prev as [|[rl cnt] prev']; [reflexivity|].
    cbn [cand_all_ge] in *.
    apply andb_true_iff in H. destruct H as [Hh Ht].
    apply andb_true_iff. split.
    + destruct (exceeds (max_ref p) cnt); [reflexivity|].
      destruct rl as [|r rl']; [reflexivity|].
      remember (fields_len cs (node_fields p x cur delta (r :: rl'))) as bits eqn:Hb.
      clear Hb. lia.
    + apply IH. exact Ht.
Qed.

(** * The model's scan returns a candidate of minimal cost *)

(** [(mb, d, c)] is a candidate the scan adopted: as [adopted], plus its cost *)
Definition adopted_cost (p : params) (cs : codes) (x : N) (cur : list N)
  (delta : N) (n : nat) (prev : list (list N * N)) (mb d c : N) : Prop :=
  delta <= d /\ d < delta + N.of_nat n /\
  exists rl cnt, nth_opt prev (N.to_nat (d - delta)) = Some (rl, cnt) /\
                 rl <> [] /\ exceeds (max_ref p) cnt = false /\ c = cnt + 1 /\
                 mb = fields_len cs (node_fields p x cur d rl).

Lemma adopted_cost_shift p cs x cur delta n a prev mb d c :
  adopted_cost p cs x cur (delta + 1) n prev mb d c ->
  adopted_cost p cs x cur delta (S n) (a :: prev) mb d c.
Proof.
  intros (Hlo & Hhi & rl & cnt & Hnth & Hne & Hex & Hc & Hmb).
  split; [lia|]. split; [lia|].
  exists rl, cnt. repeat split; try assumption.
  replace (N.to_nat (d - delta)) with (S (N.to_nat (d - (delta + 1)))) by lia.
  cbn [nth_opt]. exact Hnth.
Qed.

Lemma greedy_scan_min p cs x cur : forall n prev delta mb0 d0 c0 mb d c,
  greedy_scan p cs x cur delta n prev (mb0, d0, c0) = (mb, d, c) ->
  mb <= mb0 /\
  cand_all_ge p cs x cur delta n prev mb = true /\
  ((mb = mb0 /\ d = d0 /\ c = c0) \/
   (mb < mb0 /\ adopted_cost p cs x cur delta n prev mb d c)).
Proof.
  induction n as [|n IH]; intros prev delta mb0 d0 c0 mb d c H.
  - cbn [greedy_scan] in H. inversion H.
    split; [lia|]. split; [reflexivity|]. left. repeat split; reflexivity.
  - destruct prev as [|[rl cnt] prev'].
    + cbn [greedy_scan] in H. inversion H.
      split; [lia|]. split; [reflexivity|]. left. repeat split; reflexivity.
    + cbn [greedy_scan cand_all_ge] in *.
      destruct (exceeds (max_ref p) cnt) eqn:Hex.
      * apply IH in H. destruct H as (Hle & Hall & Hcase).
        split; [exact Hle|]. split; [rewrite Hall; reflexivity|].
        destruct Hcase as [Hsame|[Hlt Had]]; [left; exact Hsame|right].
        split; [exact Hlt|]. apply adopted_cost_shift. exact Had.
      * destruct rl as [|r rl'].
        -- apply IH in H. destruct H as (Hle & Hall & Hcase).
           split; [exact Hle|]. split; [rewrite Hall; reflexivity|].
           destruct Hcase as [Hsame|[Hlt Had]]; [left; exact Hsame|right].
           split; [exact Hlt|]. apply adopted_cost_shift. exact Had.
        -- remember (fields_len cs (node_fields p x cur delta (r :: rl'))) as bits
             eqn:Hbits.
           destruct (bits <? mb0) eqn:Hlt0.
           ++ apply IH in H. destruct H as (Hle & Hall & Hcase).
              split; [lia|]. split; [rewrite Hall; lia|].
              right. destruct Hcase as [(Hmb & Hd & Hc)|[Hlt Had]].
              ** split; [lia|]. subst d c.
                 split; [lia|]. split; [lia|].
                 exists (r :: rl'), cnt.
                 replace (N.to_nat (delta - delta)) with O by lia.
                 cbn [nth_opt].
                 split; [reflexivity|]. split; [discriminate|].
                 split; [exact Hex|]. split; [reflexivity|].
                 rewrite Hmb. exact Hbits.
              ** split; [lia|]. apply adopted_cost_shift. exact Had.
           ++ apply IH in H. destruct H as (Hle & Hall & Hcase).
              split; [exact Hle|]. split; [rewrite Hall; lia|].
              destruct Hcase as [Hsame|[Hlt Had]]; [left; exact Hsame|right].
              split; [exact Hlt|]. apply adopted_cost_shift. exact Had.
Qed.

(** * The model's choice is accepted *)

Lemma greedy_choose_ok p cs x cur prev d c :
  greedy_choose p cs x cur prev = (d, c) ->
  greedy_choice_ok p cs x cur prev d = Some c.
Proof.
  unfold greedy_choose, greedy_choice_ok. intros H.
  destruct (window p =? 0) eqn:Hw.
  - inversion H. reflexivity.
  - cbv zeta in *.
    remember (fields_len cs (node_fields p x cur 0 [])) as base eqn:Hbase. clear Hbase.
    remember (Nat.min (N.to_nat (window p)) (length prev)) as n eqn:Hn. clear Hn.
    destruct (greedy_scan p cs x cur 1 n prev (base, 0, 0)) as [[mb d'] c'] eqn:Hscan.
    inversion H; subst d' c'. clear H.
    apply greedy_scan_min in Hscan. destruct Hscan as (Hle & Hall & Hcase).
    destruct Hcase as [(Hmb & Hd & Hc)|[Hlt (Hlo & Hhi & rl & cnt & Hnth & Hne & Hex & Hc & Hmb)]].
    + subst mb d c. cbn [N.eqb]. rewrite Hall. reflexivity.
    + destruct (d =? 0) eqn:Hd0; [lia|].
      destruct (d <=? N.of_nat n) eqn:Hdn; [|lia].
      replace (N.to_nat d - 1)%nat with (N.to_nat (d - 1)) by lia.
      rewrite Hnth, Hex.
      destruct rl as [|r rl']; [contradiction Hne; reflexivity|].
      rewrite <- Hmb, Hall.
      destruct (mb <? base) eqn:Hmbb; [|lia].
      cbn [andb]. rewrite Hc. reflexivity.
Qed.

Lemma greedy_sel_aux_run_ok p cs : forall g x prev,
  greedy_run_aux p cs x prev g (greedy_sel_aux p cs x prev g) = true.
Proof.
  induction g as [|cur g IH]; intros x prev.
  - reflexivity.
  - cbn [greedy_sel_aux].
    destruct (greedy_choose p cs x cur prev) as [d c] eqn:Hch.
    cbn [greedy_run_aux].
    rewrite (greedy_choose_ok _ _ _ _ _ _ _ Hch).
    apply IH.
Qed.

Theorem greedy_sel_run_ok : S_greedy_sel_run_ok.
Proof.
  intros p cs start g. unfold greedy_run_ok, greedy_sel.
  apply greedy_sel_aux_run_ok.
Qed.

(** * Every accepted choice is an admissible one *)

Lemma greedy_choice_ok_good p cs x cur prev d c :
  greedy_choice_ok p cs x cur prev d = Some c -> good_choice p prev d c.
Proof.
  unfold greedy_choice_ok. intros H.
  destruct (window p =? 0) eqn:Hw.
  - destruct (d =? 0) eqn:Hd0; [|discriminate H].
    inversion H. left. split; [lia|reflexivity].
  - cbv zeta in H.
    remember (fields_len cs (node_fields p x cur 0 [])) as base eqn:Hbase. clear Hbase.
    destruct (d =? 0) eqn:Hd0.
    + destruct (cand_all_ge p cs x cur 1 _ prev base); [|discriminate H].
      inversion H. left. split; [lia|reflexivity].
    + destruct (d <=? N.of_nat (Nat.min (N.to_nat (window p)) (length prev))) eqn:Hdn;
        [|discriminate H].
      destruct (nth_opt prev (N.to_nat d - 1)) as [[rl cnt]|] eqn:Hnth; [|discriminate H].
      destruct (exceeds (max_ref p) cnt) eqn:Hex; [discriminate H|].
      destruct rl as [|r rl']; [discriminate H|].
      match type of H with (if ?b then _ else _) = _ => destruct b end; [|discriminate H].
      inversion H. right. unfold nlen.
      split; [lia|]. split; [lia|]. split; [lia|].
      exists (r :: rl'), cnt. repeat split; try assumption; try reflexivity. discriminate.
Qed.

(** * Validity *)

Lemma greedy_run_aux_valid p cs : forall g sel x prev,
  greedy_run_aux p cs x prev g sel = true ->
  valid_sel p (map fst prev) g sel = true.
Proof.
  induction g as [|cur g IH]; intros sel x prev H.
  - destruct sel; [reflexivity|discriminate H].
  - destruct sel as [|d sel]; [discriminate H|].
    cbn [greedy_run_aux] in H.
    destruct (greedy_choice_ok p cs x cur prev d) as [c|] eqn:Hch; [|discriminate H].
    cbn [valid_sel].
    apply andb_true_iff. split.
    + apply greedy_choice_ok_good in Hch.
      destruct Hch as [[Hd Hc]|(Hlo & Hw & Hlen & rl & cnt & Hnth & Hne & Hex & Hc)].
      * subst d. reflexivity.
      * apply orb_true_iff. right.
        rewrite nth_opt_map, Hnth. cbn [option_map fst].
        unfold nlen in *. rewrite map_length.
        destruct rl as [|r rl']; [contradiction Hne; reflexivity|].
        rewrite andb_true_r. apply andb_true_iff.
        split; apply N.leb_le; assumption.
    + exact (IH sel (x + 1) ((cur, c) :: prev) H).
Qed.

Theorem greedy_run_valid : S_greedy_run_valid.
Proof.
  intros p cs start g sel H. unfold greedy_run_ok in H.
  exact (greedy_run_aux_valid p cs g sel start [] H).
Qed.

(** * Depth: the counts kept by the replay are the chain depths *)

Lemma greedy_run_aux_depth p cs m : max_ref p = Some m ->
  forall g sel x prev,
  greedy_run_aux p cs x prev g sel = true ->
  Forall (fun d => d <= m) (map snd prev) ->
  Forall (fun d => d <= m) (depths_acc (map snd prev) sel).
Proof.
  intros Hm.
  induction g as [|cur g IH]; intros sel x prev H Hprev.
  - destruct sel; [constructor|discriminate H].
  - destruct sel as [|d sel]; [discriminate H|].
    cbn [greedy_run_aux] in H.
    destruct (greedy_choice_ok p cs x cur prev d) as [c|] eqn:Hch; [|discriminate H].
    cbn [depths_acc].
    apply greedy_choice_ok_good in Hch.
    assert (Hdep : (if d =? 0 then 0
                    else match nth_opt (map snd prev) (N.to_nat d - 1) with
                         | Some k => k + 1 | None => 0 end) = c /\ c <= m).
    { destruct Hch as [[Hd Hc]|(Hlo & Hw & Hlen & rl & cnt & Hnth & Hne & Hex & Hc)].
      - subst d c. split; [reflexivity|lia].
      - destruct (d =? 0) eqn:Hd0; [lia|].
        rewrite nth_opt_map, Hnth. cbn [option_map snd].
        split; [symmetry; exact Hc|].
        rewrite Hm in Hex. cbn [exceeds] in Hex. lia. }
    destruct Hdep as [Hdep Hle]. rewrite Hdep.
    constructor; [exact Hle|].
    apply (IH sel (x + 1) ((cur, c) :: prev) H).
    cbn [map snd]. constructor; assumption.
Qed.

Theorem greedy_run_depth : S_greedy_run_depth.
Proof.
  intros p cs start g sel m H Hm. unfold depths. unfold greedy_run_ok in H.
  apply (greedy_run_aux_depth p cs m Hm g sel start [] H).
  constructor.
Qed.

(** * What one step of the checker accepts *)

Lemma cand_all_ge_spec p cs x cur b : forall n prev delta,
  cand_all_ge p cs x cur delta n prev b = true <->
  (forall i rl cnt, (i < n)%nat -> nth_opt prev i = Some (rl, cnt) -> rl <> [] ->
                    exceeds (max_ref p) cnt = false ->
                    b <= cand_cost p cs x cur (delta + N.of_nat i) rl).
Proof.
  unfold cand_cost.
  induction n as [|n IH]; intros prev delta.
  - cbn [cand_all_ge]. split; [intros _ i rl cnt Hi; lia|reflexivity].
  - destruct prev as [|[rl0 cnt0] prev'].
    + cbn [cand_all_ge]. split; [|reflexivity].
      intros _ i rl cnt _ Hnth. destruct i; discriminate Hnth.
    + cbn [cand_all_ge]. rewrite andb_true_iff, IH. split.
      * intros [Hh Ht] i rl cnt Hi Hnth Hne Hex.
        destruct i as [|i].
        -- cbn [nth_opt] in Hnth. inversion Hnth; subst rl0 cnt0.
           rewrite Hex in Hh. destruct rl as [|r rl']; [contradiction Hne; reflexivity|].
           replace (delta + N.of_nat 0) with delta by lia. lia.
        -- cbn [nth_opt] in Hnth.
           replace (delta + N.of_nat (S i)) with (delta + 1 + N.of_nat i) by lia.
           apply (Ht i rl cnt); [lia|assumption..].
      * intros H. split.
        -- destruct (exceeds (max_ref p) cnt0) eqn:Hex; [reflexivity|].
           destruct rl0 as [|r rl']; [reflexivity|].
           specialize (H O (r :: rl') cnt0).
           replace (delta + N.of_nat 0) with delta in H by lia.
           apply N.leb_le. apply H; [lia|reflexivity|discriminate|exact Hex].
        -- intros i rl cnt Hi Hnth Hne Hex.
           replace (delta + 1 + N.of_nat i) with (delta + N.of_nat (S i)) by lia.
           apply (H (S i) rl cnt); [lia|exact Hnth|assumption..].
Qed.

(** the same, in terms of admissible distances *)
Lemma cand_all_ge_admissible p cs x cur prev b :
  cand_all_ge p cs x cur 1 (Nat.min (N.to_nat (window p)) (length prev)) prev b = true <->
  (forall d rl cnt, admissible p prev d rl cnt -> b <= cand_cost p cs x cur d rl).
Proof.
  rewrite cand_all_ge_spec. unfold admissible, nlen. split.
  - intros H d rl cnt (Hlo & Hw & Hlen & Hnth & Hne & Hex).
    specialize (H (N.to_nat d - 1)%nat rl cnt).
    replace (1 + N.of_nat (N.to_nat d - 1)) with d in H by lia.
    apply H; [lia|assumption..].
  - intros H i rl cnt Hi Hnth Hne Hex.
    apply (H (1 + N.of_nat i) rl cnt).
    split; [lia|]. split; [lia|]. split; [lia|].
    replace (N.to_nat (1 + N.of_nat i) - 1)%nat with i by lia.
    repeat split; assumption.
Qed.

Theorem greedy_choice_ok_spec : S_greedy_choice_ok_spec.
Proof.
  intros p cs x cur prev d c. unfold greedy_choice_ok.
  destruct (window p =? 0) eqn:Hw.
  - destruct (d =? 0) eqn:Hd0; split.
    + intros H; inversion H. split; [lia|reflexivity].
    + intros [_ Hc]. subst c. reflexivity.
    + discriminate.
    + intros [Hd _]. lia.
  - cbv zeta. fold (cand_cost p cs x cur 0 []).
    set (base := cand_cost p cs x cur 0 []).
    set (n := Nat.min (N.to_nat (window p)) (length prev)).
    destruct (d =? 0) eqn:Hd0.
    + split.
      * intros H. left.
        destruct (cand_all_ge p cs x cur 1 n prev base) eqn:Hall; [|discriminate H].
        inversion H. split; [lia|]. split; [reflexivity|].
        apply cand_all_ge_admissible. exact Hall.
      * intros [(Hd & Hc & Hall)|(rl & cnt & (Hlo & _) & _)]; [|lia].
        apply cand_all_ge_admissible in Hall. fold n in Hall. rewrite Hall.
        subst c. reflexivity.
    + split.
      * intros H. right.
        destruct (d <=? N.of_nat n) eqn:Hdn; [|discriminate H].
        destruct (nth_opt prev (N.to_nat d - 1)) as [[rl cnt]|] eqn:Hnth; [|discriminate H].
        destruct (exceeds (max_ref p) cnt) eqn:Hex; [discriminate H|].
        destruct rl as [|r rl']; [discriminate H|].
        fold (cand_cost p cs x cur d (r :: rl')) in H.
        destruct (cand_cost p cs x cur d (r :: rl') <? base) eqn:Hlt; [|discriminate H].
        destruct (cand_all_ge p cs x cur 1 n prev (cand_cost p cs x cur d (r :: rl'))) eqn:Hall;
          [|discriminate H].
        inversion H.
        exists (r :: rl'), cnt.
        split.
        { unfold admissible, nlen. subst n.
          split; [lia|]. split; [lia|]. split; [lia|].
          split; [exact Hnth|]. split; [discriminate|exact Hex]. }
        split; [reflexivity|]. split; [lia|].
        apply cand_all_ge_admissible. exact Hall.
      * intros [(Hd & _)|(rl & cnt & Hadm & Hc & Hlt & Hall)]; [lia|].
        apply cand_all_ge_admissible in Hall. fold n in Hall.
        destruct Hadm as (Hlo & Hwd & Hlen & Hnth & Hne & Hex).
        unfold nlen in Hlen.
        destruct (d <=? N.of_nat n) eqn:Hdn; [|subst n; lia].
        rewrite Hnth, Hex.
        destruct rl as [|r rl']; [contradiction Hne; reflexivity|].
        fold (cand_cost p cs x cur d (r :: rl')).
        rewrite Hall.
        destruct (cand_cost p cs x cur d (r :: rl') <? base) eqn:Hlt'; [|lia].
        subst c. reflexivity.
Qed.

Print Assumptions greedy_sel_run_ok.
Print Assumptions greedy_run_valid.
Print Assumptions greedy_run_depth.
Print Assumptions greedy_choice_ok_spec.
