(** Facts about the per-node compressor: [to_int]/[to_nat], the copy-block
    decomposition ([diff_comp]), intervalisation, and the structural invariants needed
    by the node round trip. *)
From WG Require Import Base.Prelude Codes.Codes BV.Model BV.RefSel BV.Statements.
From Coq Require Import ZifyBool ZifyN ZifyNat.
Local Open Scope N_scope.

(** * Small utilities *)

Lemma nlen_nil {A} : nlen (@nil A) = 0.
Proof. reflexivity. Qed.

Lemma nlen_cons {A} (a : A) l : nlen (a :: l) = nlen l + 1.
Proof. unfold nlen. cbn [length]. lia. Qed.

Lemma nlen_app {A} (a b : list A) : nlen (a ++ b) = nlen a + nlen b.
Proof. unfold nlen. rewrite app_length. lia. Qed.

Lemma nlen_perm {A} (a b : list A) : Permutation a b -> nlen a = nlen b.
Proof. intros H. unfold nlen. rewrite (Permutation_length H). reflexivity. Qed.

Lemma nseq_length a n : length (nseq a n) = n.
Proof. revert a. induction n as [|n IH]; intros a; cbn [nseq length]; [reflexivity|].
  rewrite IH. reflexivity. Qed.

(** * [to_int (to_nat z) = z] *)

Theorem to_int_to_nat : S_to_int_to_nat.
Proof.
  unfold S_to_int_to_nat, to_int, to_nat. intros z.
  destruct (0 <=? z)%Z eqn:Hz.
  - apply Z.leb_le in Hz.
    assert (He : N.even (Z.to_N (2 * z)) = true).
    { apply N.even_spec. exists (Z.to_N z). lia. }
    rewrite He.
    replace (Z.to_N (2 * z)) with (2 * Z.to_N z) by lia.
    rewrite N.mul_comm, N.div_mul by lia. lia.
  - apply Z.leb_gt in Hz.
    assert (Ho : N.even (Z.to_N (- 2 * z - 1)) = false).
    { rewrite <- N.negb_odd. apply negb_false_iff. apply N.odd_spec.
      exists (Z.to_N (- z - 1)). lia. }
    rewrite Ho.
    replace (Z.to_N (- 2 * z - 1) + 1) with (2 * Z.to_N (- z)) by lia.
    rewrite N.mul_comm, N.div_mul by lia. lia.
Qed.

(** * Subsequences *)

Inductive subseq {A} : list A -> list A -> Prop :=
| subseq_nil : subseq [] []
| subseq_skip : forall a l x, subseq a l -> subseq a (x :: l)
| subseq_take : forall a l x, subseq a l -> subseq (x :: a) (x :: l).

Lemma subseq_refl {A} (l : list A) : subseq l l.
Proof. induction l; constructor; assumption. Qed.

Lemma subseq_nil_l {A} (l : list A) : subseq [] l.
Proof. induction l; constructor; assumption. Qed.

Lemma subseq_skipn_r {A} n (a l : list A) : subseq a (skipn n l) -> subseq a l.
Proof.
  revert l. induction n as [|n IH]; intros l H; [exact H|].
  destruct l as [|x l]; [exact H|]. cbn [skipn] in H. constructor. apply IH, H.
Qed.

Lemma subseq_Forall {A} (P : A -> Prop) a l : subseq a l -> Forall P l -> Forall P a.
Proof.
  induction 1 as [|a l x H IH|a l x H IH]; intros HF.
  - constructor.
  - inversion HF; subst. auto.
  - inversion HF; subst. constructor; auto.
Qed.

Lemma subseq_inc a l : subseq a l -> inc l -> inc a.
Proof.
  unfold inc. induction 1 as [|a l x H IH|a l x H IH]; intros HS.
  - constructor.
  - apply StronglySorted_inv in HS. apply IH, HS.
  - apply StronglySorted_inv in HS. destruct HS as [HS HF].
    constructor; [apply IH, HS|]. eapply subseq_Forall; eassumption.
Qed.

(** * [diff_rec]: the copy-block decomposition *)

Lemma mask_zero {A} c bs (ref : list A) : mask c (0 :: bs) ref = mask (negb c) bs ref.
Proof. cbn. destruct c; reflexivity. Qed.

Lemma mask_inc_head {A} c bs (r : A) rs :
  mask c (inc_head bs) (r :: rs) = (if c then [r] else []) ++ mask c bs rs.
Proof.
  destruct bs as [|b bs]; cbn [inc_head mask].
  - destruct c; reflexivity.
  - replace (N.to_nat (b + 1)) with (S (N.to_nat b)) by lia.
    cbn [firstn skipn]. destruct c; reflexivity.
Qed.

Definition flips (cur ref : list N) (c : bool) : bool :=
  match cur, ref with
  | x :: _, r :: _ => if c then r <? x else negb (r <? x) && negb (x <? r)
  | _, _ => false
  end.
Definition weight (cur ref : list N) (c : bool) : nat :=
  2 * (length cur + length ref) + (if flips cur ref c then 1 else 0).

Lemma copy_perm_rec : forall fuel cur ref c b e,
  (weight cur ref c < fuel)%nat ->
  diff_rec fuel cur ref c = (b, e) ->
  Permutation (mask c b ref ++ e) cur.
Proof.
  induction fuel as [|fuel IH]; intros cur ref c b e Hw H; [lia|].
  cbn [diff_rec] in H.
  destruct cur as [|x cs]; destruct ref as [|r rs].
  - inversion H; subst. destruct c; constructor.
  - inversion H; subst. destruct c; cbn; constructor.
  - inversion H; subst. cbn. destruct c; apply Permutation_refl.
  - unfold weight, flips in Hw. cbn [length] in Hw.
    destruct c.
    + destruct (r <? x) eqn:Hrx.
      * destruct (diff_rec fuel (x :: cs) (r :: rs) false) as [b' e'] eqn:Hd.
        inversion H; subst. rewrite mask_zero. cbn [negb].
        eapply IH; [|exact Hd]. unfold weight, flips. cbn [length].
        rewrite Hrx. cbn. lia.
      * destruct (x <? r) eqn:Hxr.
        -- destruct (diff_rec fuel cs (r :: rs) true) as [b' e'] eqn:Hd.
           inversion H; subst.
           apply Permutation_sym, Permutation_cons_app, Permutation_sym.
           eapply IH; [|exact Hd]. unfold weight. cbn [length].
           destruct (flips cs (r :: rs) true); lia.
        -- destruct (diff_rec fuel cs rs true) as [b' e'] eqn:Hd.
           inversion H; subst. rewrite mask_inc_head. cbn [app].
           assert (x = r) by (apply N.ltb_ge in Hrx; apply N.ltb_ge in Hxr; lia). subst.
           constructor. eapply IH; [|exact Hd]. unfold weight. cbn [length].
           destruct (flips cs rs true); lia.
    + destruct (r <? x) eqn:Hrx.
      * destruct (diff_rec fuel (x :: cs) rs false) as [b' e'] eqn:Hd.
        inversion H; subst. rewrite mask_inc_head. cbn [app].
        eapply IH; [|exact Hd]. unfold weight. cbn [length].
        destruct (flips (x :: cs) rs false); cbn in Hw; lia.
      * destruct (x <? r) eqn:Hxr.
        -- destruct (diff_rec fuel cs (r :: rs) false) as [b' e'] eqn:Hd.
           inversion H; subst.
           apply Permutation_sym, Permutation_cons_app, Permutation_sym.
           eapply IH; [|exact Hd]. unfold weight. cbn [length].
           destruct (flips cs (r :: rs) false); cbn in Hw; lia.
        -- destruct (diff_rec fuel (x :: cs) (r :: rs) true) as [b' e'] eqn:Hd.
           inversion H; subst. rewrite mask_zero. cbn [negb].
           eapply IH; [|exact Hd]. unfold weight, flips. cbn [length].
           rewrite Hrx. cbn in Hw |- *. lia.
Qed.

Theorem copy_perm : S_copy_perm.
Proof.
  unfold S_copy_perm, diff_comp. intros cur ref b e H.
  eapply copy_perm_rec; [|exact H].
  unfold weight, diff_fuel. destruct (flips cur ref true); lia.
Qed.

(** extras are a subsequence of the current list (no fuel condition needed) *)
Lemma diff_rec_subseq : forall fuel cur ref c b e,
  diff_rec fuel cur ref c = (b, e) -> subseq e cur.
Proof.
  induction fuel as [|fuel IH]; intros cur ref c b e H; cbn [diff_rec] in H.
  - inversion H; subst. apply subseq_nil_l.
  - destruct cur as [|x cs]; destruct ref as [|r rs].
    + inversion H; subst. constructor.
    + inversion H; subst. constructor.
    + inversion H; subst. apply subseq_refl.
    + destruct c.
      * destruct (r <? x).
        -- destruct (diff_rec fuel (x :: cs) (r :: rs) false) as [b' e'] eqn:Hd.
           inversion H; subst. eapply IH, Hd.
        -- destruct (x <? r).
           ++ destruct (diff_rec fuel cs (r :: rs) true) as [b' e'] eqn:Hd.
              inversion H; subst. apply subseq_take. eapply IH, Hd.
           ++ destruct (diff_rec fuel cs rs true) as [b' e'] eqn:Hd.
              inversion H; subst. apply subseq_skip. eapply IH, Hd.
      * destruct (r <? x).
        -- destruct (diff_rec fuel (x :: cs) rs false) as [b' e'] eqn:Hd.
           inversion H; subst. eapply IH, Hd.
        -- destruct (x <? r).
           ++ destruct (diff_rec fuel cs (r :: rs) false) as [b' e'] eqn:Hd.
              inversion H; subst. apply subseq_take. eapply IH, Hd.
           ++ destruct (diff_rec fuel (x :: cs) (r :: rs) true) as [b' e'] eqn:Hd.
              inversion H; subst. eapply IH, Hd.
Qed.

(** ** Well-formedness of the blocks *)

Lemma nsum_inc_head b : nsum (inc_head b) <= nsum b + 1.
Proof. destruct b as [|x b]; cbn [inc_head nsum]; lia. Qed.

Lemma tl_inc_head b : tl (inc_head b) = tl b.
Proof. destruct b; reflexivity. Qed.

Lemma inc_head_pos b : inc_head b = [] \/ 1 <= hd 0 (inc_head b).
Proof. destruct b as [|x b]; cbn [inc_head hd]; [left; reflexivity|right; lia]. Qed.

Lemma Forall_pos_cons b :
  (b = [] \/ 1 <= hd 0 b) -> Forall (fun x => 1 <= x) (tl b) -> Forall (fun x => 1 <= x) b.
Proof.
  intros [->|H] HF; [constructor|].
  destruct b as [|x b]; [constructor|]. cbn [hd tl] in *. constructor; assumption.
Qed.

Lemma blocks_wf_rec : forall fuel cur ref c b e,
  diff_rec fuel cur ref c = (b, e) ->
  nsum b <= nlen ref /\ Forall (fun x => 1 <= x) (tl b) /\
  (forall x cs r rs, cur = x :: cs -> ref = r :: rs ->
     (c = true /\ x = r) \/ (c = false /\ r < x) -> b = [] \/ 1 <= hd 0 b).
Proof.
  induction fuel as [|fuel IH]; intros cur ref c b e H; cbn [diff_rec] in H.
  - inversion H; subst. cbn [nsum tl]. repeat split; [lia|constructor|auto].
  - destruct cur as [|x cs]; destruct ref as [|r rs].
    + inversion H; subst. cbn [nsum tl]. repeat split; [lia|constructor|auto].
    + inversion H; subst. repeat split.
      * destruct c; cbn [nsum]; lia.
      * destruct c; constructor.
      * intros; discriminate.
    + inversion H; subst. cbn [nsum tl]. repeat split; [lia|constructor|auto].
    + rewrite nlen_cons.
      destruct c.
      * destruct (r <? x) eqn:Hrx.
        -- destruct (diff_rec fuel (x :: cs) (r :: rs) false) as [b' e'] eqn:Hd.
           inversion H; subst. apply IH in Hd. destruct Hd as (Hs & Ht & Hh).
           rewrite nlen_cons in Hs. cbn [nsum tl]. repeat split.
           ++ lia.
           ++ apply Forall_pos_cons; [|exact Ht].
              eapply Hh; [reflexivity|reflexivity|]. right. split; [reflexivity|].
              apply N.ltb_lt, Hrx.
           ++ intros x0 cs0 r0 rs0 E1 E2 [[_ E]|[E _]]; [|discriminate].
              inversion E1; inversion E2; subst. apply N.ltb_lt in Hrx. lia.
        -- destruct (x <? r) eqn:Hxr.
           ++ destruct (diff_rec fuel cs (r :: rs) true) as [b' e'] eqn:Hd.
              inversion H; subst. apply IH in Hd. destruct Hd as (Hs & Ht & Hh).
              rewrite nlen_cons in Hs. repeat split; [lia|exact Ht|].
              intros x0 cs0 r0 rs0 E1 E2 [[_ E]|[E _]]; [|discriminate].
              inversion E1; inversion E2; subst. apply N.ltb_lt in Hxr. lia.
           ++ destruct (diff_rec fuel cs rs true) as [b' e'] eqn:Hd.
              inversion H; subst. apply IH in Hd. destruct Hd as (Hs & Ht & Hh).
              repeat split.
              ** pose proof (nsum_inc_head b'). lia.
              ** rewrite tl_inc_head. exact Ht.
              ** intros. apply inc_head_pos.
      * destruct (r <? x) eqn:Hrx.
        -- destruct (diff_rec fuel (x :: cs) rs false) as [b' e'] eqn:Hd.
           inversion H; subst. apply IH in Hd. destruct Hd as (Hs & Ht & Hh).
           repeat split.
           ++ pose proof (nsum_inc_head b'). lia.
           ++ rewrite tl_inc_head. exact Ht.
           ++ intros. apply inc_head_pos.
        -- destruct (x <? r) eqn:Hxr.
           ++ destruct (diff_rec fuel cs (r :: rs) false) as [b' e'] eqn:Hd.
              inversion H; subst. apply IH in Hd. destruct Hd as (Hs & Ht & Hh).
              rewrite nlen_cons in Hs. repeat split; [lia|exact Ht|].
              intros x0 cs0 r0 rs0 E1 E2 [[E _]|[_ E]]; [discriminate|].
              inversion E1; inversion E2; subst. apply N.ltb_ge in Hrx. lia.
           ++ destruct (diff_rec fuel (x :: cs) (r :: rs) true) as [b' e'] eqn:Hd.
              inversion H; subst. apply IH in Hd. destruct Hd as (Hs & Ht & Hh).
              rewrite nlen_cons in Hs. cbn [nsum tl]. repeat split.
              ** lia.
              ** apply Forall_pos_cons; [|exact Ht].
                 eapply Hh; [reflexivity|reflexivity|]. left. split; [reflexivity|].
                 apply N.ltb_ge in Hrx. apply N.ltb_ge in Hxr. lia.
              ** intros x0 cs0 r0 rs0 E1 E2 [[E _]|[_ E]]; [discriminate|].
                 inversion E1; inversion E2; subst. apply N.ltb_ge in Hrx. lia.
Qed.

Theorem blocks_wf : S_blocks_wf.
Proof.
  unfold S_blocks_wf, diff_comp. intros cur ref b e H.
  apply blocks_wf_rec in H. destruct H as (Hs & Ht & _). split; assumption.
Qed.

(** * Intervalisation *)

Lemma run_len_firstn : forall l x,
  firstn (run_len x l) l = nseq (x + 1) (run_len x l).
Proof.
  induction l as [|y l IH]; intros x; cbn [run_len].
  - reflexivity.
  - destruct (y =? x + 1) eqn:E.
    + apply N.eqb_eq in E. subst y. cbn [firstn nseq]. rewrite IH. reflexivity.
    + reflexivity.
Qed.

Lemma run_len_le : forall l x, (run_len x l <= length l)%nat.
Proof.
  induction l as [|y l IH]; intros x; cbn [run_len length]; [lia|].
  destruct (y =? x + 1); [|lia]. specialize (IH y). lia.
Qed.

Lemma skipn_length_le {A} n (l : list A) : (length (skipn n l) <= length l)%nat.
Proof. rewrite skipn_length. lia. Qed.

Lemma expand_ints_cons l len is :
  expand_ints ((l, len) :: is) = nseq l (N.to_nat len) ++ expand_ints is.
Proof. reflexivity. Qed.

Lemma intervalize_perm_gen : forall fuel L l is rs,
  (length l <= fuel)%nat -> intervalize fuel L l = (is, rs) ->
  Permutation (expand_ints is ++ rs) l.
Proof.
  induction fuel as [|fuel IH]; intros L l is rs Hf H; cbn [intervalize] in H.
  - destruct l; [|cbn in Hf; lia]. inversion H; subst. constructor.
  - destruct l as [|x l'].
    + inversion H; subst. constructor.
    + cbn [length] in Hf.
      destruct ((1 <=? run_len x l')%nat && (L <=? N.of_nat (S (run_len x l')))) eqn:Hc.
      * destruct (intervalize fuel L (skipn (run_len x l') l')) as [is' rs'] eqn:Hi.
        inversion H; subst. apply IH in Hi.
        2:{ pose proof (skipn_length_le (run_len x l') l'). lia. }
        rewrite expand_ints_cons.
        replace (N.to_nat (N.of_nat (S (run_len x l')))) with (S (run_len x l')) by lia.
        cbn [nseq]. rewrite <- run_len_firstn. cbn [app]. constructor.
        rewrite <- (firstn_skipn (run_len x l') l') at 3.
        rewrite <- app_assoc. apply Permutation_app_head. exact Hi.
      * destruct (intervalize fuel L l') as [is' rs'] eqn:Hi.
        inversion H; subst. apply IH in Hi; [|lia].
        apply Permutation_sym, Permutation_cons_app, Permutation_sym. exact Hi.
Qed.

Theorem intervalize_perm : S_intervalize_perm.
Proof.
  unfold S_intervalize_perm. intros L l is rs _ H.
  eapply intervalize_perm_gen; [|exact H]. lia.
Qed.

Definition minlen_ok (L : N) (i : N * N) : Prop := let '(_, len) := i in L <= len /\ 2 <= len.

Lemma intervalize_minlen_gen : forall fuel L l is rs,
  intervalize fuel L l = (is, rs) -> Forall (minlen_ok L) is.
Proof.
  induction fuel as [|fuel IH]; intros L l is rs H; cbn [intervalize] in H.
  - inversion H; subst. constructor.
  - destruct l as [|x l'].
    + inversion H; subst. constructor.
    + destruct ((1 <=? run_len x l')%nat && (L <=? N.of_nat (S (run_len x l')))) eqn:Hc.
      * destruct (intervalize fuel L (skipn (run_len x l') l')) as [is' rs'] eqn:Hi.
        inversion H; subst. apply IH in Hi. constructor; [|exact Hi].
        apply andb_true_iff in Hc. destruct Hc as [H1 H2].
        apply Nat.leb_le in H1. apply N.leb_le in H2. cbn [minlen_ok]. lia.
      * destruct (intervalize fuel L l') as [is' rs'] eqn:Hi.
        inversion H; subst. eapply IH, Hi.
Qed.

Theorem intervalize_minlen : S_intervalize_minlen.
Proof.
  unfold S_intervalize_minlen. intros L l is rs H.
  apply intervalize_minlen_gen in H. exact H.
Qed.

(** residuals are a subsequence of the input *)
Lemma intervalize_subseq : forall fuel L l is rs,
  intervalize fuel L l = (is, rs) -> subseq rs l.
Proof.
  induction fuel as [|fuel IH]; intros L l is rs H; cbn [intervalize] in H.
  - inversion H; subst. apply subseq_nil_l.
  - destruct l as [|x l'].
    + inversion H; subst. constructor.
    + destruct ((1 <=? run_len x l')%nat && (L <=? N.of_nat (S (run_len x l')))).
      * destruct (intervalize fuel L (skipn (run_len x l') l')) as [is' rs'] eqn:Hi.
        inversion H; subst. apply IH in Hi. apply subseq_skip.
        eapply subseq_skipn_r, Hi.
      * destruct (intervalize fuel L l') as [is' rs'] eqn:Hi.
        inversion H; subst. apply subseq_take. eapply IH, Hi.
Qed.

(** intervals come out in increasing order, separated by at least one missing integer *)
Fixpoint ints_from (b : N) (is : list (N * N)) : Prop :=
  match is with
  | [] => True
  | (l, len) :: is' => b <= l /\ ints_from (l + len + 1) is'
  end.

Lemma run_len_skipn_bound : forall l x,
  inc (x :: l) ->
  Forall (fun y => x + N.of_nat (run_len x l) + 2 <= y) (skipn (run_len x l) l).
Proof.
  induction l as [|y l IH]; intros x Hinc; cbn [run_len].
  - constructor.
  - unfold inc in Hinc. apply StronglySorted_inv in Hinc. destruct Hinc as [Hs Hx].
    destruct (y =? x + 1) eqn:E.
    + apply N.eqb_eq in E. subst y. cbn [skipn].
      specialize (IH (x + 1) Hs). eapply Forall_impl; [|exact IH].
      cbn beta. intros a Ha. lia.
    + apply N.eqb_neq in E. cbn [skipn].
      apply StronglySorted_inv in Hs. destruct Hs as [Hs Hy].
      inversion Hx as [|? ? Hxy Hx']; subst.
      constructor; [lia|]. eapply Forall_impl; [|exact Hy]. cbn beta. intros a Ha. lia.
Qed.

Lemma inc_skipn n l : inc l -> inc (skipn n l).
Proof. intros H. eapply subseq_inc; [|exact H]. eapply subseq_skipn_r, subseq_refl. Qed.

Lemma intervalize_ints_from : forall fuel L l is rs bnd,
  inc l -> Forall (fun y => bnd <= y) l ->
  intervalize fuel L l = (is, rs) -> ints_from bnd is.
Proof.
  induction fuel as [|fuel IH]; intros L l is rs bnd Hinc Hb H; cbn [intervalize] in H.
  - inversion H; subst. exact I.
  - destruct l as [|x l'].
    + inversion H; subst. exact I.
    + destruct ((1 <=? run_len x l')%nat && (L <=? N.of_nat (S (run_len x l')))).
      * destruct (intervalize fuel L (skipn (run_len x l') l')) as [is' rs'] eqn:Hi.
        inversion H; subst. cbn [ints_from]. split.
        -- inversion Hb; subst. assumption.
        -- eapply IH; [| |exact Hi].
           ++ apply inc_skipn. unfold inc in *. apply StronglySorted_inv in Hinc. apply Hinc.
           ++ pose proof (run_len_skipn_bound l' x Hinc) as Hk.
              eapply Forall_impl; [|exact Hk]. cbn beta. intros a Ha. lia.
      * destruct (intervalize fuel L l') as [is' rs'] eqn:Hi.
        inversion H; subst. eapply IH; [| |exact Hi].
        -- unfold inc in *. apply StronglySorted_inv in Hinc. apply Hinc.
        -- inversion Hb; subst. assumption.
Qed.

(** * Summary of [compress] on a non-empty strictly increasing list *)

Lemma Forall_le0 (l : list N) : Forall (fun y => 0 <= y) l.
Proof. apply Forall_forall. intros. lia. Qed.

Lemma compress_spec L cur ref :
  inc cur -> cur <> [] ->
  let c := compress L cur ref in
  Permutation ((match ref with Some rl => mask true (c_blocks c) rl | None => [] end)
               ++ c_extras c) cur /\
  (match ref with
   | Some rl => nsum (c_blocks c) <= nlen rl /\ Forall (fun x => 1 <= x) (tl (c_blocks c))
   | None => c_blocks c = [] end) /\
  Permutation (expand_ints (c_ints c) ++ c_res c) (c_extras c) /\
  Forall (minlen_ok L) (c_ints c) /\
  ints_from 0 (c_ints c) /\
  inc (c_res c) /\
  (L = 0 \/ c_extras c = [] -> c_ints c = []).
Proof.
  intros Hinc Hne. destruct cur as [|a cur']; [congruence|]. clear Hne.
  unfold compress.
  set (be := match ref with Some r => diff_comp (a :: cur') r | None => ([], a :: cur') end).
  assert (Hbe : be = match ref with Some r => diff_comp (a :: cur') r | None => ([], a :: cur') end)
    by reflexivity.
  clearbody be. destruct be as [b e].
  assert (Hperm : Permutation ((match ref with Some rl => mask true b rl | None => [] end) ++ e)
                              (a :: cur')).
  { destruct ref as [rl|].
    - apply copy_perm. symmetry. exact Hbe.
    - inversion Hbe; subst. apply Permutation_refl. }
  assert (Hwf : match ref with
                | Some rl => nsum b <= nlen rl /\ Forall (fun x => 1 <= x) (tl b)
                | None => b = [] end).
  { destruct ref as [rl|].
    - apply (blocks_wf (a :: cur') rl b e). symmetry. exact Hbe.
    - inversion Hbe; subst. reflexivity. }
  assert (Hince : inc e).
  { destruct ref as [rl|].
    - eapply subseq_inc; [|exact Hinc]. unfold diff_comp in Hbe.
      eapply diff_rec_subseq. symmetry. exact Hbe.
    - inversion Hbe; subst. exact Hinc. }
  clear Hbe.
  destruct (L =? 0) eqn:HL.
  - cbn [c_blocks c_extras c_ints c_res].
    split; [exact Hperm|]. split; [exact Hwf|].
    split; [apply Permutation_refl|]. split; [constructor|]. split; [exact I|].
    split; [exact Hince|]. reflexivity.
  - destruct (intervalize (length e) L e) as [is rs] eqn:Hi.
    cbn [c_blocks c_extras c_ints c_res].
    split; [exact Hperm|]. split; [exact Hwf|].
    split; [eapply intervalize_perm_gen; [|exact Hi]; lia|].
    split; [eapply intervalize_minlen_gen, Hi|].
    split; [eapply intervalize_ints_from; [exact Hince|apply Forall_le0|exact Hi]|].
    split; [eapply subseq_inc; [eapply intervalize_subseq, Hi|exact Hince]|].
    intros [E|E]; [apply N.eqb_neq in HL; congruence|].
    subst e. cbn in Hi. inversion Hi; reflexivity.
Qed.

Print Assumptions to_int_to_nat.
Print Assumptions copy_perm.
Print Assumptions blocks_wf.
Print Assumptions intervalize_perm.
Print Assumptions intervalize_minlen.
