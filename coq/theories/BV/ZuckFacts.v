(** The pinned statements about the Zuckerli-style selector: validity and depth bound. *)
From WG Require Import Base.Prelude Codes.Codes BV.Model BV.RefSel BV.SelStatements.
From WG Require Import BV.ZuckBase BV.ZuckValid BV.ZuckDP BV.ZuckReadd.
From Coq Require Import ZifyBool ZifyN ZifyNat.
Local Open Scope N_scope.

Theorem zuck_valid : S_zuck_valid.
Proof. intros p cs k start g. apply zuck_sel_valid. Qed.

(** * Depth: one chunk *)

Lemma zuck_chunk_depth_idx p cs x g m : max_ref p = Some m ->
  forall j, (depth (zuck_chunk_sel p cs x g) j <= N.to_nat m)%nat.
Proof.
  intros Hm j. destruct (window p =? 0) eqn:W.
  - rewrite depth_root; [lia|]. unfold zuck_chunk_sel. rewrite W.
    unfold get. revert j. induction g as [|a g IH]; intros j; destruct j; cbn [map nth];
      try reflexivity. apply IH.
  - unfold zuck_chunk_sel. rewrite W, Hm.
    set (rows := chunk_rows p cs x [] g).
    assert (H0 : sel_ok rows (map fst (map row_choice rows))) by apply choice_sel_ok.
    assert (L0 : local (map fst (map row_choice rows))).
    { eapply sel_ok_local. exact H0. }
    match goal with |- context [update_refs_for_max_length m ?r ?s] =>
      destruct (update_refs_sub m r s) as [L1 S1];
      pose proof (zuck_dp_depth m r s L0) as D1;
      set (refs1 := update_refs_for_max_length m r s) in * end.
    apply find_additional_depth.
    + intros i. pose proof (chunk_rows_len p cs g x [] i) as H. cbn [length] in H. exact H.
    + eapply local_sub; eassumption.
    + exact D1.
Qed.

Lemma zuck_chunk_depth p cs x g m : max_ref p = Some m ->
  Forall (fun d => d <= m) (depths (zuck_chunk_sel p cs x g)).
Proof.
  intros Hm. apply depths_bound.
  - apply zuck_chunk_local.
  - apply zuck_chunk_depth_idx. exact Hm.
Qed.

(** * Depth: whole graph *)

Lemma zuck_sel_aux_depth p cs k m : max_ref p = Some m -> forall f x g prev,
  Forall (fun d => d <= m) (depths_acc prev (zuck_sel_aux f p cs k x g)).
Proof.
  intros Hm. induction f as [|f IH]; intros x g prev; cbn [zuck_sel_aux].
  - constructor.
  - destruct g as [|a g']; [constructor|].
    set (g := a :: g') in *.
    rewrite depths_acc_app. apply Forall_app. split; [|apply IH].
    change prev with ([] ++ prev) at 1.
    rewrite depths_acc_weaken.
    + apply zuck_chunk_depth. exact Hm.
    + intros i. cbn [length Nat.add]. apply zuck_chunk_local.
Qed.

Theorem zuck_depth : S_zuck_depth.
Proof.
  intros p cs k start g m Hm. unfold zuck_sel, depths. apply zuck_sel_aux_depth. exact Hm.
Qed.

Print Assumptions zuck_valid.
Print Assumptions zuck_depth.
