(** Basic facts used by the proofs about the Zuckerli-style selector: [get]/[upd],
    a fuel-based reference-chain depth on node indices and its link with [depths] of
    Model.v, composition lemmas for [valid_sel] and [depths_acc]. *)
From WG Require Import Base.Prelude Codes.Codes BV.Model BV.RefSel.
From Coq Require Import ZifyBool ZifyN ZifyNat.
Local Open Scope N_scope.

(** * [get] / [upd] *)

Lemma upd_length {A} (l : list A) i v : length (upd l i v) = length l.
Proof.
  revert i. induction l as [|a l IH]; intros i; cbn [upd length].
  - reflexivity.
  - destruct i as [|i]; cbn [length]; [reflexivity|]. rewrite IH. reflexivity.
Qed.

Lemma get_upd {A} (d : A) (l : list A) i v k :
  get d (upd l i v) k = if (Nat.eqb k i && Nat.ltb k (length l))%bool then v else get d l k.
Proof.
  unfold get. revert i k. induction l as [|a l IH]; intros i k; cbn [upd length].
  - rewrite Bool.andb_comm. destruct k; reflexivity.
  - destruct i as [|i]; destruct k as [|k]; cbn [nth Nat.eqb andb]; try reflexivity.
    rewrite IH. reflexivity.
Qed.

Lemma get_upd_same {A} (d : A) (l : list A) i v :
  (i < length l)%nat -> get d (upd l i v) i = v.
Proof.
  intros H. rewrite get_upd. rewrite Nat.eqb_refl.
  destruct (Nat.ltb i (length l)) eqn:E; [reflexivity|]. apply Nat.ltb_ge in E. lia.
Qed.

Lemma get_upd_other {A} (d : A) (l : list A) i v k :
  k <> i -> get d (upd l i v) k = get d l k.
Proof.
  intros H. rewrite get_upd. destruct (Nat.eqb k i) eqn:E.
  - apply Nat.eqb_eq in E. contradiction.
  - reflexivity.
Qed.

Lemma upd_same {A} (d : A) (l : list A) i : upd l i (get d l i) = l.
Proof.
  unfold get. revert i. induction l as [|a l IH]; intros i; cbn [upd].
  - reflexivity.
  - destruct i as [|i]; cbn [nth]; [reflexivity|]. rewrite IH. reflexivity.
Qed.

Lemma get_overflow {A} (d : A) (l : list A) i : (length l <= i)%nat -> get d l i = d.
Proof. intros H. unfold get. apply nth_overflow. exact H. Qed.

Lemma get_repeat {A} (d : A) n i : get d (repeat d n) i = d.
Proof. unfold get. apply nth_repeat. Qed.

Lemma get_repeat_le (x : nat) n i : (get O (repeat x n) i <= x)%nat.
Proof.
  unfold get. revert i. induction n as [|n IH]; intros i; cbn [repeat].
  - destruct i; cbn [nth]; lia.
  - destruct i as [|i]; cbn [nth]; [lia|]. apply IH.
Qed.

Lemma get_cons_S {A} (d : A) a l i : get d (a :: l) (S i) = get d l i.
Proof. reflexivity. Qed.

Lemma get_cons_O {A} (d : A) a l : get d (a :: l) O = a.
Proof. reflexivity. Qed.

(** * nth_opt *)

Lemma nth_opt_nth {A} (d : A) (l : list A) n :
  (n < length l)%nat -> nth_opt l n = Some (nth n l d).
Proof.
  revert n. induction l as [|a l IH]; intros n H; cbn [length] in H.
  - lia.
  - destruct n as [|n]; cbn [nth_opt nth]; [reflexivity|]. apply IH. lia.
Qed.

Lemma nth_opt_Some_lt {A} (l : list A) n x : nth_opt l n = Some x -> (n < length l)%nat.
Proof.
  revert n. induction l as [|a l IH]; intros n H; cbn [nth_opt] in H.
  - destruct n; discriminate.
  - destruct n as [|n]; cbn [length]; [lia|]. apply IH in H. lia.
Qed.

Lemma nth_opt_app1 {A} (l l' : list A) n :
  (n < length l)%nat -> nth_opt (l ++ l') n = nth_opt l n.
Proof.
  revert n. induction l as [|a l IH]; intros n H; cbn [length] in H.
  - lia.
  - destruct n as [|n]; cbn [nth_opt app]; [reflexivity|]. apply IH. lia.
Qed.

(** * Locality and depth *)

Definition local (refs : list N) : Prop := forall i, (N.to_nat (get 0%N refs i) <= i)%nat.

Fixpoint dpth (refs : list N) (fuel i : nat) : nat :=
  match fuel with
  | O => O
  | S f => let r := get 0 refs i in
           if r =? 0 then O else S (dpth refs f (i - N.to_nat r))
  end.
Definition depth (refs : list N) (i : nat) : nat := dpth refs (S i) i.

Lemma dpth_fuel refs : local refs ->
  forall f1 f2 i, (i < f1)%nat -> (i < f2)%nat -> dpth refs f1 i = dpth refs f2 i.
Proof.
  intros L. induction f1 as [|f1 IH]; intros f2 i H1 H2; [lia|].
  destruct f2 as [|f2]; [lia|]. cbn [dpth].
  destruct (get 0 refs i =? 0) eqn:E; [reflexivity|].
  f_equal. pose proof (L i) as Li. apply IH; lia.
Qed.

Lemma depth_eq refs i : local refs ->
  depth refs i = if get 0 refs i =? 0 then O
                 else S (depth refs (i - N.to_nat (get 0 refs i))).
Proof.
  intros L. unfold depth at 1. cbn [dpth].
  destruct (get 0 refs i =? 0) eqn:E; [reflexivity|].
  f_equal. unfold depth. pose proof (L i) as Li. apply dpth_fuel; [exact L|lia|lia].
Qed.

Lemma depth_root refs i : get 0 refs i = 0 -> depth refs i = O.
Proof. intros H. unfold depth. cbn [dpth]. rewrite H. reflexivity. Qed.

Lemma depth_child refs i : local refs -> get 0 refs i <> 0 ->
  depth refs i = S (depth refs (i - N.to_nat (get 0 refs i))).
Proof.
  intros L H. rewrite depth_eq by exact L.
  destruct (get 0 refs i =? 0) eqn:E; [lia|reflexivity].
Qed.

Lemma dpth_ext refs refs' : forall f i,
  (forall j, (j <= i)%nat -> get 0 refs j = get 0 refs' j) ->
  dpth refs f i = dpth refs' f i.
Proof.
  induction f as [|f IH]; intros i H; cbn [dpth]; [reflexivity|].
  rewrite <- (H i) by lia.
  destruct (get 0 refs i =? 0); [reflexivity|].
  f_equal. apply IH. intros j Hj. apply H. lia.
Qed.

Lemma depth_ext refs refs' i :
  (forall j, (j <= i)%nat -> get 0 refs j = get 0 refs' j) ->
  depth refs i = depth refs' i.
Proof. intros H. unfold depth. apply dpth_ext. exact H. Qed.

Lemma local_sub refs0 refs : local refs0 ->
  (forall j, get 0 refs j = get 0 refs0 j \/ get 0 refs j = 0) -> local refs.
Proof.
  intros L H i. pose proof (L i). destruct (H i) as [E|E]; rewrite E; lia.
Qed.

Lemma local_app_l l1 l2 : local (l1 ++ l2) -> local l1.
Proof.
  intros L i. destruct (Nat.lt_ge_cases i (length l1)) as [Hi|Hi].
  - pose proof (L i) as Li. unfold get in *. rewrite app_nth1 in Li by exact Hi. exact Li.
  - rewrite get_overflow by exact Hi. lia.
Qed.

(** * Link with [depths] of Model.v *)

Lemma depths_acc_length prev sel : length (depths_acc prev sel) = length sel.
Proof.
  revert prev. induction sel as [|d sel IH]; intros prev; cbn [depths_acc length].
  - reflexivity.
  - rewrite IH. reflexivity.
Qed.

Lemma depths_acc_app s1 : forall prev s2,
  depths_acc prev (s1 ++ s2)
  = depths_acc prev s1 ++ depths_acc (rev (depths_acc prev s1) ++ prev) s2.
Proof.
  induction s1 as [|d s1 IH]; intros prev s2; cbn [depths_acc app rev].
  - reflexivity.
  - f_equal. rewrite IH. f_equal. rewrite <- app_assoc. reflexivity.
Qed.

(** an older suffix of the accumulator is irrelevant for local choices *)
Lemma depths_acc_weaken sel : forall prev older,
  (forall i, (N.to_nat (get 0%N sel i) <= length prev + i)%nat) ->
  depths_acc (prev ++ older) sel = depths_acc prev sel.
Proof.
  induction sel as [|d sel IH]; intros prev older H; cbn [depths_acc].
  - reflexivity.
  - pose proof (H O) as H0. rewrite get_cons_O in H0.
    assert (E : (if d =? 0 then 0
                 else match nth_opt (prev ++ older) (N.to_nat d - 1) with
                      | Some k => k + 1 | None => 0 end)
              = (if d =? 0 then 0
                 else match nth_opt prev (N.to_nat d - 1) with
                      | Some k => k + 1 | None => 0 end)).
    { destruct (d =? 0) eqn:E0; [reflexivity|].
      rewrite nth_opt_app1 by lia. reflexivity. }
    rewrite E. f_equal.
    change (?x :: prev ++ older) with ((x :: prev) ++ older).
    apply IH. intros i. pose proof (H (S i)) as Hi. rewrite get_cons_S in Hi.
    cbn [length]. lia.
Qed.

Lemma depths_get refs : local refs ->
  forall i, (i < length refs)%nat -> get 0 (depths refs) i = N.of_nat (depth refs i).
Proof.
  induction refs as [|r l IH] using rev_ind; intros L i Hi.
  - cbn [length] in Hi. lia.
  - assert (Ll : local l) by (eapply local_app_l; exact L).
    unfold depths in *. rewrite depths_acc_app. rewrite app_nil_r.
    rewrite app_length in Hi. cbn [length] in Hi.
    assert (Hlen : length (depths_acc [] l) = length l) by apply depths_acc_length.
    destruct (Nat.lt_ge_cases i (length l)) as [Hil|Hil].
    + unfold get. rewrite app_nth1 by lia.
      fold (get 0 (depths_acc [] l) i). rewrite IH by assumption.
      f_equal. apply depth_ext. intros j Hj. unfold get. rewrite app_nth1 by lia. reflexivity.
    + assert (i = length l) by lia. subst i.
      unfold get. rewrite app_nth2 by lia. rewrite Hlen, Nat.sub_diag.
      cbn [depths_acc nth].
      assert (Er : get 0 (l ++ [r]) (length l) = r).
      { unfold get. rewrite app_nth2 by lia. rewrite Nat.sub_diag. reflexivity. }
      rewrite depth_eq by exact L. rewrite Er.
      destruct (r =? 0) eqn:E0; [reflexivity|].
      pose proof (L (length l)) as Lr. rewrite Er in Lr.
      rewrite (nth_opt_nth 0) by (rewrite rev_length; lia).
      rewrite rev_nth by lia. rewrite Hlen.
      replace (length l - S (N.to_nat r - 1))%nat with (length l - N.to_nat r)%nat by lia.
      fold (get 0 (depths_acc [] l) (length l - N.to_nat r)).
      rewrite IH by (try assumption; lia).
      rewrite (depth_ext (l ++ [r]) l).
      * lia.
      * intros j Hj. unfold get. rewrite app_nth1 by lia. reflexivity.
Qed.

Lemma depths_bound refs (m : N) : local refs ->
  (forall i, (depth refs i <= N.to_nat m)%nat) ->
  Forall (fun d => d <= m) (depths refs).
Proof.
  intros L H. apply Forall_forall. intros x Hx.
  destruct (In_nth _ _ 0 Hx) as [i [Hi Ei]].
  unfold depths in Hi. rewrite depths_acc_length in Hi.
  fold (get 0 (depths refs) i) in Ei. rewrite depths_get in Ei by assumption.
  pose proof (H i). lia.
Qed.

(** * Composition of [valid_sel] *)

Lemma valid_sel_length p : forall g prev sel,
  valid_sel p prev g sel = true -> length sel = length g.
Proof.
  induction g as [|cur g IH]; intros prev sel H; destruct sel as [|d sel];
    cbn [valid_sel] in H; try discriminate; cbn [length].
  - reflexivity.
  - apply andb_prop in H. destruct H as [_ H]. apply IH in H. lia.
Qed.

Lemma valid_sel_weaken p : forall g prev older sel,
  valid_sel p prev g sel = true -> valid_sel p (prev ++ older) g sel = true.
Proof.
  induction g as [|cur g IH]; intros prev older sel H; destruct sel as [|d sel];
    cbn [valid_sel] in *; try discriminate; try reflexivity.
  apply andb_prop in H. destruct H as [H1 H2]. apply andb_true_intro. split.
  - destruct (d =? 0) eqn:E0; cbn [orb] in *; [reflexivity|].
    apply andb_prop in H1. destruct H1 as [H1 H3].
    apply andb_prop in H1. destruct H1 as [H1 H4].
    rewrite H1. cbn [andb].
    assert (Hlt : (N.to_nat d - 1 < length prev)%nat).
    { unfold nlen in H4. lia. }
    rewrite nth_opt_app1 by exact Hlt. rewrite H3.
    unfold nlen in *. rewrite app_length.
    assert (d <=? N.of_nat (length prev + length older) = true) by lia.
    rewrite H. reflexivity.
  - change (cur :: prev ++ older) with ((cur :: prev) ++ older). apply IH. exact H2.
Qed.

Lemma valid_sel_app p : forall g1 s1 prev g2 s2,
  valid_sel p prev g1 s1 = true ->
  valid_sel p (rev g1 ++ prev) g2 s2 = true ->
  valid_sel p prev (g1 ++ g2) (s1 ++ s2) = true.
Proof.
  induction g1 as [|cur g1 IH]; intros s1 prev g2 s2 H1 H2; destruct s1 as [|d s1];
    cbn [valid_sel] in H1; try discriminate; cbn [app rev] in *.
  - exact H2.
  - cbn [valid_sel]. apply andb_prop in H1. destruct H1 as [Ha Hb].
    rewrite Ha. cbn [andb]. apply IH; [exact Hb|].
    rewrite <- app_assoc in H2. exact H2.
Qed.

Lemma valid_sel_zeros p : forall g prev, valid_sel p prev g (map (fun _ => 0) g) = true.
Proof.
  induction g as [|cur g IH]; intros prev; cbn [map valid_sel]; [reflexivity|].
  rewrite IH. reflexivity.
Qed.

Lemma depths_acc_zeros {A} (m : N) : forall (g : list A) prev,
  Forall (fun d => d <= m) (depths_acc prev (map (fun _ => 0) g)).
Proof.
  induction g as [|cur g IH]; intros prev; cbn [map depths_acc]; constructor.
  - cbn beta. rewrite N.eqb_refl. lia.
  - rewrite N.eqb_refl. apply IH.
Qed.
