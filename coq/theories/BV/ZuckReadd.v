(** Depth bound after [find_additional_refs]. *)
From WG Require Import Base.Prelude Codes.Codes BV.Model BV.RefSel BV.ZuckBase BV.ZuckValid.
From Coq Require Import ZifyBool ZifyN ZifyNat.
Local Open Scope N_scope.

(** * Initial chain lengths: roots have chain 0 *)

Lemma chain_lengths_keep : forall refs i acc j,
  ((j < i)%nat \/ get 0%N refs (j - i) = 0) ->
  get O (chain_lengths refs i acc) j = get O acc j.
Proof.
  induction refs as [|r refs IH]; intros i acc j H; cbn [chain_lengths]; [reflexivity|].
  rewrite IH.
  - destruct (r =? 0) eqn:Er; [reflexivity|].
    apply get_upd_other. intros ->. destruct H as [H|H]; [lia|].
    rewrite Nat.sub_diag, get_cons_O in H. lia.
  - destruct H as [H|H]; [left; lia|].
    destruct (Nat.lt_ge_cases j (S i)) as [Hj|Hj]; [left; exact Hj|right].
    replace (j - i)%nat with (S (j - S i)) in H by lia. rewrite get_cons_S in H. exact H.
Qed.

Lemma chain_lengths_length : forall refs i acc,
  length (chain_lengths refs i acc) = length acc.
Proof.
  induction refs as [|r refs IH]; intros i acc; cbn [chain_lengths]; [reflexivity|].
  rewrite IH. destruct (r =? 0); [reflexivity|apply upd_length].
Qed.

(** * Forward lengths *)

Section Fwd.
  Variable refs : list N.
  Hypothesis L : local refs.
  Variable B : nat.

  Lemma fwd_lengths_inv : forall i acc,
    (i <= length refs)%nat -> length acc = length refs ->
    (forall j, (depth refs j + get O acc j <= B)%nat) ->
    (forall c, (i <= c)%nat -> get 0%N refs c <> 0 ->
       (S (get O acc c) <= get O acc (c - N.to_nat (get 0%N refs c)))%nat) ->
    (forall j, (depth refs j + get O (fwd_lengths refs i acc) j <= B)%nat) /\
    (forall c, get 0%N refs c <> 0 ->
       (S (get O (fwd_lengths refs i acc) c)
        <= get O (fwd_lengths refs i acc) (c - N.to_nat (get 0%N refs c)))%nat).
  Proof.
    induction i as [|i IH]; intros acc Hi Hlen HQ HF; cbn [fwd_lengths].
    - split; [exact HQ|]. intros c Hc. apply HF; [lia|exact Hc].
    - destruct (get 0%N refs i =? 0) eqn:Er.
      + apply IH; try assumption; try lia.
        intros c Hc Hc0. destruct (Nat.eq_dec c i) as [->|Hne]; [lia|]. apply HF; [lia|exact Hc0].
      + pose proof (L i) as Li.
        set (par := (i - N.to_nat (get 0%N refs i))%nat) in *.
        assert (Hpar : (par < i)%nat) by lia.
        assert (Hdi : depth refs i = S (depth refs par)).
        { apply depth_child; [exact L|lia]. }
        apply IH.
        * lia.
        * rewrite upd_length. exact Hlen.
        * intros j. rewrite get_upd.
          destruct ((j =? par)%nat && (j <? length acc)%nat)%bool eqn:E; [|apply HQ].
          assert (j = par) by lia. subst j.
          pose proof (HQ par). pose proof (HQ i). lia.
        * intros c Hc Hc0. pose proof (L c) as Lc.
          assert (E1 : get O (upd acc par (Nat.max (get O acc par) (S (get O acc i)))) c
                       = get O acc c).
          { apply get_upd_other. lia. }
          rewrite E1. rewrite get_upd.
          destruct ((c - N.to_nat (get 0%N refs c) =? par)%nat &&
                    (c - N.to_nat (get 0%N refs c) <? length acc)%nat)%bool eqn:E.
          -- destruct (Nat.eq_dec c i) as [->|Hne]; [lia|].
             assert (Hpc : (c - N.to_nat (get 0%N refs c))%nat = par) by lia.
             assert (Hc' : (S i <= c)%nat) by lia.
             pose proof (HF c Hc' Hc0) as HFc. rewrite Hpc in HFc. lia.
          -- destruct (Nat.eq_dec c i) as [->|Hne].
             ++ fold par in E. lia.
             ++ apply HF; [lia|exact Hc0].
  Qed.
End Fwd.

(** * The re-adding loop *)

Lemma fix_chain_length i refs chain : length (fix_chain i refs chain) = length chain.
Proof. unfold fix_chain. destruct (get 0%N refs i =? 0); [reflexivity|apply upd_length]. Qed.

Lemma fix_chain_spec i refs chain : local refs -> (i < length chain)%nat ->
  (forall j, (j < i)%nat -> get O chain j = depth refs j) ->
  (get 0%N refs i = 0 -> get O chain i = O) ->
  (forall j, (j <= i)%nat -> get O (fix_chain i refs chain) j = depth refs j) /\
  (forall j, (i < j)%nat -> get O (fix_chain i refs chain) j = get O chain j).
Proof.
  intros L Hi Hc H0. unfold fix_chain.
  destruct (get 0%N refs i =? 0) eqn:Er.
  - split; [|reflexivity]. intros j Hj.
    destruct (Nat.eq_dec j i) as [->|Hne]; [|apply Hc; lia].
    rewrite H0 by lia. rewrite depth_root by lia. reflexivity.
  - pose proof (L i) as Li. split.
    + intros j Hj. destruct (Nat.eq_dec j i) as [->|Hne].
      * rewrite get_upd_same by exact Hi. rewrite Hc by lia.
        rewrite (depth_child refs i) by (try exact L; lia). reflexivity.
      * rewrite get_upd_other by exact Hne. apply Hc. lia.
    + intros j Hj. apply get_upd_other. lia.
Qed.

Section Readd.
  Variable m : N.
  Variable rows : list (list (option N)).
  Hypothesis rows_len : forall i, (length (get [] rows i) <= S i)%nat.
  Variable fwd : list nat.
  Let B := N.to_nat m.

  Lemma readd_loop_depth : forall n i chain refs,
    length chain = (i + n)%nat ->
    length refs = (i + n)%nat ->
    local refs ->
    (forall c, (i <= c)%nat -> get 0%N refs c <> 0 ->
       (S (get O fwd c) <= get O fwd (c - N.to_nat (get 0%N refs c)))%nat) ->
    (forall j, (depth refs j + get O fwd j <= B)%nat) ->
    (forall j, (j < i)%nat -> get O chain j = depth refs j) ->
    (forall j, (i <= j)%nat -> get 0%N refs j = 0 -> get O chain j = O) ->
    forall j, (depth (readd_loop m rows fwd i n chain refs) j <= B)%nat.
  Proof.
    induction n as [|n IH]; intros i chain refs Hlc Hlr L HF HQ HC HC0 j.
    - cbn [readd_loop]. pose proof (HQ j). lia.
    - rewrite readd_loop_S. cbv zeta.
      assert (Hi : (i < length chain)%nat) by lia.
      destruct (fix_chain_spec i refs chain L Hi HC (HC0 i (Nat.le_refl i))) as [C1a C1b].
      set (chain1 := fix_chain i refs chain) in *.
      assert (Hl1 : length chain1 = length chain) by apply fix_chain_length.
      destruct (readd_choice_spec m rows fwd i chain1 refs)
        as [Hd|[d' [Hd1 [Hd2 [Hd3 [Hd4 Hd5]]]]]].
      + (* reference kept *)
        rewrite Hd. rewrite upd_same.
        assert (Hi1 : (i < length chain1)%nat) by lia.
        assert (C1a' : forall q, (q < i)%nat -> get O chain1 q = depth refs q)
          by (intros q Hq; apply C1a; lia).
        assert (C10 : get 0%N refs i = 0 -> get O chain1 i = O).
        { intros E. rewrite C1a by lia. apply depth_root. exact E. }
        destruct (fix_chain_spec i refs chain1 L Hi1 C1a' C10) as [C2a C2b].
        apply IH; try assumption.
        * rewrite fix_chain_length. lia.
        * lia.
        * intros c Hc. apply HF. lia.
        * intros q Hq. apply C2a. lia.
        * intros q Hq Hq0. rewrite C2b by lia. rewrite C1b by lia. apply HC0; [lia|exact Hq0].
      + (* node i re-attached under i - d' *)
        rewrite Hd3. pose proof (rows_len i) as Hrl.
        assert (Hdi : (d' <= i)%nat) by lia.
        set (refs' := upd refs i (N.of_nat d')).
        assert (Gi : get 0%N refs' i = N.of_nat d') by (apply get_upd_same; lia).
        assert (Go : forall q, q <> i -> get 0%N refs' q = get 0%N refs q)
          by (intros q Hq; apply get_upd_other; exact Hq).
        assert (L' : local refs').
        { intros q. destruct (Nat.eq_dec q i) as [->|Hne].
          - rewrite Gi. lia.
          - rewrite Go by exact Hne. apply L. }
        assert (Dlt : forall q, (q < i)%nat -> depth refs' q = depth refs q).
        { intros q Hq. apply depth_ext. intros t Ht. apply Go. lia. }
        assert (Di : depth refs' i = S (depth refs (i - d'))).
        { rewrite depth_child by (try exact L'; lia). rewrite Gi, Nat2N.id.
          rewrite Dlt by lia. reflexivity. }
        assert (HQ' : forall q, (depth refs' q + get O fwd q <= B)%nat).
        { intros q. induction q as [q IHq] using lt_wf_ind.
          destruct (Nat.lt_trichotomy q i) as [Hq|[Hq|Hq]].
          - rewrite Dlt by exact Hq. apply HQ.
          - subst q. rewrite Di. rewrite <- C1a by lia. unfold B. lia.
          - destruct (N.eq_dec (get 0%N refs' q) 0) as [E|E].
            + rewrite depth_root by exact E.
              rewrite Go in E by lia. pose proof (HQ q) as HQq.
              rewrite (depth_root refs q E) in HQq. exact HQq.
            + rewrite depth_child by assumption.
              pose proof (L' q) as Lq.
              assert (Hp : (q - N.to_nat (get 0%N refs' q) < q)%nat) by lia.
              pose proof (IHq _ Hp) as IHp.
              rewrite Go in * by lia.
              assert (Hiq : (i <= q)%nat) by lia.
              pose proof (HF q Hiq E). lia. }
        assert (Hi1 : (i < length chain1)%nat) by lia.
        assert (C1a' : forall q, (q < i)%nat -> get O chain1 q = depth refs' q).
        { intros q Hq. rewrite Dlt by exact Hq. apply C1a. lia. }
        assert (C10 : get 0%N refs' i = 0 -> get O chain1 i = O) by (intros E; lia).
        destruct (fix_chain_spec i refs' chain1 L' Hi1 C1a' C10) as [C2a C2b].
        apply IH; try assumption.
        * rewrite fix_chain_length. lia.
        * unfold refs'. rewrite upd_length. lia.
        * intros c Hc Hc0. rewrite Go in * by lia. apply HF; [lia|exact Hc0].
        * intros q Hq. apply C2a. lia.
        * intros q Hq Hq0. rewrite C2b by lia. rewrite C1b by lia.
          rewrite Go in Hq0 by lia. apply HC0; [lia|exact Hq0].
  Qed.
End Readd.

Theorem find_additional_depth m rows refs :
  (forall i, (length (get [] rows i) <= S i)%nat) ->
  local refs ->
  (forall j, (depth refs j <= N.to_nat m)%nat) ->
  forall j, (depth (find_additional_refs m rows refs) j <= N.to_nat m)%nat.
Proof.
  intros Hrows L Hd. unfold find_additional_refs.
  set (n := length refs).
  destruct (fwd_lengths_inv refs L (N.to_nat m) n (repeat O n)) as [HQ HF].
  - lia.
  - apply repeat_length.
  - intros j. rewrite get_repeat. pose proof (Hd j). lia.
  - intros c Hc Hc0. rewrite get_overflow in Hc0 by exact Hc. lia.
  - apply readd_loop_depth; try assumption.
    + rewrite chain_lengths_length. apply repeat_length.
    + reflexivity.
    + intros c _. apply HF.
    + intros j Hj. lia.
    + intros j _ Hj0. rewrite chain_lengths_keep.
      * apply get_repeat.
      * right. rewrite Nat.sub_0_r. exact Hj0.
Qed.
