(** Proofs of the pinned statements about the greedy reference selector:
    [S_greedy_valid] and [S_greedy_depth].  The cost function is treated as opaque. *)
From WG Require Import Base.Prelude Codes.Codes BV.Model BV.RefSel BV.SelStatements.
From Coq Require Import ZifyBool ZifyN ZifyNat.
Local Open Scope N_scope.

(** * Small list facts *)

Lemma nth_opt_map {A B} (f : A -> B) : forall (l : list A) (k : nat),
  nth_opt (map f l) k = option_map f (nth_opt l k).
Proof.
  induction l as [|a l IH]; intros k.
  - destruct k; reflexivity.
  - destruct k as [|k]; cbn [map nth_opt option_map].
    + reflexivity.
    + apply IH.
Qed.

Lemma nth_opt_some_lt {A} : forall (l : list A) (k : nat) (a : A),
  nth_opt l k = Some a -> (k < length l)%nat.
Proof.
  induction l as [|b l IH]; intros k a H.
  - destruct k; discriminate H.
  - destruct k as [|k]; cbn [nth_opt length] in *.
    + lia.
    + apply IH in H. lia.
Qed.

(** * The candidate scan *)

(** What it means for [(d, c)] to be an adopted candidate of a scan that started at
    distance [delta] over [prev] and looked at [n] candidates. *)
Definition adopted (p : params) (delta : N) (n : nat) (prev : list (list N * N))
  (d c : N) : Prop :=
  delta <= d /\ d < delta + N.of_nat n /\
  exists rl cnt, nth_opt prev (N.to_nat (d - delta)) = Some (rl, cnt) /\
                 rl <> [] /\ exceeds (max_ref p) cnt = false /\ c = cnt + 1.

Lemma adopted_shift p delta n a prev d c :
  adopted p (delta + 1) n prev d c -> adopted p delta (S n) (a :: prev) d c.
Proof.
  intros (Hlo & Hhi & rl & cnt & Hnth & Hne & Hex & Hc).
  split; [lia|]. split; [lia|].
  exists rl, cnt. repeat split; try assumption.
  replace (N.to_nat (d - delta)) with (S (N.to_nat (d - (delta + 1)))) by lia.
  cbn [nth_opt]. exact Hnth.
Qed.

Lemma adopted_here p delta n rl cnt prev :
  rl <> [] -> exceeds (max_ref p) cnt = false ->
  adopted p delta (S n) ((rl, cnt) :: prev) delta (cnt + 1).
Proof.
  intros Hne Hex.
  split; [lia|]. split; [lia|].
  exists rl, cnt. repeat split; try assumption.
  replace (N.to_nat (delta - delta)) with O by lia.
  reflexivity.
Qed.

Lemma greedy_scan_spec p cs x cur : forall n prev delta mb0 d0 c0 mb d c,
  greedy_scan p cs x cur delta n prev (mb0, d0, c0) = (mb, d, c) ->
  (d = d0 /\ c = c0) \/ adopted p delta n prev d c.
Proof.
  induction n as [|n IH]; intros prev delta mb0 d0 c0 mb d c H.
  - cbn [greedy_scan] in H. inversion H. left. split; reflexivity.
  - destruct prev as [|[rl cnt] prev'].
    + cbn [greedy_scan] in H. inversion H. left. split; reflexivity.
    + cbn [greedy_scan] in H.
      destruct (exceeds (max_ref p) cnt) eqn:Hex.
      * apply IH in H. destruct H as [H|H]; [left; exact H|right].
        apply adopted_shift. exact H.
      * destruct rl as [|r rl'].
        -- apply IH in H. destruct H as [H|H]; [left; exact H|right].
           apply adopted_shift. exact H.
        -- remember (fields_len cs (node_fields p x cur delta (r :: rl'))) as bits
             eqn:Hbits. clear Hbits.
           destruct (bits <? mb0) eqn:Hlt.
           ++ apply IH in H. destruct H as [[Hd Hc]|H]; right.
              ** subst d c. apply adopted_here; [discriminate|exact Hex].
              ** apply adopted_shift. exact H.
           ++ apply IH in H. destruct H as [H|H]; [left; exact H|right].
              apply adopted_shift. exact H.
Qed.

(** * One choice *)

Definition good_choice (p : params) (prev : list (list N * N)) (d c : N) : Prop :=
  (d = 0 /\ c = 0) \/
  (1 <= d /\ d <= window p /\ d <= nlen prev /\
   exists rl cnt, nth_opt prev (N.to_nat d - 1) = Some (rl, cnt) /\
                  rl <> [] /\ exceeds (max_ref p) cnt = false /\ c = cnt + 1).

Lemma greedy_choose_spec p cs x cur prev d c :
  greedy_choose p cs x cur prev = (d, c) -> good_choice p prev d c.
Proof.
  unfold greedy_choose. intros H.
  destruct (window p =? 0) eqn:Hw.
  - inversion H. left. split; reflexivity.
  - remember (fields_len cs (node_fields p x cur 0 [])) as base eqn:Hbase. clear Hbase.
    cbv zeta in H.
    destruct (greedy_scan p cs x cur 1
                (Nat.min (N.to_nat (window p)) (length prev)) prev (base, 0, 0))
      as [[mb d'] c'] eqn:Hscan.
    inversion H; subst d' c'. clear H.
    apply greedy_scan_spec in Hscan.
    destruct Hscan as [[Hd Hc]|(Hlo & Hhi & rl & cnt & Hnth & Hne & Hex & Hc)].
    + left. split; assumption.
    + right. unfold nlen.
      split; [lia|]. split; [lia|]. split; [lia|].
      exists rl, cnt. repeat split; try assumption.
      replace (N.to_nat d - 1)%nat with (N.to_nat (d - 1)) by lia.
      exact Hnth.
Qed.

(** * Validity *)

Lemma greedy_sel_aux_valid p cs : forall g x prev,
  valid_sel p (map fst prev) g (greedy_sel_aux p cs x prev g) = true.
Proof.
  induction g as [|cur g IH]; intros x prev.
  - reflexivity.
  - cbn [greedy_sel_aux].
    destruct (greedy_choose p cs x cur prev) as [d c] eqn:Hch.
    cbn [valid_sel].
    apply andb_true_iff. split.
    + apply greedy_choose_spec in Hch.
      destruct Hch as [[Hd Hc]|(Hlo & Hw & Hlen & rl & cnt & Hnth & Hne & Hex & Hc)].
      * subst d. reflexivity.
      * apply orb_true_iff. right.
        rewrite nth_opt_map, Hnth. cbn [option_map fst].
        unfold nlen in *. rewrite map_length.
        destruct rl as [|r rl']; [contradiction Hne; reflexivity|].
        rewrite andb_true_r. apply andb_true_iff.
        split; apply N.leb_le; assumption.
    + exact (IH (x + 1) ((cur, c) :: prev)).
Qed.

Theorem greedy_valid : S_greedy_valid.
Proof.
  intros p cs start g. unfold greedy_sel.
  exact (greedy_sel_aux_valid p cs g start []).
Qed.

(** * Depth *)

Lemma greedy_sel_aux_depth p cs m : max_ref p = Some m ->
  forall g x prev,
  Forall (fun d => d <= m) (map snd prev) ->
  Forall (fun d => d <= m) (depths_acc (map snd prev) (greedy_sel_aux p cs x prev g)).
Proof.
  intros Hm.
  induction g as [|cur g IH]; intros x prev Hprev.
  - constructor.
  - cbn [greedy_sel_aux].
    destruct (greedy_choose p cs x cur prev) as [d c] eqn:Hch.
    cbn [depths_acc].
    apply greedy_choose_spec in Hch.
    assert (Hdep : (if d =? 0 then 0
                    else match nth_opt (map snd prev) (N.to_nat d - 1) with
                         | Some k => k + 1 | None => 0 end) = c /\ c <= m).
    { destruct Hch as [[Hd Hc]|(Hlo & Hw & Hlen & rl & cnt & Hnth & Hne & Hex & Hc)].
      - subst d c. split; [reflexivity|lia].
      - destruct (d =? 0) eqn:Hd0; [lia|].
        rewrite nth_opt_map, Hnth. cbn [option_map snd].
        split; [symmetry; exact Hc|].
        rewrite Hm in Hex. cbn [exceeds] in Hex. lia. }
    destruct Hdep as [Hdep Hle]. rewrite Hdep.
    constructor; [exact Hle|].
    apply (IH (x + 1) ((cur, c) :: prev)).
    cbn [map snd]. constructor; assumption.
Qed.

Theorem greedy_depth : S_greedy_depth.
Proof.
  intros p cs start g m Hm. unfold depths, greedy_sel.
  apply (greedy_sel_aux_depth p cs m Hm g start []).
  constructor.
Qed.

Print Assumptions greedy_valid.
Print Assumptions greedy_depth.
