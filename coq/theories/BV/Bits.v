(** Bit-level layer: fields are written with the code of their component; the reader over
    a bit list decodes with the same code.  Plus the structural well-formedness check of
    a parsed record (C02) and per-node bit lengths / offsets (C05).  Definitions only. *)
From WG Require Import Base.Prelude Codes.Codes BV.Model BV.RefSel.
Local Open Scope N_scope.

Definition rd_bits (le : bool) (cs : codes) (k : kind) (s : bits) : option (N * bits) :=
  dec le (kind_code cs k) s.

Definition enc_field (le : bool) (cs : codes) (f : field) : bits :=
  enc le (kind_code cs (fst f)) (snd f).

Definition enc_fields (le : bool) (cs : codes) (fs : list field) : bits :=
  flat_map (enc_field le cs) fs.

(** the graph bit stream: concatenation of the node records *)
Definition graph_bits (le : bool) (cs : codes) (recs : list (list field)) : bits :=
  flat_map (enc_fields le cs) recs.

(** bit length of each node record = the gaps of the offsets file (after the leading 0) *)
Definition node_bitlens (le : bool) (cs : codes) (recs : list (list field)) : list N :=
  map (fun fs => nlen (enc_fields le cs fs)) recs.

(** offsets = prefix sums, n+1 entries starting at 0 *)
Fixpoint prefix_sums (acc : N) (l : list N) : list N :=
  acc :: match l with [] => [] | x :: l' => prefix_sums (acc + x) l' end.

(** the offsets file: γ(0) then γ of each record length, big-endian *)
Definition offsets_bits (lens : list N) : bits :=
  flat_map (enc false Gamma) (0 :: lens).

(** Decode [n] γ-coded values *)
Fixpoint dec_gammas (n : nat) (s : bits) : option (list N * bits) :=
  match n with
  | O => Some ([], s)
  | S n' => '(v, s1) <- dec false Gamma s ;; '(vs, s2) <- dec_gammas n' s1 ;; Some (v :: vs, s2)
  end.

(** * Decoding that also returns the parsed records and the bit position of each record *)
Section Reader.
  Variable St : Type.
  Variable rd : kind -> St -> option (N * St).
  Variable pos : St -> N.   (* bits consumed so far (any monotone measure) *)

  Fixpoint decode_records (p : params) (n : nat) (x : N) (prev : list (list N)) (s : St)
    : option (list (record * list N * N) * St) :=
    match n with
    | O => Some ([], s)
    | S n' =>
      '(r, s1) <- parse_record St rd p x (win_lookup p prev) s ;;
      let l := record_succ r in
      '(rs, s2) <- decode_records p n' (x + 1) (l :: prev) s1 ;;
      Some ((r, l, pos s) :: rs, s2)
    end.
End Reader.

(** * Structural rules of a record (C02) *)
Definition wf_record (p : params) (x : N) (reflen : N) (r : record) : bool :=
  (r_ref r <=? window p) && (r_ref r <=? x)
  && (nsum (r_blocks r) <=? reflen)
  && forallb (fun b => 1 <=? b) (tl (r_blocks r))
  && forallb (fun '(_, len) => (min_len p <=? len)) (r_ints r)
  && incb (record_succ r)
  && (nlen (r_copied r) + nlen (expand_ints (r_ints r)) + nlen (r_res r) =? r_outdeg r).

(** check all records of a decoded graph; [prev] = lists most recent first *)
Fixpoint wf_records (p : params) (x : N) (prev : list (list N))
  (rs : list (record * list N)) : bool :=
  match rs with
  | [] => true
  | (r, l) :: rs' =>
    let reflen := if r_ref r =? 0 then 0
                  else match nth_opt prev (N.to_nat (r_ref r) - 1) with
                       | Some rl => nlen rl | None => 0 end in
    wf_record p x reflen r && wf_records p (x + 1) (l :: prev) rs'
  end.

(** Validity of reference distances with respect to chunk starts: [starts] lists, for each
    node, the first node of the chunk that encoded it. *)
Fixpoint refs_in_chunk (x : N) (sel starts : list N) : bool :=
  match sel, starts with
  | [], _ => true
  | d :: sel', st :: starts' => (d <=? x - st) && (st <=? x) && refs_in_chunk (x + 1) sel' starts'
  | _ :: _, [] => false
  end.

Definition max_depth_ok (m : option N) (sel : list N) : bool :=
  match m with
  | None => true
  | Some m => forallb (fun d => d <=? m) (depths sel)
  end.
