(** Bit-level round trip: the field-level theorem transported through the proved
    instantaneous codes, for every assignment of codes to components and both
    endiannesses. *)
From WG Require Import Base.Prelude Codes.Codes Codes.Statements Codes.CodesFacts
  BV.Model BV.RefSel BV.Statements BV.GraphFacts BV.Bits.
Local Open Scope N_scope.

Definition codes_ok (cs : codes) : bool :=
  code_ok (cd_outdeg cs) && code_ok (cd_ref cs) && code_ok (cd_block cs)
  && code_ok (cd_int cs) && code_ok (cd_res cs).

Lemma codes_ok_kind cs k : codes_ok cs = true -> code_ok (kind_code cs k) = true.
Proof.
  unfold codes_ok. intros H.
  repeat (apply andb_prop in H; destruct H as [H ?]).
  destruct k; cbn [kind_code]; assumption.
Qed.

Lemma reads_bits le cs fs rest :
  codes_ok cs = true ->
  Reads (rd_bits le cs) (enc_fields le cs fs ++ rest) fs rest.
Proof.
  intros Hok. induction fs as [|[k v] fs IH]; cbn [enc_fields flat_map app].
  - constructor.
  - econstructor.
    + unfold rd_bits, enc_field. cbn [fst snd]. rewrite <- app_assoc.
      apply code_roundtrip. apply codes_ok_kind. exact Hok.
    + exact IH.
Qed.

Lemma enc_fields_app le cs a b :
  enc_fields le cs (a ++ b) = enc_fields le cs a ++ enc_fields le cs b.
Proof. unfold enc_fields. apply flat_map_app. Qed.

Lemma graph_bits_concat le cs recs :
  graph_bits le cs recs = enc_fields le cs (concat recs).
Proof.
  induction recs as [|r recs IH]; cbn [graph_bits flat_map concat].
  - reflexivity.
  - rewrite enc_fields_app. f_equal. exact IH.
Qed.

Definition S_graph_roundtrip_bits : Prop :=
  forall le cs p g sel rest,
  codes_ok cs = true ->
  Forall inc g ->
  valid_sel p [] g sel = true ->
  decode_graph bits (rd_bits le cs) p (length g)
    (graph_bits le cs (encode_graph p 0 g sel) ++ rest) = Some (g, rest).

Theorem graph_roundtrip_bits : S_graph_roundtrip_bits.
Proof.
  intros le cs p g sel rest Hok Hg Hsel.
  eapply graph_roundtrip; eauto.
  rewrite graph_bits_concat. apply reads_bits. exact Hok.
Qed.

(** The record lengths that the offsets file stores add up to the stream length. *)
Lemma nsum_node_bitlens le cs recs :
  nsum (node_bitlens le cs recs) = nlen (graph_bits le cs recs).
Proof.
  induction recs as [|r recs IH].
  - reflexivity.
  - change (node_bitlens le cs (r :: recs))
      with (nlen (enc_fields le cs r) :: node_bitlens le cs recs).
    change (graph_bits le cs (r :: recs))
      with (enc_fields le cs r ++ graph_bits le cs recs).
    cbn [nsum]. rewrite IH. unfold nlen. rewrite app_length. lia.
Qed.

Print Assumptions graph_roundtrip_bits.
