(** Pinned statements about the index-level models of [MaskedIter] and [Succ]
    (BV/MaskedIter.v), part of C03.  Statements only. *)
From WG Require Import Base.Prelude Codes.Codes BV.Model BV.RefSel BV.Bits BV.BitsFacts
  BV.Access BV.AccessStatements BV.MaskedIter.
Local Open Scope N_scope.

(** The block lists on which [MaskedIter] works: they do not overrun the referenced list,
    every block after the first is at least 1 (what [BvGraph::labels] builds from any
    stream, provided the sum fits) and -- the part that only the *encoder* guarantees --
    when the number of blocks is even the implicit final copy block is not empty (the
    compressor never writes a last block that reaches the end of the referenced list). *)
Definition mi_ok (bs l : list N) : Prop :=
  nsum bs <= nlen l /\ Forall (fun b => 1 <= b) (tl bs) /\
  (Nat.even (length bs) = true -> nsum bs < nlen l).

(** On such a pair the state machine, drained, never fails, yields exactly the denotation
    [mask true bs l] used by the decoder model, and [len()] (read right after [new], as
    [labels] does) is the length of that list; with or without debug assertions. *)
Definition S_masked_iter_denotes : Prop :=
  forall dbg l bs, mi_ok bs l ->
  mi_collect dbg l bs = MOk (nlen (mask true bs l), mask true bs l).

(** The third condition cannot be dropped: with an even number of blocks whose sum is
    the whole (non-empty) referenced list -- a record that the sequential decoder accepts
    and that satisfies [wf_record] -- the masked iterator indexes [blocks] out of bounds
    after the last copied item, in every build. *)
Definition S_masked_iter_needs_tail : Prop :=
  exists l bs,
    l <> [] /\ nsum bs <= nlen l /\ Forall (fun b => 1 <= b) bs /\
    mask true bs l = firstn 2 l /\
    forall dbg, mi_collect dbg l bs = MErr EIndex.

(** The copy blocks that the compressor computes for any list against any non-empty
    referenced list are of that form ... *)
Definition S_diff_blocks_ok : Prop :=
  forall cur rl b e, rl <> [] -> diff_comp cur rl = (b, e) -> mi_ok b rl.

(** ... hence no step of the masked iterator fails on anything the compressor emits. *)
Definition S_masked_iter_total : Prop :=
  forall dbg cur rl b e, rl <> [] -> diff_comp cur rl = (b, e) ->
  mi_collect dbg rl b = MOk (nlen (mask true b rl), mask true b rl).

(** [Succ]: on a record whose copied stream is the masked referenced list, whose values
    are below the sentinel [usize::MAX - 1], whose intervals are not empty, whose
    residuals increase and whose outdegree is the total, building the state as [labels]
    does and calling [next] until [None] never fails and yields the list of the
    [merge3]-based model (no order hypothesis on the copied and interval streams is
    needed for that). *)
Definition S_succ_iter_denotes : Prop :=
  forall dbg rl r,
  (r_ref r <> 0 -> mi_ok (r_blocks r) rl) ->
  r_copied r = (if r_ref r =? 0 then [] else mask true (r_blocks r) rl) ->
  Forall (fun y => y < usize_max - 1) (r_copied r ++ expand_ints (r_ints r) ++ r_res r) ->
  Forall (fun i : N * N => 1 <= snd i) (r_ints r) ->
  inc (r_res r) ->
  r_outdeg r = nlen (r_copied r) + nlen (expand_ints (r_ints r)) + nlen (r_res r) ->
  succ_collect dbg rl r = MOk (record_succ_merge r).

(** End to end: on the bit stream the encoder model emits (hypotheses of the other C03
    statements, plus node identifiers below the sentinel), random access through the two
    state machines -- nested through the reference chain -- never fails and returns the
    list of the node. *)
Definition S_ra_sm_eq : Prop :=
  forall dbg le cs p g sel rest fuel x l,
  codes_ok cs = true -> Forall inc g -> valid_sel p [] g sel = true ->
  Forall (Forall (fun y => y < usize_max - 1)) g ->
  nth_opt g x = Some l -> (x < fuel)%nat ->
  ra_labels_sm bits (rd_bits le cs)
    (seek_bits (enc_offs le cs p g sel) (enc_stream le cs p g sel rest)) dbg p fuel (N.of_nat x)
  = Some l.
