(** Validity of the Zuckerli-style selection: every chosen distance is 0 or has a
    [Some] entry in the node's cost row. *)
From WG Require Import Base.Prelude Codes.Codes BV.Model BV.RefSel BV.ZuckBase.
From Coq Require Import ZifyBool ZifyN ZifyNat.
Local Open Scope N_scope.

(** a selection is admissible w.r.t. the cost rows *)
Definition sel_ok (rows : list (list (option N))) (refs : list N) : Prop :=
  forall i, get 0 refs i = 0 \/
            exists c, get None (get [] rows i) (N.to_nat (get 0 refs i)) = Some c.

Lemma sel_ok_sub rows refs refs' : sel_ok rows refs ->
  (forall j, get 0 refs' j = get 0 refs j \/ get 0 refs' j = 0) -> sel_ok rows refs'.
Proof.
  intros H S i. destruct (S i) as [E|E]; [|left; exact E].
  rewrite E. apply H.
Qed.

(** * Cost rows *)

Lemma cost_row_aux_spec p cs x cur : forall n prev delta k c,
  nth k (cost_row_aux p cs x cur delta n prev) None = Some c ->
  (k < n)%nat /\ (k < length prev)%nat /\ exists a l, nth_opt prev k = Some (a :: l).
Proof.
  induction n as [|n IH]; intros prev delta k c H; cbn [cost_row_aux] in H.
  - destruct k; discriminate.
  - destruct prev as [|rl prev].
    + destruct k; discriminate.
    + destruct k as [|k]; cbn [nth] in H.
      * destruct rl as [|a l]; [discriminate|].
        cbn [length nth_opt]. repeat split; try lia. eauto.
      * apply IH in H. destruct H as [H1 [H2 H3]].
        cbn [length nth_opt]. repeat split; try lia. exact H3.
Qed.

Lemma cost_row_aux_length p cs x cur : forall n prev delta,
  (length (cost_row_aux p cs x cur delta n prev) <= length prev)%nat.
Proof.
  induction n as [|n IH]; intros prev delta; cbn [cost_row_aux length]; [lia|].
  destruct prev as [|rl prev]; cbn [length]; [lia|].
  specialize (IH prev (delta + 1)). lia.
Qed.

Lemma chunk_rows_length p cs : forall g x prev,
  length (chunk_rows p cs x prev g) = length g.
Proof.
  induction g as [|cur g IH]; intros x prev; cbn [chunk_rows length]; [reflexivity|].
  rewrite IH. reflexivity.
Qed.

Lemma chunk_rows_len p cs : forall g x prev i,
  (length (get [] (chunk_rows p cs x prev g) i) <= S (length prev + i))%nat.
Proof.
  induction g as [|cur g IH]; intros x prev i; cbn [chunk_rows].
  - destruct i; cbn; lia.
  - destruct i as [|i].
    + rewrite get_cons_O. unfold cost_row. cbn [length].
      pose proof (cost_row_aux_length p cs x cur
        (Nat.min (N.to_nat (window p)) (length prev)) prev 1). lia.
    + rewrite get_cons_S. specialize (IH (x + 1) (cur :: prev) i).
      cbn [length] in IH. lia.
Qed.

Lemma valid_from_rows p cs : forall g prev x sel,
  length sel = length g ->
  sel_ok (chunk_rows p cs x prev g) sel ->
  valid_sel p prev g sel = true.
Proof.
  induction g as [|cur g IH]; intros prev x sel Hlen Hok; destruct sel as [|d sel];
    cbn [length] in Hlen; try discriminate; cbn [valid_sel]; [reflexivity|].
  apply andb_true_intro. split.
  - destruct (d =? 0) eqn:E0; cbn [orb]; [reflexivity|].
    destruct (Hok O) as [H|[c H]].
    + rewrite get_cons_O in H. lia.
    + cbn [chunk_rows] in H. rewrite !get_cons_O in H. unfold cost_row in H.
      destruct (N.to_nat d) as [|k] eqn:Ek; [lia|].
      rewrite get_cons_S in H. unfold get in H.
      apply cost_row_aux_spec in H. destruct H as [H1 [H2 [a [l H3]]]].
      replace (S k - 1)%nat with k by lia. rewrite H3.
      unfold nlen.
      assert (d <=? window p = true) by lia.
      assert (d <=? N.of_nat (length prev) = true) by lia.
      rewrite H, H0. reflexivity.
  - apply (IH (cur :: prev) (x + 1)); [lia|].
    intros i. specialize (Hok (S i)). cbn [chunk_rows] in Hok.
    rewrite !get_cons_S in Hok. exact Hok.
Qed.

(** * Unconstrained choice *)

Lemma row_best_spec : forall row delta best,
  snd (row_best row delta best) = snd best \/
  exists k, (k < length row)%nat /\ snd (row_best row delta best) = delta + N.of_nat k /\
            exists c, nth k row None = Some c.
Proof.
  induction row as [|c row IH]; intros delta best; cbn [row_best].
  - left. reflexivity.
  - match goal with |- context [row_best row (delta + 1) ?b] => set (best' := b) end.
    destruct (IH (delta + 1) best') as [H|[k [Hk [Hs Hc]]]].
    + rewrite H. subst best'. destruct c as [bits|]; [|left; reflexivity].
      destruct (bits <? fst best); [|left; reflexivity].
      right. exists O. cbn [length nth snd]. repeat split; try lia. eauto.
    + right. exists (S k). cbn [length nth]. repeat split; try lia. exact Hc.
Qed.

Lemma row_choice_ok row :
  fst (row_choice row) = 0 \/
  exists c, get None row (N.to_nat (fst (row_choice row))) = Some c.
Proof.
  unfold row_choice. destruct row as [|[c0|] row']; cbn [fst]; try (left; reflexivity).
  pose proof (row_best_spec row' 1 (c0, 0)) as H.
  destruct (row_best row' 1 (c0, 0)) as [mb d]. cbn [snd fst] in *.
  destruct H as [H|[k [Hk [Hs Hc]]]]; [left; exact H|].
  right. subst d. replace (N.to_nat (1 + N.of_nat k)) with (S k) by lia.
  rewrite get_cons_S. exact Hc.
Qed.

Lemma get_choice rows i :
  get 0 (map fst (map row_choice rows)) i = fst (row_choice (get [] rows i)).
Proof.
  rewrite map_map. unfold get.
  change 0 with ((fun r => fst (row_choice r)) []).
  rewrite map_nth. reflexivity.
Qed.

Lemma choice_sel_ok rows : sel_ok rows (map fst (map row_choice rows)).
Proof. intros i. rewrite get_choice. apply row_choice_ok. Qed.

(** * [dp_apply] only clears entries *)

Lemma dp_apply_sub table edges : forall n i avail refs,
  length (dp_apply table edges i n avail refs) = length refs /\
  forall j, get 0 (dp_apply table edges i n avail refs) j = get 0 refs j \/
            get 0 (dp_apply table edges i n avail refs) j = 0.
Proof.
  induction n as [|n IH]; intros i avail refs; cbn [dp_apply].
  - split; [reflexivity|]. intros j. left. reflexivity.
  - destruct (snd (get (0%Z, false) (get [] table i) (get O avail i))).
    + apply IH.
    + destruct (IH (S i) avail (upd refs i 0)) as [H1 H2]. split.
      * rewrite H1. apply upd_length.
      * intros j. destruct (H2 j) as [E|E]; [|right; exact E].
        rewrite E. rewrite get_upd.
        destruct ((j =? i)%nat && (j <? length refs)%nat)%bool; [right|left]; reflexivity.
Qed.

Lemma update_refs_sub m refs saved :
  length (update_refs_for_max_length m refs saved) = length refs /\
  forall j, get 0 (update_refs_for_max_length m refs saved) j = get 0 refs j \/
            get 0 (update_refs_for_max_length m refs saved) j = 0.
Proof. unfold update_refs_for_max_length. apply dp_apply_sub. Qed.

(** * [find_additional_refs] *)

Lemma readd_scan_spec m chain f i : forall row delta best,
  snd (readd_scan m chain f i row delta best) = snd best \/
  exists k, (k < length row)%nat /\
    snd (readd_scan m chain f i row delta best) = N.of_nat (delta + k) /\
    (get O chain (i - (delta + k)) + f + 1 <= N.to_nat m)%nat /\
    exists c, nth k row None = Some c.
Proof.
  induction row as [|c row IH]; intros delta best; cbn [readd_scan].
  - left. reflexivity.
  - match goal with |- context [readd_scan m chain f i row (S delta) ?b] => set (best' := b) end.
    destruct (IH (S delta) best') as [H|[k [Hk [Hs [Hch Hc]]]]].
    + rewrite H. subst best'.
      destruct (N.to_nat m <? get O chain (i - delta) + f + 1)%nat eqn:Echk;
        [left; reflexivity|].
      destruct c as [bits|]; [|left; reflexivity].
      destruct (bits <? fst best); [|left; reflexivity].
      right. exists O. cbn [length nth snd]. rewrite Nat.add_0_r.
      repeat split; try lia. eauto.
    + right. exists (S k). cbn [length nth].
      replace (delta + S k)%nat with (S delta + k)%nat by lia.
      repeat split; try lia. exact Hc.
Qed.

Definition fix_chain (i : nat) (refs : list N) (chain : list nat) : list nat :=
  let r := get 0 refs i in
  if r =? 0 then chain else upd chain i (S (get O chain (i - N.to_nat r))).

Definition readd_choice (m : N) (rows : list (list (option N))) (fwd : list nat) (i : nat)
  (chain1 : list nat) (refs : list N) : N :=
  let row := get [] rows i in
  snd (readd_scan m chain1 (get O fwd i) i (tl row) 1
         (match row with Some c :: _ => c | _ => 0 end, get 0 refs i)).

Lemma readd_loop_S m rows fwd i n chain refs :
  readd_loop m rows fwd i (S n) chain refs =
  let chain1 := fix_chain i refs chain in
  let d := readd_choice m rows fwd i chain1 refs in
  let refs' := upd refs i d in
  readd_loop m rows fwd (S i) n (fix_chain i refs' chain1) refs'.
Proof.
  cbn [readd_loop]. unfold readd_choice, fix_chain. cbv zeta.
  match goal with |- context [readd_scan ?a ?b ?c ?d ?e ?f ?g] =>
    destruct (readd_scan a b c d e f g) as [mb d0] end.
  reflexivity.
Qed.

(** the new choice at node [i]: the old one, or an accepted candidate *)
Lemma readd_choice_spec m rows fwd i chain1 refs :
  readd_choice m rows fwd i chain1 refs = get 0 refs i \/
  exists d', (1 <= d')%nat /\ (d' < length (get [] rows i))%nat /\
    readd_choice m rows fwd i chain1 refs = N.of_nat d' /\
    (get O chain1 (i - d') + get O fwd i + 1 <= N.to_nat m)%nat /\
    exists c, get None (get [] rows i) d' = Some c.
Proof.
  unfold readd_choice.
  match goal with |- context [readd_scan ?a ?b ?c ?d ?e ?f ?g] =>
    destruct (readd_scan_spec a b c d e f g) as [H|[k [Hk [Hs [Hch Hc]]]]] end.
  - left. exact H.
  - right. exists (1 + k)%nat.
    destruct (get [] rows i) as [|c0 row']; cbn [tl length] in *; [lia|].
    repeat split; try lia; try assumption.
Qed.

Lemma readd_loop_ok m rows fwd : forall n i chain refs,
  sel_ok rows refs ->
  length (readd_loop m rows fwd i n chain refs) = length refs /\
  sel_ok rows (readd_loop m rows fwd i n chain refs).
Proof.
  induction n as [|n IH]; intros i chain refs Hok.
  - cbn [readd_loop]. split; [reflexivity|exact Hok].
  - rewrite readd_loop_S. cbv zeta.
    set (chain1 := fix_chain i refs chain).
    set (d := readd_choice m rows fwd i chain1 refs).
    assert (Hok' : sel_ok rows (upd refs i d)).
    { intros j. rewrite get_upd.
      destruct ((j =? i)%nat && (j <? length refs)%nat)%bool eqn:E; [|apply Hok].
      assert (j = i) by lia. subst j.
      destruct (readd_choice_spec m rows fwd i chain1 refs) as [H|[d' [H1 [H2 [H3 [H4 H5]]]]]].
      - fold d in H. rewrite H. apply Hok.
      - fold d in H3. rewrite H3. right. rewrite Nat2N.id. exact H5. }
    destruct (IH (S i) (fix_chain i (upd refs i d) chain1) (upd refs i d) Hok') as [H1 H2].
    split; [|exact H2]. rewrite H1. apply upd_length.
Qed.

Lemma find_additional_ok m rows refs : sel_ok rows refs ->
  length (find_additional_refs m rows refs) = length refs /\
  sel_ok rows (find_additional_refs m rows refs).
Proof. intros H. unfold find_additional_refs. apply readd_loop_ok. exact H. Qed.

(** * One chunk *)

Lemma sel_ok_local p cs x g refs :
  sel_ok (chunk_rows p cs x [] g) refs -> local refs.
Proof.
  intros H i. destruct (H i) as [E|[c E]]; [rewrite E; lia|].
  pose proof (chunk_rows_len p cs g x [] i) as Hl. cbn [length] in Hl.
  destruct (Nat.lt_ge_cases (N.to_nat (get 0 refs i))
              (length (get [] (chunk_rows p cs x [] g) i))) as [Hlt|Hge]; [lia|].
  rewrite get_overflow in E by exact Hge. discriminate.
Qed.

Lemma zuck_chunk_ok p cs x g :
  window p =? 0 = false ->
  length (zuck_chunk_sel p cs x g) = length g /\
  sel_ok (chunk_rows p cs x [] g) (zuck_chunk_sel p cs x g).
Proof.
  intros W. unfold zuck_chunk_sel. rewrite W.
  set (rows := chunk_rows p cs x [] g).
  assert (H0 : sel_ok rows (map fst (map row_choice rows))) by apply choice_sel_ok.
  assert (L0 : length (map fst (map row_choice rows)) = length g).
  { rewrite !map_length. apply chunk_rows_length. }
  destruct (max_ref p) as [m|]; [|split; assumption].
  match goal with |- context [update_refs_for_max_length m ?r ?s] =>
    destruct (update_refs_sub m r s) as [L1 S1];
    set (refs1 := update_refs_for_max_length m r s) in * end.
  assert (H1 : sel_ok rows refs1) by (eapply sel_ok_sub; eassumption).
  destruct (find_additional_ok m rows refs1 H1) as [L2 H2].
  split; [|exact H2]. rewrite L2, L1. exact L0.
Qed.

Lemma zuck_chunk_valid p cs x g : valid_sel p [] g (zuck_chunk_sel p cs x g) = true.
Proof.
  destruct (window p =? 0) eqn:W.
  - unfold zuck_chunk_sel. rewrite W. apply valid_sel_zeros.
  - destruct (zuck_chunk_ok p cs x g W) as [L H].
    apply (valid_from_rows p cs g [] x); assumption.
Qed.

Lemma zuck_chunk_local p cs x g : local (zuck_chunk_sel p cs x g).
Proof.
  destruct (window p =? 0) eqn:W.
  - unfold zuck_chunk_sel. rewrite W. intros i.
    assert (E : get 0 (map (fun _ : list N => 0) g) i = 0).
    { unfold get. revert i. induction g as [|a g IH]; intros i; destruct i; cbn [map nth];
        try reflexivity. apply IH. }
    rewrite E. lia.
  - destruct (zuck_chunk_ok p cs x g W) as [L H].
    eapply sel_ok_local. exact H.
Qed.

(** * Whole graph *)

Lemma zuck_sel_aux_valid p cs k : (1 <= k)%nat -> forall f x g prev,
  (length g <= f)%nat ->
  valid_sel p prev g (zuck_sel_aux f p cs k x g) = true.
Proof.
  intros Hk. induction f as [|f IH]; intros x g prev Hf.
  - destruct g; cbn [length] in Hf; [reflexivity|lia].
  - cbn [zuck_sel_aux]. destruct g as [|a g']; [reflexivity|].
    set (g := a :: g') in *.
    rewrite <- (firstn_skipn k g) at 1.
    apply valid_sel_app.
    + apply (valid_sel_weaken p (firstn k g) [] prev). apply zuck_chunk_valid.
    + apply IH. rewrite skipn_length. subst g. cbn [length] in *. lia.
Qed.

Theorem zuck_sel_valid p cs k start g : valid_sel p [] g (zuck_sel p cs k start g) = true.
Proof. unfold zuck_sel. apply zuck_sel_aux_valid; lia. Qed.
