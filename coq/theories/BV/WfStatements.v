(** Pinned statement: every record the encoder emits respects the structural rules of the
    format (C02).  Statement only. *)
From WG Require Import Base.Prelude Codes.Codes BV.Model BV.RefSel BV.Bits BV.BitsFacts.
Local Open Scope N_scope.

(** For every strictly increasing graph, every valid reference selection, every code
    assignment and endianness: decoding the emitted bit stream with record tracking
    succeeds, and every parsed record is well formed ([wf_record]: reference within the
    window and not before node 0, blocks within the referenced list and only the first
    possibly zero, every interval at least [min_len] long, copied / interval / residual
    successors pairwise disjoint (strictly increasing after sorting) and exactly
    [outdegree] many). *)
Definition S_records_wf : Prop :=
  forall le cs p g sel rest (pos : bits -> N),
  codes_ok cs = true -> Forall inc g -> valid_sel p [] g sel = true ->
  exists rs,
    decode_records bits (rd_bits le cs) pos p (length g) 0 []
      (graph_bits le cs (encode_graph p 0 g sel) ++ rest) = Some (rs, rest)
    /\ wf_records p 0 [] (map fst rs) = true.
