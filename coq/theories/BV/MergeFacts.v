(** The lazy three-way merge of the random-access successor iterator ([Succ::next]) yields
    the sorted list of the sequential decoder, because the three streams it merges — the
    masked copy of the referenced list, the expanded intervals, the residuals — are each
    increasing for every record the decoder can parse (gaps are added, never subtracted). *)
From WG Require Import Base.Prelude Codes.Codes BV.Model BV.RefSel BV.Statements BV.CompFacts
  BV.NodeFacts BV.Bits BV.Access.
From Coq Require Import ZifyBool ZifyN ZifyNat.
Local Open Scope N_scope.

Definition sle : list N -> Prop := StronglySorted N.le.

Lemma inc_sle l : inc l -> sle l.
Proof. intros H. eapply StronglySorted_impl; [|exact H]. intros; lia. Qed.

Lemma ole_hd_Forall x l : sle l -> ole (Some x) (hd_opt l) = true -> Forall (N.le x) l.
Proof.
  intros Hs H. destruct l as [|y l]; [constructor|]. cbn [hd_opt ole] in H.
  apply StronglySorted_inv in Hs. destruct Hs as [_ Hy].
  constructor; [lia|]. eapply Forall_impl; [|exact Hy]. cbn beta. intros; lia.
Qed.

Lemma merge3_spec : forall fuel a b c,
  (length a + length b + length c <= fuel)%nat -> sle a -> sle b -> sle c ->
  Permutation (merge3 fuel a b c) (a ++ b ++ c) /\ sle (merge3 fuel a b c).
Proof.
  induction fuel as [|f IH]; intros a b c Hf Ha Hb Hc.
  - destruct a, b, c; cbn [length] in Hf; try lia. cbn. split; constructor.
  - cbn [merge3].
    destruct (ole (hd_opt a) (hd_opt b) && ole (hd_opt a) (hd_opt c)) eqn:E1.
    + apply andb_true_iff in E1. destruct E1 as [E1 E2].
      destruct a as [|x a']; [cbn in E1; discriminate|].
      cbn [hd_opt] in *.
      pose proof Ha as Ha0. apply StronglySorted_inv in Ha0. destruct Ha0 as [Ha' Hxa].
      destruct (IH a' b c) as [HP HS]; [cbn [length] in Hf; lia|assumption|assumption|assumption|].
      split.
      * cbn [app]. constructor. exact HP.
      * constructor; [exact HS|].
        eapply Permutation_Forall; [apply Permutation_sym; exact HP|].
        apply Forall_app; split; [exact Hxa|].
        apply Forall_app; split; apply ole_hd_Forall; assumption.
    + destruct (ole (hd_opt c) (hd_opt b)) eqn:E2.
      * destruct c as [|x c']; [cbn in E2; discriminate|]. cbn [hd_opt] in *.
        pose proof Hc as Hc0. apply StronglySorted_inv in Hc0. destruct Hc0 as [Hc' Hxc].
        destruct (IH a b c') as [HP HS]; [cbn [length] in Hf; lia|assumption|assumption|assumption|].
        split.
        -- rewrite app_assoc. apply Permutation_cons_app. rewrite <- app_assoc. exact HP.
        -- constructor; [exact HS|].
           eapply Permutation_Forall; [apply Permutation_sym; exact HP|].
           apply Forall_app; split;
             [|apply Forall_app; split; [apply ole_hd_Forall; assumption|exact Hxc]].
           destruct a as [|y a']; [constructor|].
           apply ole_hd_Forall; [assumption|]. cbn [hd_opt ole].
           cbn [hd_opt] in E1. apply andb_false_iff in E1. destruct E1 as [E1|E1].
           ++ destruct b as [|z b']; [cbn in E1; discriminate|]. cbn [hd_opt ole] in *. lia.
           ++ cbn [ole] in E1. lia.
      * destruct b as [|z b'].
        -- destruct c as [|x c']; [|cbn in E2; discriminate].
           destruct a as [|y a']; [|cbn in E1; discriminate].
           cbn. split; constructor.
        -- cbn [hd_opt] in *.
           pose proof Hb as Hb0. apply StronglySorted_inv in Hb0. destruct Hb0 as [Hb' Hzb].
           destruct (IH a b' c) as [HP HS]; [cbn [length] in Hf; lia|assumption|assumption|assumption|].
           split.
           ++ cbn [app]. apply Permutation_cons_app. exact HP.
           ++ constructor; [exact HS|].
              eapply Permutation_Forall; [apply Permutation_sym; exact HP|].
              assert (Hcz : Forall (N.le z) c).
              { destruct c as [|x c']; [constructor|]. apply ole_hd_Forall; [assumption|].
                cbn [hd_opt ole] in *. lia. }
              apply Forall_app; split; [|apply Forall_app; split; assumption].
              destruct a as [|y a']; [constructor|].
              apply ole_hd_Forall; [assumption|]. cbn [hd_opt ole] in *.
              apply andb_false_iff in E1. destruct E1 as [E1|E1]; [lia|].
              destruct c as [|x c']; [cbn in E1; discriminate|]. cbn [hd_opt ole] in *. lia.
Qed.

Lemma nsort_sle l : sle (nsort l).
Proof.
  unfold nsort, sle.
  eapply StronglySorted_impl; [|apply NSort.StronglySorted_sort].
  - cbn beta. intros x y H. apply N.leb_le. exact H.
  - intros x y z Hxy Hyz. unfold is_true in *.
    apply N.leb_le in Hxy. apply N.leb_le in Hyz. apply N.leb_le. lia.
Qed.

Lemma merge3_nsort a b c :
  sle a -> sle b -> sle c ->
  merge3 (length a + length b + length c) a b c = nsort (a ++ b ++ c).
Proof.
  intros Ha Hb Hc.
  destruct (merge3_spec _ a b c (Nat.le_refl _) Ha Hb Hc) as [HP HS].
  apply sorted_perm_eq; [exact HS|apply nsort_sle|].
  eapply Permutation_trans; [exact HP|]. apply NSort.Permuted_sort.
Qed.

(** * The three streams of a parsed record are increasing *)

Lemma subseq_app {A} (a1 l1 a2 l2 : list A) :
  subseq a1 l1 -> subseq a2 l2 -> subseq (a1 ++ a2) (l1 ++ l2).
Proof.
  intros H1 H2. induction H1 as [|a l x H IH|a l x H IH]; cbn [app].
  - exact H2.
  - apply subseq_skip. exact IH.
  - apply subseq_take. exact IH.
Qed.

Lemma subseq_firstn {A} n (l : list A) : subseq (firstn n l) (firstn n l).
Proof. apply subseq_refl. Qed.

Lemma mask_subseq {A} : forall bs c (l : list A), subseq (mask c bs l) l.
Proof.
  induction bs as [|b bs IH]; intros c l; cbn [mask].
  - destruct c; [apply subseq_refl|apply subseq_nil_l].
  - assert (HX : subseq (if c then firstn (N.to_nat b) l else []) (firstn (N.to_nat b) l))
      by (destruct c; [apply subseq_refl|apply subseq_nil_l]).
    pose proof (subseq_app _ _ _ _ HX (IH (negb c) (skipn (N.to_nat b) l))) as HH.
    rewrite firstn_skipn in HH. exact HH.
Qed.

Lemma inc_app a b :
  inc a -> inc b -> (forall x y, In x a -> In y b -> x < y) -> inc (a ++ b).
Proof.
  unfold inc. induction a as [|x a IH]; intros Ha Hb H; cbn [app]; [exact Hb|].
  apply StronglySorted_inv in Ha. destruct Ha as [Ha Hx].
  constructor.
  - apply IH; [exact Ha|exact Hb|]. intros u v Hu Hv. apply H; [right; exact Hu|exact Hv].
  - apply Forall_app. split; [exact Hx|].
    apply Forall_forall. intros y Hy. apply H; [left; reflexivity|exact Hy].
Qed.

Lemma nseq_bounds : forall n a, Forall (fun y => a <= y /\ y < a + N.of_nat n) (nseq a n).
Proof.
  induction n as [|n IH]; intros a; cbn [nseq]; constructor.
  - lia.
  - eapply Forall_impl; [|apply (IH (a + 1))]. cbn beta. intros; lia.
Qed.

Lemma inc_nseq : forall n a, inc (nseq a n).
Proof.
  unfold inc. induction n as [|n IH]; intros a; cbn [nseq]; constructor; [apply IH|].
  eapply Forall_impl; [|apply (nseq_bounds n (a + 1))]. cbn beta. intros; lia.
Qed.

Section Sorted.
  Variable St : Type.
  Variable rd : kind -> St -> option (N * St).

  Lemma read_ints_tail_inc L : forall n prev s is s',
    read_ints_tail St rd L prev n s = Some (is, s') ->
    inc (expand_ints is) /\ Forall (fun y => prev < y) (expand_ints is).
  Proof.
    induction n as [|n IH]; intros prev s is s' H; cbn [read_ints_tail] in H.
    - injection H as <- <-. split; constructor.
    - destruct (rd KIntStart s) as [[v s1]|]; cbn [obind] in H; [|discriminate].
      destruct (rd KIntLen s1) as [[w s2]|]; cbn [obind] in H; [|discriminate].
      destruct (read_ints_tail St rd L (prev + 1 + v + (w + L)) n s2) as [[is' s3]|] eqn:E;
        cbn [obind] in H; [|discriminate].
      injection H as <- <-. destruct (IH _ _ _ _ E) as [H1 H2].
      rewrite expand_ints_cons.
      pose proof (nseq_bounds (N.to_nat (w + L)) (prev + 1 + v)) as Hb.
      rewrite Forall_forall in Hb, H2.
      split.
      + apply inc_app; [apply inc_nseq|exact H1|].
        intros x y Hx Hy. specialize (Hb x Hx). specialize (H2 y Hy). lia.
      + apply Forall_app. split; apply Forall_forall; intros y Hy.
        * specialize (Hb y Hy). lia.
        * specialize (H2 y Hy). lia.
  Qed.

  Lemma read_ints_inc L x s is s' :
    read_ints St rd L x s = Some (is, s') -> inc (expand_ints is).
  Proof.
    unfold read_ints. intros H.
    destruct (rd KIntCount s) as [[ni s0]|]; cbn [obind] in H; [|discriminate].
    destruct (ni =? 0).
    - injection H as <- <-. constructor.
    - destruct (rd KIntStart s0) as [[v s1]|]; cbn [obind] in H; [|discriminate].
      destruct (rd KIntLen s1) as [[w s2]|]; cbn [obind] in H; [|discriminate].
      destruct (Z.of_N x + to_int v <? 0)%Z; [discriminate|].
      set (l := Z.to_N (Z.of_N x + to_int v)) in *.
      destruct (read_ints_tail St rd L (l + (w + L)) (N.to_nat ni - 1) s2) as [[is' s3]|] eqn:E;
        cbn [obind] in H; [|discriminate].
      injection H as <- <-. destruct (read_ints_tail_inc _ _ _ _ _ _ E) as [H1 H2].
      rewrite expand_ints_cons.
      pose proof (nseq_bounds (N.to_nat (w + L)) l) as Hb.
      rewrite Forall_forall in Hb, H2.
      apply inc_app; [apply inc_nseq|exact H1|].
      intros u y Hu Hy. specialize (Hb u Hu). specialize (H2 y Hy). lia.
  Qed.

  Lemma read_res_tail_inc : forall n prev s rs s',
    read_res_tail St rd prev n s = Some (rs, s') -> inc (prev :: rs).
  Proof.
    unfold inc. induction n as [|n IH]; intros prev s rs s' H; cbn [read_res_tail] in H.
    - injection H as <- <-. constructor; constructor.
    - destruct (rd KRes s) as [[v s1]|]; cbn [obind] in H; [|discriminate].
      destruct (read_res_tail St rd (prev + 1 + v) n s1) as [[rs' s2]|] eqn:E;
        cbn [obind] in H; [|discriminate].
      injection H as <- <-. specialize (IH _ _ _ _ E).
      constructor; [exact IH|].
      apply StronglySorted_inv in IH. destruct IH as [_ IH].
      constructor; [lia|]. eapply Forall_impl; [|exact IH]. cbn beta. intros; lia.
  Qed.

  Lemma read_res_inc x n s rs s' :
    read_res St rd x n s = Some (rs, s') -> inc rs.
  Proof.
    destruct n as [|n]; cbn [read_res]; intros H.
    - injection H as <- <-. constructor.
    - destruct (rd KFirstRes s) as [[v s1]|]; cbn [obind] in H; [|discriminate].
      destruct (Z.of_N x + to_int v <? 0)%Z; [discriminate|].
      destruct (read_res_tail St rd (Z.to_N (Z.of_N x + to_int v)) n s1) as [[rs' s2]|] eqn:E;
        cbn [obind] in H; [|discriminate].
      injection H as <- <-. eapply read_res_tail_inc, E.
  Qed.

  Lemma parse_tail_sorted p x deg d bs copied s2 r s' :
    parse_tail rd p x deg d bs copied s2 = Some (r, s') ->
    (r_copied r = copied /\ r_ref r = d) /\ inc (expand_ints (r_ints r)) /\ inc (r_res r).
  Proof.
    unfold parse_tail. intros H.
    destruct (deg <? nlen copied); [discriminate|]. cbv zeta in H.
    destruct ((deg - nlen copied =? 0) || (min_len p =? 0)).
    - cbn [obind] in H.
      destruct (deg - nlen copied <? nlen (expand_ints [])); [discriminate|].
      destruct (read_res St rd x _ s2) as [[rs s4]|] eqn:E; cbn [obind] in H; [|discriminate].
      injection H as <- <-. cbn [r_copied r_ref r_ints r_res].
      split; [split; reflexivity|]. split; [constructor|]. eapply read_res_inc, E.
    - destruct (read_ints St rd (min_len p) x s2) as [[is s3]|] eqn:E3;
        cbn [obind] in H; [|discriminate].
      destruct (deg - nlen copied <? nlen (expand_ints is)); [discriminate|].
      destruct (read_res St rd x _ s3) as [[rs s4]|] eqn:E; cbn [obind] in H; [|discriminate].
      injection H as <- <-. cbn [r_copied r_ref r_ints r_res].
      split; [split; reflexivity|]. split; [eapply read_ints_inc, E3|eapply read_res_inc, E].
  Qed.

  (** every record the decoder parses has three increasing streams, provided the
      referenced list (if any) is increasing *)
  Lemma parse_record_sorted p x lookup s r s' :
    parse_record St rd p x lookup s = Some (r, s') ->
    (forall l, r_ref r <> 0 -> lookup (r_ref r) = Some l -> inc l) ->
    inc (r_copied r) /\ inc (expand_ints (r_ints r)) /\ inc (r_res r).
  Proof.
    intros H Hl. unfold parse_record in H.
    destruct (rd KOutdeg s) as [[deg s0]|]; cbn [obind] in H; [|discriminate].
    destruct (deg =? 0).
    { injection H as <- <-. cbn. repeat split; constructor. }
    destruct (if window p =? 0 then Some (0, s0) else rd KRef s0) as [[d s1]|];
      cbn [obind] in H; [|discriminate].
    destruct (d =? 0) eqn:Ed.
    - cbn [obind] in H.
      change (parse_tail rd p x deg d [] [] s1 = Some (r, s')) in H.
      destruct (parse_tail_sorted _ _ _ _ _ _ _ _ _ H) as ((H1 & _) & H2 & H3).
      rewrite H1. repeat split; [constructor|assumption|assumption].
    - destruct (x <? d); [discriminate|].
      destruct (lookup d) as [rl|] eqn:El; cbn [obind] in H; [|discriminate].
      destruct (rd KBlockCount s1) as [[nb t1]|]; cbn [obind] in H; [|discriminate].
      destruct (read_n St rd KBlock (N.to_nat nb) t1) as [[raw t2]|]; cbn [obind] in H;
        [|discriminate].
      destruct (nlen rl <? nsum (unshift_blocks raw)); [discriminate|].
      cbn [obind] in H.
      change (parse_tail rd p x deg d (unshift_blocks raw)
                (mask true (unshift_blocks raw) rl) t2 = Some (r, s')) in H.
      destruct (parse_tail_sorted _ _ _ _ _ _ _ _ _ H) as ((H1 & Hr) & H2 & H3).
      rewrite H1. repeat split; [|assumption|assumption].
      eapply subseq_inc; [apply mask_subseq|].
      apply N.eqb_neq in Ed. apply (Hl rl); rewrite Hr; assumption.
  Qed.

  (** hence the lazy merge and the sort agree on it *)
  Lemma record_succ_merge_eq p x lookup s r s' :
    parse_record St rd p x lookup s = Some (r, s') ->
    (forall l, r_ref r <> 0 -> lookup (r_ref r) = Some l -> inc l) ->
    record_succ_merge r = record_succ r.
  Proof.
    intros H Hl. destruct (parse_record_sorted _ _ _ _ _ _ H Hl) as (H1 & H2 & H3).
    unfold record_succ_merge, record_succ.
    apply merge3_nsort; apply inc_sle; assumption.
  Qed.
End Sorted.
