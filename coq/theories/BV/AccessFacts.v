(** Proofs of the pinned statements of C03 (BV/AccessStatements.v). *)
From WG Require Import Base.Prelude Codes.Codes Codes.Statements Codes.CodesFacts
  BV.Model BV.RefSel BV.Statements BV.CompFacts BV.NodeFacts BV.GraphFacts BV.Bits
  BV.BitsFacts BV.OffsetsFacts BV.WfFacts BV.GreedyFacts BV.Access BV.MergeFacts
  BV.AccessStatements.
From Coq Require Import ZifyBool ZifyN ZifyNat.
Local Open Scope N_scope.

(** * Small list facts *)

Lemma nth_opt_In {A} : forall (l : list A) n a, nth_opt l n = Some a -> In a l.
Proof.
  induction l as [|b l IH]; intros n a H.
  - destruct n; discriminate H.
  - destruct n as [|n]; cbn [nth_opt] in H.
    + injection H as <-. left. reflexivity.
    + right. eapply IH, H.
Qed.

Lemma nth_opt_lt {A} : forall (l : list A) n, (n < length l)%nat -> exists a, nth_opt l n = Some a.
Proof.
  induction l as [|b l IH]; intros n H; cbn [length] in H; [lia|].
  destruct n as [|n]; cbn [nth_opt]; [eauto|]. apply IH. lia.
Qed.

Lemma nth_opt_none {A} : forall (l : list A) n, (length l <= n)%nat -> nth_opt l n = None.
Proof.
  induction l as [|b l IH]; intros n H; [destruct n; reflexivity|].
  cbn [length] in H. destruct n as [|n]; [lia|]. cbn [nth_opt]. apply IH. lia.
Qed.

Lemma nth_opt_app_l {A} : forall (l1 l2 : list A) n,
  (n < length l1)%nat -> nth_opt (l1 ++ l2) n = nth_opt l1 n.
Proof.
  induction l1 as [|b l1 IH]; intros l2 n H; cbn [length] in H; [lia|].
  destruct n as [|n]; cbn [app nth_opt]; [reflexivity|]. apply IH. lia.
Qed.

Lemma nth_opt_app_r {A} : forall (l1 l2 : list A) n,
  nth_opt (l1 ++ l2) (length l1 + n) = nth_opt l2 n.
Proof.
  induction l1 as [|b l1 IH]; intros l2 n; [reflexivity|].
  cbn [length app Nat.add nth_opt]. apply IH.
Qed.

Lemma nth_opt_rev {A} : forall (l : list A) k,
  (k < length l)%nat -> nth_opt (rev l) k = nth_opt l (length l - 1 - k).
Proof.
  induction l as [|a l IH]; intros k H; cbn [length] in H; [lia|].
  cbn [rev length].
  destruct (Nat.eq_dec k (length l)) as [E|E].
  - subst k. replace (length l) with (length (rev l) + 0)%nat at 1
      by (rewrite rev_length; lia).
    rewrite nth_opt_app_r. replace (S (length l) - 1 - length l)%nat with O by lia.
    reflexivity.
  - rewrite nth_opt_app_l by (rewrite rev_length; lia).
    rewrite IH by lia.
    replace (S (length l) - 1 - k)%nat with (S (length l - 1 - k)) by lia.
    reflexivity.
Qed.

Lemma nth_opt_firstn {A} : forall (l : list A) i j,
  (j < i)%nat -> nth_opt (firstn i l) j = nth_opt l j.
Proof.
  induction l as [|a l IH]; intros i j H.
  - rewrite firstn_nil. reflexivity.
  - destruct i as [|i]; [lia|]. cbn [firstn].
    destruct j as [|j]; cbn [nth_opt]; [reflexivity|]. apply IH. lia.
Qed.

Lemma nth_opt_skipn {A} : forall (l : list A) k j, nth_opt (skipn k l) j = nth_opt l (k + j).
Proof.
  induction l as [|a l IH]; intros k j.
  - rewrite skipn_nil. destruct j, k; reflexivity.
  - destruct k as [|k]; [reflexivity|]. cbn [skipn Nat.add nth_opt]. apply IH.
Qed.

Lemma skipn_nth_opt {A} : forall (l : list A) k a,
  nth_opt l k = Some a -> skipn k l = a :: skipn (S k) l.
Proof.
  induction l as [|b l IH]; intros k a H.
  - destruct k; discriminate H.
  - destruct k as [|k]; cbn [nth_opt] in H.
    + injection H as <-. reflexivity.
    + cbn [skipn]. rewrite (IH k a H). reflexivity.
Qed.

Lemma nth_opt_combine {A B} : forall (l : list A) (l' : list B) k a b,
  nth_opt l k = Some a -> nth_opt l' k = Some b -> nth_opt (combine l l') k = Some (a, b).
Proof.
  induction l as [|x l IH]; intros l' k a b Ha Hb; [destruct k; discriminate|].
  destruct l' as [|y l']; [destruct k; discriminate|].
  destruct k as [|k]; cbn [combine nth_opt] in *.
  - injection Ha as ->. injection Hb as ->. reflexivity.
  - apply IH; assumption.
Qed.

(** element [k - 1 - j] of [g] seen from the most-recent-first list of the first [k] *)
Lemma nth_opt_rev_firstn {A} (g : list A) k j :
  (k <= length g)%nat -> (j < k)%nat ->
  nth_opt (rev (firstn k g)) j = nth_opt g (k - 1 - j).
Proof.
  intros Hk Hj.
  assert (Hl : length (firstn k g) = k) by (apply firstn_length_le; exact Hk).
  rewrite nth_opt_rev by lia. rewrite Hl. apply nth_opt_firstn. lia.
Qed.

(** * Slots of a ring *)

Lemma set_nth_length {A} : forall (l : list A) i v, length (set_nth l i v) = length l.
Proof.
  induction l as [|a l IH]; intros i v; [reflexivity|].
  destruct i as [|i]; cbn [set_nth length]; [reflexivity|]. rewrite IH. reflexivity.
Qed.

Lemma nth_opt_set_nth_eq {A} : forall (l : list A) i v,
  (i < length l)%nat -> nth_opt (set_nth l i v) i = Some v.
Proof.
  induction l as [|a l IH]; intros i v H; cbn [length] in H; [lia|].
  destruct i as [|i]; cbn [set_nth nth_opt]; [reflexivity|]. apply IH. lia.
Qed.

Lemma nth_opt_set_nth_neq {A} : forall (l : list A) i j v,
  i <> j -> nth_opt (set_nth l i v) j = nth_opt l j.
Proof.
  induction l as [|a l IH]; intros i j v H; [reflexivity|].
  destruct i as [|i], j as [|j]; cbn [set_nth nth_opt]; try reflexivity; [lia|].
  apply IH. lia.
Qed.

Lemma mod_shift_neq a e m : 0 < e -> e < m -> (a + e) mod m <> a mod m.
Proof.
  intros H1 H2 H.
  pose proof (N.div_mod a m ltac:(lia)) as Ha.
  pose proof (N.div_mod (a + e) m ltac:(lia)) as Hb.
  rewrite H in Hb.
  set (q1 := a / m) in *. set (q2 := (a + e) / m) in *. set (r := a mod m) in *.
  assert (Hq : q2 <= q1 \/ q1 + 1 <= q2) by lia.
  destruct Hq as [Hq|Hq]; nia.
Qed.

(** * What [mask] keeps, counted *)

Lemma mask_count_spec {A} : forall bs c (l : list A),
  nsum bs <= nlen l -> nlen (mask c bs l) = mask_count c bs (nlen l).
Proof.
  induction bs as [|b bs IH]; intros c l H; cbn [mask mask_count].
  - destruct c; [reflexivity|apply nlen_nil].
  - cbn [nsum] in H.
    assert (Hs : nlen (skipn (N.to_nat b) l) = nlen l - b).
    { unfold nlen in *. rewrite skipn_length. lia. }
    rewrite nlen_app, IH by (rewrite Hs; lia). rewrite Hs. f_equal.
    destruct c; [|apply nlen_nil].
    unfold nlen in *. rewrite firstn_length. lia.
Qed.

Lemma nlen_nseq a n : nlen (nseq a n) = N.of_nat n.
Proof. unfold nlen. rewrite nseq_length. reflexivity. Qed.

(** * Skipping a record consumes what parsing it consumes *)

Section Skip.
  Variable St : Type.
  Variable rd : kind -> St -> option (N * St).

  Lemma read_ints_tail_skip L : forall n prev s is s',
    read_ints_tail St rd L prev n s = Some (is, s') ->
    skip_ints_tail St rd L n s = Some (nlen (expand_ints is), s').
  Proof.
    induction n as [|n IH]; intros prev s is s' H; cbn [read_ints_tail skip_ints_tail] in *.
    - injection H as <- <-. reflexivity.
    - destruct (rd KIntStart s) as [[v s1]|]; cbn [obind] in *; [|discriminate].
      destruct (rd KIntLen s1) as [[w s2]|]; cbn [obind] in *; [|discriminate].
      destruct (read_ints_tail St rd L (prev + 1 + v + (w + L)) n s2) as [[is' s3]|] eqn:E;
        cbn [obind] in *; [|discriminate].
      injection H as <- <-.
      rewrite (IH _ _ _ _ E). cbn [obind].
      rewrite expand_ints_cons, nlen_app, nlen_nseq. f_equal. f_equal. lia.
  Qed.

  Lemma read_ints_skip L x s is s' :
    read_ints St rd L x s = Some (is, s') ->
    skip_ints St rd L s = Some (nlen (expand_ints is), s').
  Proof.
    unfold read_ints, skip_ints. intros H.
    destruct (rd KIntCount s) as [[ni s0]|]; cbn [obind] in *; [|discriminate].
    destruct (ni =? 0).
    - injection H as <- <-. reflexivity.
    - destruct (rd KIntStart s0) as [[v s1]|]; cbn [obind] in *; [|discriminate].
      destruct (rd KIntLen s1) as [[w s2]|]; cbn [obind] in *; [|discriminate].
      destruct (Z.of_N x + to_int v <? 0)%Z; [discriminate|].
      destruct (read_ints_tail St rd L (Z.to_N (Z.of_N x + to_int v) + (w + L))
                  (N.to_nat ni - 1) s2) as [[is' s3]|] eqn:E; cbn [obind] in *; [|discriminate].
      injection H as <- <-.
      rewrite (read_ints_tail_skip _ _ _ _ _ _ E). cbn [obind].
      rewrite expand_ints_cons, nlen_app, nlen_nseq. f_equal. f_equal. lia.
  Qed.

  Lemma read_res_tail_skip : forall n prev s rs s',
    read_res_tail St rd prev n s = Some (rs, s') ->
    skip_n St rd KRes n s = Some s' /\ length rs = n.
  Proof.
    induction n as [|n IH]; intros prev s rs s' H; cbn [read_res_tail skip_n] in *.
    - injection H as <- <-. split; reflexivity.
    - destruct (rd KRes s) as [[v s1]|]; cbn [obind] in *; [|discriminate].
      destruct (read_res_tail St rd (prev + 1 + v) n s1) as [[rs' s2]|] eqn:E;
        cbn [obind] in *; [|discriminate].
      injection H as <- <-. destruct (IH _ _ _ _ E) as [H1 H2].
      split; [exact H1|cbn [length]; lia].
  Qed.

  Lemma read_res_skip x n s rs s' :
    read_res St rd x n s = Some (rs, s') ->
    skip_res St rd n s = Some s' /\ length rs = n.
  Proof.
    destruct n as [|n]; cbn [read_res skip_res]; intros H.
    - injection H as <- <-. split; reflexivity.
    - destruct (rd KFirstRes s) as [[v s1]|]; cbn [obind] in *; [|discriminate].
      destruct (Z.of_N x + to_int v <? 0)%Z; [discriminate|].
      destruct (read_res_tail St rd (Z.to_N (Z.of_N x + to_int v)) n s1) as [[rs' s2]|] eqn:E;
        cbn [obind] in *; [|discriminate].
      injection H as <- <-. destruct (read_res_tail_skip _ _ _ _ _ E) as [H1 H2].
      split; [exact H1|cbn [length]; lia].
  Qed.

  (** the common tail of [parse_record] and [skip_record] *)
  Lemma parse_tail_skip p x deg d bs copied s2 r s' :
    parse_tail rd p x deg d bs copied s2 = Some (r, s') ->
    (if deg <? nlen copied then None
     else
       let left := deg - nlen copied in
       '(ni, s3) <-
         (if (left =? 0) || (min_len p =? 0) then Some (0, s2)
          else skip_ints St rd (min_len p) s2) ;;
       if left <? ni then None
       else s4 <- skip_res St rd (N.to_nat (left - ni)) s3 ;; Some (deg, s4))
    = Some (deg, s')
    /\ r_outdeg r = deg
    /\ nlen (r_copied r) + nlen (expand_ints (r_ints r)) + nlen (r_res r) = deg.
  Proof.
    unfold parse_tail. intros H.
    destruct (deg <? nlen copied) eqn:E1; [discriminate|]. apply N.ltb_ge in E1.
    cbv zeta in *.
    set (left := deg - nlen copied) in *.
    destruct ((left =? 0) || (min_len p =? 0)) eqn:E2.
    - cbn [obind] in *. cbn [expand_ints flat_map] in H.
      change (nlen (@nil N)) with 0 in H.
      destruct (left <? 0) eqn:E3; [apply N.ltb_lt in E3; lia|].
      rewrite N.sub_0_r in *.
      destruct (read_res St rd x (N.to_nat left) s2) as [[rs s4]|] eqn:E4;
        cbn [obind] in *; [|discriminate].
      injection H as <- <-. destruct (read_res_skip _ _ _ _ _ E4) as [H1 H2].
      rewrite H1. cbn [obind r_outdeg r_copied r_ints r_res expand_ints flat_map].
      repeat split. change (nlen (@nil N)) with 0. unfold nlen in *. lia.
    - destruct (read_ints St rd (min_len p) x s2) as [[is s3]|] eqn:E3;
        cbn [obind] in *; [|discriminate].
      rewrite (read_ints_skip _ _ _ _ _ E3). cbn [obind].
      destruct (left <? nlen (expand_ints is)) eqn:E5; [discriminate|]. apply N.ltb_ge in E5.
      destruct (read_res St rd x (N.to_nat (left - nlen (expand_ints is))) s3)
        as [[rs s4]|] eqn:E4; cbn [obind] in *; [|discriminate].
      injection H as <- <-. destruct (read_res_skip _ _ _ _ _ E4) as [H1 H2].
      rewrite H1. cbn [obind r_outdeg r_copied r_ints r_res].
      repeat split. unfold nlen in *. lia.
  Qed.

  (** [OffsetDegIter::next_degree] ends where the decoder ends and returns the outdegree,
      which is the number of successors. *)
  Lemma parse_skip p x lookup dl s r s' :
    parse_record St rd p x lookup s = Some (r, s') ->
    (forall d l, lookup d = Some l -> dl d = Some (nlen l)) ->
    skip_record St rd p x dl s = Some (r_outdeg r, s')
    /\ nlen (record_succ r) = r_outdeg r.
  Proof.
    intros H Hdl.
    assert (Hsucc : forall r0, nlen (record_succ r0)
              = nlen (r_copied r0) + nlen (expand_ints (r_ints r0)) + nlen (r_res r0)).
    { intros r0. unfold record_succ, nsort.
      rewrite <- (nlen_perm _ _ (NSort.Permuted_sort _)).
      rewrite !nlen_app. lia. }
    unfold parse_record in H. unfold skip_record.
    destruct (rd KOutdeg s) as [[deg s0]|]; cbn [obind] in *; [|discriminate].
    destruct (deg =? 0) eqn:E0.
    { injection H as <- <-. split; [reflexivity|]. rewrite Hsucc. reflexivity. }
    destruct (if window p =? 0 then Some (0, s0) else rd KRef s0) as [[d s1]|];
      cbn [obind] in *; [|discriminate].
    destruct (d =? 0) eqn:Ed.
    - cbn [obind] in *.
      change (if deg <? nlen (@nil N) then None else
              let left := deg - nlen (@nil N) in
              '(is, s3) <- (if (left =? 0) || (min_len p =? 0) then Some ([], s1)
                            else read_ints St rd (min_len p) x s1) ;;
              let ni := nlen (expand_ints is) in
              if left <? ni then None
              else '(rs, s4) <- read_res St rd x (N.to_nat (left - ni)) s3 ;;
                   Some (mkRecord deg d [] [] is rs, s4))
        with (parse_tail rd p x deg d [] [] s1) in H.
      destruct (parse_tail_skip _ _ _ _ _ _ _ _ _ H) as (H1 & H2 & H3).
      change (nlen (@nil N)) with 0 in H1.
      split; [rewrite H2; exact H1|]. rewrite Hsucc, H2. exact H3.
    - destruct (x <? d); [discriminate|].
      destruct (lookup d) as [rl|] eqn:El; cbn [obind] in *; [|discriminate].
      rewrite (Hdl _ _ El). cbn [obind].
      destruct (rd KBlockCount s1) as [[nb t1]|]; cbn [obind] in *; [|discriminate].
      destruct (read_n St rd KBlock (N.to_nat nb) t1) as [[raw t2]|]; cbn [obind] in *;
        [|discriminate].
      destruct (nlen rl <? nsum (unshift_blocks raw)) eqn:Eb; [discriminate|].
      apply N.ltb_ge in Eb. cbn [obind] in *.
      change (if deg <? nlen (mask true (unshift_blocks raw) rl) then None else
              let left := deg - nlen (mask true (unshift_blocks raw) rl) in
              '(is, s3) <- (if (left =? 0) || (min_len p =? 0) then Some ([], t2)
                            else read_ints St rd (min_len p) x t2) ;;
              let ni := nlen (expand_ints is) in
              if left <? ni then None
              else '(rs, s4) <- read_res St rd x (N.to_nat (left - ni)) s3 ;;
                   Some (mkRecord deg d (unshift_blocks raw)
                           (mask true (unshift_blocks raw) rl) is rs, s4))
        with (parse_tail rd p x deg d (unshift_blocks raw)
                (mask true (unshift_blocks raw) rl) t2) in H.
      destruct (parse_tail_skip _ _ _ _ _ _ _ _ _ H) as (H1 & H2 & H3).
      rewrite (mask_count_spec _ _ _ Eb) in H1.
      split; [rewrite H2; exact H1|]. rewrite Hsucc, H2. exact H3.
  Qed.
End Skip.

(** * Reference-chain depths, by node *)

Lemma depths_acc_spec : forall sel prev i d,
  nth_opt sel i = Some d ->
  nth_opt (depths_acc prev sel) i
  = Some (if d =? 0 then 0
          else match nth_opt (rev (firstn i (depths_acc prev sel)) ++ prev) (N.to_nat d - 1) with
               | Some k => k + 1 | None => 0 end).
Proof.
  induction sel as [|d0 sel IH]; intros prev i d H.
  - destruct i; discriminate H.
  - cbn [depths_acc]. destruct i as [|i]; cbn [nth_opt] in *.
    + injection H as <-. cbn [firstn rev app]. reflexivity.
    + rewrite (IH _ _ _ H). cbn [firstn rev]. rewrite <- app_assoc. reflexivity.
Qed.

Lemma depths_acc_length : forall sel prev, length (depths_acc prev sel) = length sel.
Proof.
  induction sel as [|d sel IH]; intros prev; cbn [depths_acc length]; [reflexivity|].
  rewrite IH. reflexivity.
Qed.

(** the depth of a node with a reference is one more than the depth of the referenced node *)
Lemma depths_step sel x d dep :
  nth_opt sel x = Some d -> nth_opt (depths sel) x = Some dep ->
  d <> 0 -> (N.to_nat d <= x)%nat ->
  exists dep', nth_opt (depths sel) (x - N.to_nat d) = Some dep' /\ dep = dep' + 1.
Proof.
  unfold depths. intros Hs Hd Hnz Hle.
  rewrite (depths_acc_spec _ _ _ _ Hs) in Hd.
  destruct (d =? 0) eqn:E; [apply N.eqb_eq in E; contradiction|].
  rewrite app_nil_r in Hd.
  assert (Hx : (x < length (depths_acc [] sel))%nat).
  { rewrite depths_acc_length. eapply nth_opt_some_lt, Hs. }
  rewrite nth_opt_rev_firstn in Hd by lia.
  replace (x - 1 - (N.to_nat d - 1))%nat with (x - N.to_nat d)%nat in Hd by lia.
  destruct (nth_opt_lt (depths_acc [] sel) (x - N.to_nat d)) as [k Hk]; [lia|].
  rewrite Hk in Hd. injection Hd as <-. exists k. split; [exact Hk|reflexivity].
Qed.

(** * The access paths over a stream seen node by node *)

(** The hypotheses say what a stream with offsets is, abstractly: [st x] is the reader state
    at the record of node [x] ([st (length g)] = the end), [seek] reaches it, its position is
    the table entry, and reading at [st x] the fields that the compressor writes for node
    [x] (reference distance [d] within the window, pointing at node [x - d]) leads to
    [st (x + 1)].  The section is instantiated below with the encoder's bit stream. *)
Section View.
  Variable St : Type.
  Variable rd : kind -> St -> option (N * St).
  Variable seek : N -> option St.
  Variable pos : St -> N.
  Variable p : params.
  Variable g : list (list N).
  Variable sel : list N.
  Variable offs : list N.
  Variable st : nat -> St.

  Hypothesis Hinc : Forall inc g.
  Hypothesis Hseek : forall x, (x <= length g)%nat -> seek (N.of_nat x) = Some (st x).
  Hypothesis Hpos : forall x, (x <= length g)%nat -> nth_opt offs x = Some (pos (st x)).
  Hypothesis Hview : forall x cur, nth_opt g x = Some cur ->
    exists d rl, nth_opt sel x = Some d /\
      Reads rd (st x) (node_fields p (N.of_nat x) cur d rl) (st (S x)) /\
      d <= window p /\
      (d <> 0 -> (N.to_nat d <= x)%nat /\ nth_opt g (x - N.to_nat d) = Some rl).

  Definition lookup_ok (x : nat) (lookup : N -> option (list N)) : Prop :=
    forall d rl, nth_opt sel x = Some d -> d <> 0 -> (N.to_nat d <= x)%nat ->
                 nth_opt g (x - N.to_nat d) = Some rl -> lookup d = Some rl.

  Lemma view_parse x cur lookup :
    nth_opt g x = Some cur -> lookup_ok x lookup ->
    exists r, parse_record St rd p (N.of_nat x) lookup (st x) = Some (r, st (S x))
              /\ record_succ r = cur
              /\ (r_ref r = 0 \/ nth_opt sel x = Some (r_ref r)).
  Proof.
    intros Hx Hl. destruct (Hview x cur Hx) as (d & rl & Hs & Hr & Hw & Hd).
    assert (Hc : inc cur).
    { rewrite Forall_forall in Hinc. apply Hinc. eapply nth_opt_In, Hx. }
    destruct (parse_record_wf St rd p (N.of_nat x) cur d rl lookup (st x) (st (S x)) Hc Hw)
      as (r & Hp & Hsucc & Href & _); [|exact Hr|].
    - intros Hnz. destruct (Hd Hnz) as [H1 H2]. split; [lia|]. apply (Hl d rl Hs Hnz H1 H2).
    - exists r. split; [exact Hp|]. split; [exact Hsucc|].
      destruct Href as [E|E]; [left; exact E|right; rewrite E; exact Hs].
  Qed.

  Lemma view_decode_node x cur lookup :
    nth_opt g x = Some cur -> lookup_ok x lookup ->
    decode_node St rd p (N.of_nat x) lookup (st x) = Some (cur, st (S x)).
  Proof.
    intros Hx Hl. destruct (view_parse x cur lookup Hx Hl) as (r & Hp & Hs & _).
    unfold decode_node. rewrite Hp. cbn [obind]. rewrite Hs. reflexivity.
  Qed.

  (** ** random access *)
  Lemma view_ra : forall fuel x cur,
    nth_opt g x = Some cur -> (x < fuel)%nat ->
    ra_labels St rd seek p fuel (N.of_nat x) = Some cur.
  Proof.
    induction fuel as [|f IH]; intros x cur Hx Hf; [lia|].
    cbn [ra_labels].
    rewrite Hseek by (apply nth_opt_some_lt in Hx; lia). cbn [obind].
    rewrite (view_decode_node x cur); [reflexivity|exact Hx|].
    intros d rl Hs Hnz Hle Hrl.
    replace (N.of_nat x - d) with (N.of_nat (x - N.to_nat d)) by lia.
    apply IH; [exact Hrl|lia].
  Qed.

  Lemma view_ra_depth : forall fuel x cur dep,
    nth_opt g x = Some cur -> nth_opt (depths sel) x = Some dep -> (N.to_nat dep < fuel)%nat ->
    ra_labels St rd seek p fuel (N.of_nat x) = Some cur.
  Proof.
    induction fuel as [|f IH]; intros x cur dep Hx Hdep Hf; [lia|].
    cbn [ra_labels].
    rewrite Hseek by (apply nth_opt_some_lt in Hx; lia). cbn [obind].
    rewrite (view_decode_node x cur); [reflexivity|exact Hx|].
    intros d rl Hs Hnz Hle Hrl.
    replace (N.of_nat x - d) with (N.of_nat (x - N.to_nat d)) by lia.
    destruct (depths_step sel x d dep Hs Hdep Hnz Hle) as (dep' & Hd' & E).
    eapply IH; [exact Hrl|exact Hd'|lia].
  Qed.

  (** ** random access collecting by the lazy three-way merge *)
  Lemma view_ra_merge : forall fuel x cur,
    nth_opt g x = Some cur -> (x < fuel)%nat ->
    ra_labels_merge St rd seek p fuel (N.of_nat x) = Some cur.
  Proof.
    induction fuel as [|f IH]; intros x cur Hx Hf; [lia|].
    cbn [ra_labels_merge].
    rewrite Hseek by (apply nth_opt_some_lt in Hx; lia). cbn [obind].
    assert (Hl : lookup_ok x (fun d => ra_labels_merge St rd seek p f (N.of_nat x - d))).
    { intros d rl Hs Hnz Hle Hrl.
      replace (N.of_nat x - d) with (N.of_nat (x - N.to_nat d)) by lia.
      apply IH; [exact Hrl|lia]. }
    destruct (view_parse x cur _ Hx Hl) as (r & Hp & Hs & Href).
    rewrite Hp. cbn [obind]. f_equal. rewrite <- Hs.
    eapply record_succ_merge_eq; [exact Hp|].
    intros l Hnz Hlk.
    destruct Href as [E|E]; [contradiction|].
    destruct (Hview x cur Hx) as (d & rl & Hs' & _ & _ & Hd).
    rewrite E in Hs'. injection Hs' as <-.
    destruct (Hd Hnz) as [H1 H2].
    pose proof (Hl _ rl E Hnz H1 H2) as Hq. cbn beta in Hq, Hlk.
    rewrite Hq in Hlk. injection Hlk as <-.
    rewrite Forall_forall in Hinc. apply Hinc. eapply nth_opt_In, H2.
  Qed.

  (** ** outdegree *)
  Lemma view_outdegree x cur :
    nth_opt g x = Some cur -> ra_outdegree St rd seek (N.of_nat x) = Some (nlen cur).
  Proof.
    intros Hx. destruct (Hview x cur Hx) as (d & rl & _ & Hr & _ & _).
    unfold node_fields, write_node in Hr.
    apply Reads_cons_inv in Hr. destruct Hr as (s1 & Hr & _).
    unfold ra_outdegree.
    rewrite Hseek by (apply nth_opt_some_lt in Hx; lia). cbn [obind].
    rewrite Hr. reflexivity.
  Qed.

  (** ** sequential decoding from any node, given the lists of the window *)
  Definition prev_ok (k : nat) (prev : list (list N)) : Prop :=
    forall d, 1 <= d -> d <= window p -> (N.to_nat d <= k)%nat ->
              nth_opt prev (N.to_nat d - 1) = nth_opt g (k - N.to_nat d).

  Lemma prev_ok_cons k cur prev :
    nth_opt g k = Some cur -> prev_ok k prev -> prev_ok (S k) (cur :: prev).
  Proof.
    intros Hk Hp d H1 Hw Hle.
    destruct (N.eq_dec d 1) as [E|E].
    - subst d. change (N.to_nat 1) with 1%nat. cbn [Nat.sub nth_opt].
      rewrite Nat.sub_0_r. symmetry. exact Hk.
    - replace (N.to_nat d - 1)%nat with (S (N.to_nat (d - 1) - 1)) by lia.
      cbn [nth_opt]. rewrite (Hp (d - 1)) by lia. f_equal. lia.
  Qed.

  Lemma view_decode_nodes : forall m k prev,
    (k + m <= length g)%nat -> prev_ok k prev ->
    decode_nodes St rd p m (N.of_nat k) prev (st k)
    = Some (firstn m (skipn k g), st (k + m)).
  Proof.
    induction m as [|m IH]; intros k prev Hkm Hp.
    - cbn [decode_nodes firstn]. rewrite Nat.add_0_r. reflexivity.
    - destruct (nth_opt_lt g k) as [cur Hk]; [lia|].
      cbn [decode_nodes].
      rewrite (view_decode_node k cur).
      + cbn [obind].
        replace (N.of_nat k + 1) with (N.of_nat (S k)) by lia.
        rewrite (IH (S k) (cur :: prev)); [|lia|apply prev_ok_cons; assumption].
        cbn [obind]. rewrite (skipn_nth_opt g k cur Hk). cbn [firstn].
        replace (S k + m)%nat with (k + S m)%nat by lia. reflexivity.
      + exact Hk.
      + intros d rl Hs Hnz Hle Hrl.
        destruct (Hview k cur Hk) as (d' & rl' & Hs' & _ & Hw & _).
        rewrite Hs in Hs'. injection Hs' as <-.
        unfold win_lookup.
        destruct (d =? 0) eqn:E0; [apply N.eqb_eq in E0; contradiction|].
        destruct (window p <? d) eqn:E1; [apply N.ltb_lt in E1; lia|].
        cbn [orb]. rewrite (Hp d) by lia. exact Hrl.
  Qed.

  (** the pre-fill loop of [iter_from] produces such lists *)
  Lemma view_prefill rafuel k : forall fuel d,
    (k <= length g)%nat -> (k <= rafuel)%nat -> 1 <= d ->
    (k + 1 - N.to_nat d < fuel)%nat ->
    exists prev, prefill St rd seek p rafuel fuel d (N.of_nat k) = Some prev /\
      forall e, d <= e -> e <= window p -> (N.to_nat e <= k)%nat ->
                nth_opt prev (N.to_nat e - N.to_nat d) = nth_opt g (k - N.to_nat e).
  Proof.
    induction fuel as [|f IH]; intros d Hk Hra Hd Hf; [lia|].
    cbn [prefill].
    destruct ((window p <? d) || (N.of_nat k <? d)) eqn:E.
    - exists []. split; [reflexivity|]. intros e H1 H2 H3.
      apply orb_true_iff in E. destruct E as [E|E]; apply N.ltb_lt in E; lia.
    - apply orb_false_iff in E. destruct E as [E1 E2].
      apply N.ltb_ge in E1. apply N.ltb_ge in E2.
      destruct (nth_opt_lt g (k - N.to_nat d)) as [l Hl]; [lia|].
      replace (N.of_nat k - d) with (N.of_nat (k - N.to_nat d)) by lia.
      rewrite (view_ra rafuel _ l Hl) by lia. cbn [obind].
      destruct (IH (d + 1)) as (prev & Hp & Hn); [lia|lia|lia|lia|].
      rewrite Hp. cbn [obind]. exists (l :: prev). split; [reflexivity|].
      intros e H1 H2 H3. destruct (N.eq_dec e d) as [->|Hne].
      + rewrite Nat.sub_diag. cbn [nth_opt]. symmetry. exact Hl.
      + replace (N.to_nat e - N.to_nat d)%nat with (S (N.to_nat e - N.to_nat (d + 1))) by lia.
        cbn [nth_opt]. apply Hn; lia.
  Qed.

  Lemma view_iter_from fuel k :
    (k <= length g)%nat -> (length g < fuel)%nat ->
    iter_from St rd seek p fuel (length g) (N.of_nat k) = Some (skipn k g).
  Proof.
    intros Hk Hf. unfold iter_from.
    rewrite Hseek by exact Hk. cbn [obind].
    destruct (view_prefill fuel k fuel 1) as (prev & Hp & Hn); [lia|lia|lia|
      change (N.to_nat 1) with 1%nat; lia|].
    rewrite Hp. cbn [obind]. rewrite Nat2N.id.
    rewrite (view_decode_nodes (length g - k) k prev); [|lia|].
    - cbn [obind]. rewrite firstn_all2; [reflexivity|]. rewrite skipn_length. lia.
    - intros d H1 H2 H3. change (N.to_nat 1) with 1%nat in Hn. apply Hn; assumption.
  Qed.

  (** ** the degrees-and-offsets scan *)
  Definition deglookup_ok (x : nat) (dl : N -> option N) : Prop :=
    forall d rl, nth_opt sel x = Some d -> d <> 0 -> (N.to_nat d <= x)%nat ->
                 nth_opt g (x - N.to_nat d) = Some rl -> dl d = Some (nlen rl).

  Lemma view_skip_record x cur dl :
    nth_opt g x = Some cur -> deglookup_ok x dl ->
    skip_record St rd p (N.of_nat x) dl (st x) = Some (nlen cur, st (S x)).
  Proof.
    intros Hx Hdl.
    set (lookup := fun d' : N =>
      match nth_opt sel x with
      | Some d => if d' =? d then
                    if (d =? 0) || (Nat.ltb x (N.to_nat d)) then None
                    else nth_opt g (x - N.to_nat d)
                  else None
      | None => None
      end).
    assert (Hl : lookup_ok x lookup).
    { intros d rl Hs Hnz Hle Hrl. unfold lookup. rewrite Hs, N.eqb_refl.
      destruct (d =? 0) eqn:E0; [apply N.eqb_eq in E0; contradiction|].
      destruct (Nat.ltb x (N.to_nat d)) eqn:E1; [apply Nat.ltb_lt in E1; lia|].
      exact Hrl. }
    destruct (view_parse x cur lookup Hx Hl) as (r & Hp & Hs & _).
    destruct (parse_skip St rd p (N.of_nat x) lookup dl (st x) r (st (S x)) Hp) as [H1 H2].
    - intros d' l. unfold lookup.
      destruct (nth_opt sel x) as [d|] eqn:Es; [|discriminate].
      destruct (d' =? d) eqn:E; [|discriminate]. apply N.eqb_eq in E. subst d'.
      destruct (d =? 0) eqn:E0; [discriminate|]. apply N.eqb_neq in E0.
      destruct (Nat.ltb x (N.to_nat d)) eqn:E1; [discriminate|]. apply Nat.ltb_ge in E1.
      cbn [orb]. intros Hg. apply (Hdl d l Es E0 E1 Hg).
    - rewrite H1. rewrite <- H2, Hs. reflexivity.
  Qed.

  Definition scan_spec : list (N * N) := combine (firstn (length g) offs) (map nlen g).

  Lemma scan_spec_nth k cur :
    nth_opt g k = Some cur -> nth_opt scan_spec k = Some (pos (st k), nlen cur).
  Proof.
    intros Hk. pose proof (nth_opt_some_lt _ _ _ Hk) as Hlt.
    assert (Ho : nth_opt (firstn (length g) offs) k = Some (pos (st k))).
    { rewrite nth_opt_firstn by lia. apply Hpos. lia. }
    assert (Hd : nth_opt (map nlen g) k = Some (nlen cur)).
    { rewrite nth_opt_map, Hk. reflexivity. }
    unfold scan_spec. apply nth_opt_combine; assumption.
  Qed.

  Definition prevdeg_ok (k : nat) (prev : list N) : Prop :=
    forall d, 1 <= d -> d <= window p -> (N.to_nat d <= k)%nat ->
              nth_opt prev (N.to_nat d - 1) = option_map nlen (nth_opt g (k - N.to_nat d)).

  Lemma prevdeg_ok_cons k cur prev :
    nth_opt g k = Some cur -> prevdeg_ok k prev -> prevdeg_ok (S k) (nlen cur :: prev).
  Proof.
    intros Hk Hp d H1 Hw Hle.
    destruct (N.eq_dec d 1) as [E|E].
    - subst d. change (N.to_nat 1) with 1%nat. cbn [Nat.sub nth_opt].
      rewrite Nat.sub_0_r, Hk. reflexivity.
    - replace (N.to_nat d - 1)%nat with (S (N.to_nat (d - 1) - 1)) by lia.
      cbn [nth_opt]. rewrite (Hp (d - 1)) by lia. do 2 f_equal. lia.
  Qed.

  Lemma view_offdeg_nodes : forall m k prev,
    (k + m <= length g)%nat -> prevdeg_ok k prev ->
    offdeg_nodes St rd pos p m (N.of_nat k) prev (st k)
    = Some (firstn m (skipn k scan_spec), st (k + m)).
  Proof.
    induction m as [|m IH]; intros k prev Hkm Hp.
    - cbn [offdeg_nodes firstn]. rewrite Nat.add_0_r. reflexivity.
    - destruct (nth_opt_lt g k) as [cur Hk]; [lia|].
      cbn [offdeg_nodes].
      rewrite (view_skip_record k cur).
      + cbn [obind].
        replace (N.of_nat k + 1) with (N.of_nat (S k)) by lia.
        rewrite (IH (S k) (nlen cur :: prev)); [|lia|apply prevdeg_ok_cons; assumption].
        cbn [obind]. rewrite (skipn_nth_opt scan_spec k _ (scan_spec_nth k cur Hk)).
        cbn [firstn].
        replace (S k + m)%nat with (k + S m)%nat by lia. reflexivity.
      + exact Hk.
      + intros d rl Hs Hnz Hle Hrl.
        destruct (Hview k cur Hk) as (d' & rl' & Hs' & _ & Hw & _).
        rewrite Hs in Hs'. injection Hs' as <-.
        unfold win_lookup_deg.
        destruct (d =? 0) eqn:E0; [apply N.eqb_eq in E0; contradiction|].
        destruct (window p <? d) eqn:E1; [apply N.ltb_lt in E1; lia|].
        cbn [orb]. rewrite (Hp d) by lia. rewrite Hrl. reflexivity.
  Qed.

  Lemma scan_spec_length : length scan_spec = length g.
  Proof.
    unfold scan_spec. rewrite combine_length, map_length.
    destruct (nth_opt offs (length g)) eqn:E.
    - apply nth_opt_some_lt in E. rewrite firstn_length. lia.
    - rewrite Hpos in E by lia. discriminate.
  Qed.

  Lemma view_offdeg :
    offdeg St rd pos p (length g) (st 0) = Some scan_spec.
  Proof.
    unfold offdeg.
    change (offdeg_nodes St rd pos p (length g) 0 [] (st 0))
      with (offdeg_nodes St rd pos p (length g) (N.of_nat 0) [] (st 0)).
    rewrite (view_offdeg_nodes (length g) 0 []); [|lia|].
    - cbn [obind skipn]. rewrite firstn_all2; [reflexivity|]. rewrite scan_spec_length. lia.
    - intros d H1 H2 H3. lia.
  Qed.

  Lemma view_prefill_deg k : forall fuel d,
    (k <= length g)%nat -> 1 <= d ->
    (k + 1 - N.to_nat d < fuel)%nat ->
    exists prev, prefill_deg St rd seek p fuel d (N.of_nat k) = Some prev /\
      forall e, d <= e -> e <= window p -> (N.to_nat e <= k)%nat ->
                nth_opt prev (N.to_nat e - N.to_nat d)
                = option_map nlen (nth_opt g (k - N.to_nat e)).
  Proof.
    induction fuel as [|f IH]; intros d Hk Hd Hf; [lia|].
    cbn [prefill_deg].
    destruct ((window p <? d) || (N.of_nat k <? d)) eqn:E.
    - exists []. split; [reflexivity|]. intros e H1 H2 H3.
      apply orb_true_iff in E. destruct E as [E|E]; apply N.ltb_lt in E; lia.
    - apply orb_false_iff in E. destruct E as [E1 E2].
      apply N.ltb_ge in E1. apply N.ltb_ge in E2.
      destruct (nth_opt_lt g (k - N.to_nat d)) as [l Hl]; [lia|].
      replace (N.of_nat k - d) with (N.of_nat (k - N.to_nat d)) by lia.
      rewrite (view_outdegree _ l Hl). cbn [obind].
      destruct (IH (d + 1)) as (prev & Hp & Hn); [lia|lia|lia|].
      rewrite Hp. cbn [obind]. exists (nlen l :: prev). split; [reflexivity|].
      intros e H1 H2 H3. destruct (N.eq_dec e d) as [->|Hne].
      + rewrite Nat.sub_diag. cbn [nth_opt]. rewrite Hl. reflexivity.
      + replace (N.to_nat e - N.to_nat d)%nat with (S (N.to_nat e - N.to_nat (d + 1))) by lia.
        cbn [nth_opt]. apply Hn; lia.
  Qed.

  Lemma view_offdeg_from fuel k :
    (k <= length g)%nat -> (length g < fuel)%nat ->
    offdeg_from St rd seek pos p fuel (length g) (N.of_nat k) = Some (skipn k scan_spec).
  Proof.
    intros Hk Hf. unfold offdeg_from.
    destruct (view_prefill_deg k fuel 1) as (prev & Hp & Hn); [lia|lia|
      change (N.to_nat 1) with 1%nat; lia|].
    rewrite Hp. cbn [obind].
    rewrite Hseek by exact Hk. cbn [obind]. rewrite Nat2N.id.
    rewrite (view_offdeg_nodes (length g - k) k prev); [|lia|].
    - cbn [obind]. rewrite firstn_all2; [reflexivity|].
      rewrite skipn_length, scan_spec_length. lia.
    - intros d H1 H2 H3. change (N.to_nat 1) with 1%nat in Hn. apply Hn; assumption.
  Qed.

  (** ** the ring buffer of [window + 1] slots *)
  Definition ring_ok (k : nat) (ring : list (list N)) : Prop :=
    length ring = S (N.to_nat (window p)) /\
    forall d, 1 <= d -> d <= window p -> (N.to_nat d <= k)%nat ->
      nth_opt ring (ring_slot p (N.of_nat k - d)) = nth_opt g (k - N.to_nat d).

  Lemma ring_slot_lt x (ring : list (list N)) :
    length ring = S (N.to_nat (window p)) -> (ring_slot p x < length ring)%nat.
  Proof.
    intros ->. unfold ring_slot.
    pose proof (N.mod_lt x (window p + 1) ltac:(lia)). lia.
  Qed.

  Lemma ring_slot_neq a e :
    0 < e -> e <= window p -> ring_slot p (a + e) <> ring_slot p a.
  Proof.
    intros H1 H2 H. unfold ring_slot in H.
    apply (mod_shift_neq a e (window p + 1)); lia.
  Qed.

  Lemma ring_ok_step k cur ring :
    nth_opt g k = Some cur -> ring_ok k ring ->
    ring_ok (S k) (set_nth ring (ring_slot p (N.of_nat k)) cur).
  Proof.
    intros Hk [Hl Hr]. split; [rewrite set_nth_length; exact Hl|].
    intros d H1 Hw Hle.
    destruct (N.eq_dec d 1) as [E|E].
    - subst d. replace (N.of_nat (S k) - 1) with (N.of_nat k) by lia.
      rewrite nth_opt_set_nth_eq by (apply ring_slot_lt; exact Hl).
      change (N.to_nat 1) with 1%nat. cbn [Nat.sub]. rewrite Nat.sub_0_r. symmetry. exact Hk.
    - replace (N.of_nat (S k) - d) with (N.of_nat k - (d - 1)) by lia.
      rewrite nth_opt_set_nth_neq.
      + rewrite (Hr (d - 1)) by lia. f_equal. lia.
      + replace (N.of_nat k) with (N.of_nat k - (d - 1) + (d - 1)) at 1 by lia.
        apply ring_slot_neq; lia.
  Qed.

  Lemma view_ring_decode_nodes : forall m k ring,
    (k + m <= length g)%nat -> ring_ok k ring ->
    ring_decode_nodes St rd p m (N.of_nat k) ring (st k)
    = Some (firstn m (skipn k g), st (k + m)).
  Proof.
    induction m as [|m IH]; intros k ring Hkm Hp.
    - cbn [ring_decode_nodes firstn]. rewrite Nat.add_0_r. reflexivity.
    - destruct (nth_opt_lt g k) as [cur Hk]; [lia|].
      cbn [ring_decode_nodes].
      rewrite (view_decode_node k cur).
      + cbn [obind].
        replace (N.of_nat k + 1) with (N.of_nat (S k)) by lia.
        rewrite (IH (S k)); [|lia|apply ring_ok_step; assumption].
        cbn [obind]. rewrite (skipn_nth_opt g k cur Hk). cbn [firstn].
        replace (S k + m)%nat with (k + S m)%nat by lia. reflexivity.
      + exact Hk.
      + intros d rl Hs Hnz Hle Hrl.
        destruct (Hview k cur Hk) as (d' & rl' & Hs' & _ & Hw & _).
        rewrite Hs in Hs'. injection Hs' as <-.
        unfold ring_lookup.
        destruct (d =? 0) eqn:E0; [apply N.eqb_eq in E0; contradiction|].
        destruct (window p <? d) eqn:E1; [apply N.ltb_lt in E1; lia|].
        destruct (N.of_nat k <? d) eqn:E2; [apply N.ltb_lt in E2; lia|].
        cbn [orb]. destruct Hp as [_ Hr]. rewrite (Hr d) by lia. exact Hrl.
  Qed.

  Lemma ring_new_length : length (ring_new p) = S (N.to_nat (window p)).
  Proof. unfold ring_new. apply repeat_length. Qed.

  Lemma view_next_successors :
    next_successors_all St rd p (length g) (st 0) = Some g.
  Proof.
    unfold next_successors_all.
    change (ring_decode_nodes St rd p (length g) 0 (ring_new p) (st 0))
      with (ring_decode_nodes St rd p (length g) (N.of_nat 0) (ring_new p) (st 0)).
    rewrite (view_ring_decode_nodes (length g) 0 (ring_new p)); [|lia|].
    - cbn [obind skipn]. rewrite firstn_all. reflexivity.
    - split; [apply ring_new_length|]. intros d H1 H2 H3. lia.
  Qed.

  (** the ascending pre-fill of the ring by random access *)
  Lemma view_ring_prefill rafuel k j0 : forall fuel j ring,
    (k <= length g)%nat -> (k <= rafuel)%nat ->
    (j0 <= j)%nat -> (j <= k)%nat -> (k <= j0 + N.to_nat (window p))%nat ->
    (k - j < fuel)%nat ->
    length ring = S (N.to_nat (window p)) ->
    (forall i, (j0 <= i)%nat -> (i < j)%nat ->
               nth_opt ring (ring_slot p (N.of_nat i)) = nth_opt g i) ->
    exists ring', ring_prefill St rd seek p rafuel fuel (N.of_nat j) (N.of_nat k) ring = Some ring' /\
      length ring' = S (N.to_nat (window p)) /\
      forall i, (j0 <= i)%nat -> (i < k)%nat ->
                nth_opt ring' (ring_slot p (N.of_nat i)) = nth_opt g i.
  Proof.
    induction fuel as [|f IH]; intros j ring Hk Hra Hj0 Hjk Hw Hf Hl Hr; [lia|].
    cbn [ring_prefill].
    destruct (N.of_nat k <=? N.of_nat j) eqn:E.
    - apply N.leb_le in E. exists ring. split; [reflexivity|]. split; [exact Hl|].
      intros i H1 H2. apply Hr; lia.
    - apply N.leb_gt in E.
      destruct (nth_opt_lt g j) as [l Hlj]; [lia|].
      rewrite (view_ra rafuel j l Hlj) by lia. cbn [obind].
      replace (N.of_nat j + 1) with (N.of_nat (S j)) by lia.
      apply IH; try lia.
      + rewrite set_nth_length. exact Hl.
      + intros i H1 H2. destruct (Nat.eq_dec i j) as [->|Hne].
        * rewrite nth_opt_set_nth_eq by (apply ring_slot_lt; exact Hl). symmetry. exact Hlj.
        * rewrite nth_opt_set_nth_neq; [apply Hr; lia|].
          replace (N.of_nat j) with (N.of_nat i + N.of_nat (j - i)) by lia.
          apply ring_slot_neq; lia.
  Qed.

  Lemma view_iter_from_ring fuel k :
    (k <= length g)%nat -> (length g < fuel)%nat ->
    iter_from_ring St rd seek p fuel (length g) (N.of_nat k) = Some (skipn k g).
  Proof.
    intros Hk Hf. unfold iter_from_ring.
    rewrite Hseek by exact Hk. cbn [obind].
    set (j0 := (k - N.to_nat (N.min (window p) (N.of_nat k)))%nat).
    replace (N.of_nat k - N.min (window p) (N.of_nat k)) with (N.of_nat j0) by (unfold j0; lia).
    destruct (view_ring_prefill fuel k j0 fuel j0 (ring_new p)) as (ring & Hp & Hl & Hr);
      try (unfold j0; lia).
    { apply ring_new_length. }
    rewrite Hp. cbn [obind]. rewrite Nat2N.id.
    rewrite (view_ring_decode_nodes (length g - k) k ring); [|lia|].
    - cbn [obind]. rewrite firstn_all2; [reflexivity|]. rewrite skipn_length. lia.
    - split; [exact Hl|]. intros d H1 H2 H3.
      replace (N.of_nat k - d) with (N.of_nat (k - N.to_nat d)) by lia.
      apply Hr; unfold j0; lia.
  Qed.

  (** ** the degree ring of [window] slots *)
  Definition dring_ok (k : nat) (ring : list N) : Prop :=
    length ring = N.to_nat (window p) /\
    forall d, 1 <= d -> d <= window p -> (N.to_nat d <= k)%nat ->
      nth_opt ring (dring_slot p (N.of_nat k - d))
      = option_map nlen (nth_opt g (k - N.to_nat d)).

  Lemma dring_slot_lt x (ring : list N) :
    length ring = N.to_nat (window p) -> window p <> 0 -> (dring_slot p x < length ring)%nat.
  Proof.
    intros -> Hw. unfold dring_slot.
    pose proof (N.mod_lt x (window p) Hw). lia.
  Qed.

  Lemma dring_slot_neq a e :
    0 < e -> e < window p -> dring_slot p (a + e) <> dring_slot p a.
  Proof.
    intros H1 H2 H. unfold dring_slot in H.
    apply (mod_shift_neq a e (window p)); lia.
  Qed.

  Lemma dring_ok_step k cur ring :
    nth_opt g k = Some cur -> dring_ok k ring ->
    dring_ok (S k) (if window p =? 0 then ring
                    else set_nth ring (dring_slot p (N.of_nat k)) (nlen cur)).
  Proof.
    intros Hk [Hl Hr].
    destruct (window p =? 0) eqn:Ew.
    { apply N.eqb_eq in Ew. split; [exact Hl|]. intros d H1 H2 H3. lia. }
    apply N.eqb_neq in Ew.
    split; [rewrite set_nth_length; exact Hl|].
    intros d H1 Hw Hle.
    destruct (N.eq_dec d 1) as [E|E].
    - subst d. replace (N.of_nat (S k) - 1) with (N.of_nat k) by lia.
      rewrite nth_opt_set_nth_eq by (apply dring_slot_lt; assumption).
      change (N.to_nat 1) with 1%nat. cbn [Nat.sub]. rewrite Nat.sub_0_r, Hk. reflexivity.
    - replace (N.of_nat (S k) - d) with (N.of_nat k - (d - 1)) by lia.
      rewrite nth_opt_set_nth_neq.
      + rewrite (Hr (d - 1)) by lia. do 2 f_equal. lia.
      + replace (N.of_nat k) with (N.of_nat k - (d - 1) + (d - 1)) at 1 by lia.
        apply dring_slot_neq; lia.
  Qed.

  Lemma view_dring_nodes : forall m k ring,
    (k + m <= length g)%nat -> dring_ok k ring ->
    dring_nodes St rd pos p m (N.of_nat k) ring (st k)
    = Some (firstn m (skipn k scan_spec), st (k + m)).
  Proof.
    induction m as [|m IH]; intros k ring Hkm Hp.
    - cbn [dring_nodes firstn]. rewrite Nat.add_0_r. reflexivity.
    - destruct (nth_opt_lt g k) as [cur Hk]; [lia|].
      cbn [dring_nodes].
      rewrite (view_skip_record k cur).
      + cbn [obind].
        replace (N.of_nat k + 1) with (N.of_nat (S k)) by lia.
        rewrite (IH (S k)); [|lia|apply dring_ok_step; assumption].
        cbn [obind]. rewrite (skipn_nth_opt scan_spec k _ (scan_spec_nth k cur Hk)).
        cbn [firstn].
        replace (S k + m)%nat with (k + S m)%nat by lia. reflexivity.
      + exact Hk.
      + intros d rl Hs Hnz Hle Hrl.
        destruct (Hview k cur Hk) as (d' & rl' & Hs' & _ & Hw & _).
        rewrite Hs in Hs'. injection Hs' as <-.
        unfold dring_lookup.
        destruct (d =? 0) eqn:E0; [apply N.eqb_eq in E0; contradiction|].
        destruct (N.of_nat k <? d) eqn:E2; [apply N.ltb_lt in E2; lia|].
        cbn [orb]. destruct Hp as [_ Hr]. rewrite (Hr d) by lia. rewrite Hrl. reflexivity.
  Qed.

  Lemma dring_new_length : length (dring_new p) = N.to_nat (window p).
  Proof. unfold dring_new. apply repeat_length. Qed.

  Lemma view_offdeg_ring :
    offdeg_ring St rd pos p (length g) (st 0) = Some scan_spec.
  Proof.
    unfold offdeg_ring.
    change (dring_nodes St rd pos p (length g) 0 (dring_new p) (st 0))
      with (dring_nodes St rd pos p (length g) (N.of_nat 0) (dring_new p) (st 0)).
    rewrite (view_dring_nodes (length g) 0 (dring_new p)); [|lia|].
    - cbn [obind skipn]. rewrite firstn_all2; [reflexivity|]. rewrite scan_spec_length. lia.
    - split; [apply dring_new_length|]. intros d H1 H2 H3. lia.
  Qed.

  Lemma view_dring_prefill k j0 : forall fuel j ring,
    (k <= length g)%nat ->
    (j0 <= j)%nat -> (j <= k)%nat -> (k <= j0 + N.to_nat (window p))%nat ->
    (k - j < fuel)%nat ->
    length ring = N.to_nat (window p) ->
    (forall i, (j0 <= i)%nat -> (i < j)%nat ->
               nth_opt ring (dring_slot p (N.of_nat i)) = option_map nlen (nth_opt g i)) ->
    exists ring', dring_prefill St rd seek p fuel (N.of_nat j) (N.of_nat k) ring = Some ring' /\
      length ring' = N.to_nat (window p) /\
      forall i, (j0 <= i)%nat -> (i < k)%nat ->
                nth_opt ring' (dring_slot p (N.of_nat i)) = option_map nlen (nth_opt g i).
  Proof.
    induction fuel as [|f IH]; intros j ring Hk Hj0 Hjk Hw Hf Hl Hr; [lia|].
    cbn [dring_prefill].
    destruct (N.of_nat k <=? N.of_nat j) eqn:E.
    - apply N.leb_le in E. exists ring. split; [reflexivity|]. split; [exact Hl|].
      intros i H1 H2. apply Hr; lia.
    - apply N.leb_gt in E.
      destruct (nth_opt_lt g j) as [l Hlj]; [lia|].
      rewrite (view_outdegree j l Hlj). cbn [obind].
      replace (N.of_nat j + 1) with (N.of_nat (S j)) by lia.
      assert (Hwz : window p <> 0) by lia.
      apply IH; try lia.
      + rewrite set_nth_length. exact Hl.
      + intros i H1 H2. destruct (Nat.eq_dec i j) as [->|Hne].
        * rewrite nth_opt_set_nth_eq by (apply dring_slot_lt; assumption).
          rewrite Hlj. reflexivity.
        * rewrite nth_opt_set_nth_neq; [apply Hr; lia|].
          replace (N.of_nat j) with (N.of_nat i + N.of_nat (j - i)) by lia.
          apply dring_slot_neq; lia.
  Qed.

  Lemma view_offdeg_from_ring fuel k :
    (k <= length g)%nat -> (length g < fuel)%nat ->
    offdeg_from_ring St rd seek pos p fuel (length g) (N.of_nat k) = Some (skipn k scan_spec).
  Proof.
    intros Hk Hf. unfold offdeg_from_ring.
    set (j0 := (k - N.to_nat (N.min (window p) (N.of_nat k)))%nat).
    replace (N.of_nat k - N.min (window p) (N.of_nat k)) with (N.of_nat j0) by (unfold j0; lia).
    destruct (view_dring_prefill k j0 fuel j0 (dring_new p)) as (ring & Hp & Hl & Hr);
      try (unfold j0; lia).
    { apply dring_new_length. }
    rewrite Hp. cbn [obind].
    rewrite Hseek by exact Hk. cbn [obind]. rewrite Nat2N.id.
    rewrite (view_dring_nodes (length g - k) k ring); [|lia|].
    - cbn [obind]. rewrite firstn_all2; [reflexivity|].
      rewrite skipn_length, scan_spec_length. lia.
    - split; [exact Hl|]. intros d H1 H2 H3.
      replace (N.of_nat k - d) with (N.of_nat (k - N.to_nat d)) by lia.
      apply Hr; unfold j0; lia.
  Qed.
End View.



(** * The encoder's bit stream, seen node by node *)

Lemma encode_nodes_length p : forall g x prev sel,
  length (encode_nodes p x prev g sel) = length g.
Proof.
  induction g as [|c g IH]; intros x prev sel; cbn [encode_nodes length]; [reflexivity|].
  rewrite IH. reflexivity.
Qed.

Lemma encode_nodes_view p : forall g x0 prev sel i cur,
  valid_sel p prev g sel = true -> nlen prev = x0 ->
  nth_opt g i = Some cur ->
  exists d rl, nth_opt sel i = Some d /\
    nth_opt (encode_nodes p x0 prev g sel) i
      = Some (node_fields p (x0 + N.of_nat i) cur d rl) /\
    d <= window p /\
    (d <> 0 -> d <= x0 + N.of_nat i /\
               nth_opt (rev (firstn i g) ++ prev) (N.to_nat d - 1) = Some rl).
Proof.
  induction g as [|c g IH]; intros x0 prev sel i cur Hv Hx Hi.
  - destruct i; discriminate Hi.
  - destruct sel as [|d0 sel]; [cbn in Hv; discriminate|].
    cbn [valid_sel] in Hv. apply andb_true_iff in Hv. destruct Hv as [Hv1 Hv2].
    cbn [encode_nodes hd tl].
    destruct i as [|i]; cbn [nth_opt] in *.
    + injection Hi as <-.
      exists d0, (match nth_opt prev (N.to_nat d0 - 1) with Some l => l | None => [] end).
      split; [reflexivity|]. split; [f_equal; f_equal; lia|].
      apply orb_true_iff in Hv1. destruct Hv1 as [Hz|Hz].
      * apply N.eqb_eq in Hz. subst d0. split; [lia|]. intros C. contradiction.
      * apply andb_true_iff in Hz. destruct Hz as [Hz Hn].
        apply andb_true_iff in Hz. destruct Hz as [Hz1 Hz2].
        apply N.leb_le in Hz1. apply N.leb_le in Hz2.
        split; [exact Hz1|]. intros _. split; [lia|].
        cbn [firstn rev app].
        destruct (nth_opt prev (N.to_nat d0 - 1)) as [l|]; [reflexivity|discriminate].
    + destruct (IH (x0 + 1) (c :: prev) sel i cur Hv2) as (d & rl & H1 & H2 & H3 & H4);
        [rewrite nlen_cons; lia|exact Hi|].
      exists d, rl. split; [exact H1|]. split.
      * rewrite H2. f_equal. f_equal. lia.
      * split; [exact H3|]. intros Hnz. destruct (H4 Hnz) as [H5 H6]. split; [lia|].
        cbn [firstn rev]. rewrite <- app_assoc. exact H6.
Qed.

Lemma prefix_sums_nth : forall l acc x,
  (x <= length l)%nat -> nth_opt (prefix_sums acc l) x = Some (acc + nsum (firstn x l)).
Proof.
  induction l as [|a l IH]; intros acc x H; cbn [length] in H.
  - replace x with O by lia. cbn [prefix_sums nth_opt firstn nsum]. f_equal. lia.
  - destruct x as [|x].
    + cbn [firstn nsum]. destruct l; cbn [prefix_sums nth_opt]; f_equal; lia.
    + change (prefix_sums acc (a :: l)) with (acc :: prefix_sums (acc + a) l).
      cbn [nth_opt firstn nsum]. rewrite IH by lia. f_equal. lia.
Qed.

Lemma graph_bits_app le cs a b :
  graph_bits le cs (a ++ b) = graph_bits le cs a ++ graph_bits le cs b.
Proof. unfold graph_bits. apply flat_map_app. Qed.

Section Enc.
  Variable le : bool.
  Variable cs : codes.
  Variable p : params.
  Variable g : list (list N).
  Variable sel : list N.
  Variable rest : bits.
  Hypothesis Hok : codes_ok cs = true.
  Hypothesis Hv : valid_sel p [] g sel = true.

  Definition est (x : nat) : bits :=
    graph_bits le cs (skipn x (encode_graph p 0 g sel)) ++ rest.

  Lemma est_split x :
    enc_stream le cs p g sel rest
    = graph_bits le cs (firstn x (encode_graph p 0 g sel)) ++ est x.
  Proof.
    unfold enc_stream, est. rewrite app_assoc, <- graph_bits_app, firstn_skipn. reflexivity.
  Qed.

  Lemma enc_offs_nth x :
    (x <= length g)%nat ->
    nth_opt (enc_offs le cs p g sel) x
    = Some (nlen (graph_bits le cs (firstn x (encode_graph p 0 g sel)))).
  Proof.
    intros Hx. unfold enc_offs.
    rewrite prefix_sums_nth.
    - f_equal. unfold node_bitlens at 1. rewrite firstn_map.
      change (map (fun fs => nlen (enc_fields le cs fs)) (firstn x (encode_graph p 0 g sel)))
        with (node_bitlens le cs (firstn x (encode_graph p 0 g sel))).
      rewrite nsum_node_bitlens. lia.
    - unfold node_bitlens. rewrite map_length. unfold encode_graph.
      rewrite encode_nodes_length. exact Hx.
  Qed.

  Lemma enc_seek x :
    (x <= length g)%nat ->
    seek_bits (enc_offs le cs p g sel) (enc_stream le cs p g sel rest) (N.of_nat x)
    = Some (est x).
  Proof.
    intros Hx. unfold seek_bits. rewrite Nat2N.id, (enc_offs_nth x Hx). cbn [obind].
    rewrite (est_split x).
    set (A := graph_bits le cs (firstn x (encode_graph p 0 g sel))).
    destruct (nlen (A ++ est x) <? nlen A) eqn:E.
    { apply N.ltb_lt in E. rewrite nlen_app in E. lia. }
    f_equal. unfold nlen. rewrite Nat2N.id.
    rewrite skipn_app, skipn_all, Nat.sub_diag. reflexivity.
  Qed.

  Lemma enc_pos x :
    (x <= length g)%nat ->
    nth_opt (enc_offs le cs p g sel) x
    = Some (pos_bits (enc_stream le cs p g sel rest) (est x)).
  Proof.
    intros Hx. rewrite (enc_offs_nth x Hx). f_equal. unfold pos_bits.
    rewrite (est_split x), nlen_app. lia.
  Qed.

  Lemma enc_view x cur :
    nth_opt g x = Some cur ->
    exists d rl, nth_opt sel x = Some d /\
      Reads (rd_bits le cs) (est x) (node_fields p (N.of_nat x) cur d rl) (est (S x)) /\
      d <= window p /\
      (d <> 0 -> (N.to_nat d <= x)%nat /\ nth_opt g (x - N.to_nat d) = Some rl).
  Proof.
    intros Hx.
    destruct (encode_nodes_view p g 0 [] sel x cur Hv eq_refl Hx) as (d & rl & H1 & H2 & H3 & H4).
    exists d, rl. split; [exact H1|]. split; [|split; [exact H3|]].
    - unfold est. fold (encode_graph p 0 g sel) in H2.
      rewrite (skipn_nth_opt _ _ _ H2).
      change (graph_bits le cs (node_fields p (0 + N.of_nat x) cur d rl
                                  :: skipn (S x) (encode_graph p 0 g sel)))
        with (enc_fields le cs (node_fields p (0 + N.of_nat x) cur d rl)
              ++ graph_bits le cs (skipn (S x) (encode_graph p 0 g sel))).
      rewrite <- app_assoc. rewrite N.add_0_l. apply reads_bits. exact Hok.
    - intros Hnz. destruct (H4 Hnz) as [H5 H6]. split; [lia|].
      rewrite app_nil_r in H6.
      pose proof (nth_opt_some_lt _ _ _ Hx) as Hlt.
      rewrite nth_opt_rev_firstn in H6 by lia.
      replace (x - 1 - (N.to_nat d - 1))%nat with (x - N.to_nat d)%nat in H6 by lia.
      exact H6.
  Qed.
End Enc.

(** * The pinned statements *)

Ltac solve_view :=
  first [ assumption | (apply enc_seek; assumption) | (apply enc_pos; assumption)
        | (apply enc_view; assumption) | lia ].

Theorem ra_eq_seq : S_ra_eq_seq.
Proof.
  intros le cs p g sel rest fuel x l Hok Hinc Hv Hx Hf.
  eapply view_ra with (g := g) (sel := sel) (st := est le cs p g sel rest); solve_view.
Qed.

Theorem ra_merge_eq : S_ra_merge_eq.
Proof.
  intros le cs p g sel rest fuel x l Hok Hinc Hv Hx Hf.
  eapply view_ra_merge with (g := g) (sel := sel) (st := est le cs p g sel rest); solve_view.
Qed.

Theorem ra_fuel_depth : S_ra_fuel_depth.
Proof.
  intros le cs p g sel rest fuel x l dep Hok Hinc Hv Hx Hd Hf.
  eapply view_ra_depth with (g := g) (sel := sel) (st := est le cs p g sel rest) (dep := dep);
    solve_view.
Qed.

Lemma valid_sel_length p : forall g prev sel, valid_sel p prev g sel = true -> length sel = length g.
Proof.
  induction g as [|c g IH]; intros prev sel H; destruct sel as [|d sel]; cbn [valid_sel] in H;
    try discriminate; [reflexivity|].
  apply andb_true_iff in H. destruct H as [_ H]. cbn [length]. f_equal. eapply IH, H.
Qed.

Theorem ra_fuel : S_ra_fuel.
Proof.
  intros le cs p g sel rest m x l Hok Hinc Hv Hm Hd Hx.
  rewrite Hm in Hd. cbn [max_depth_ok] in Hd. rewrite forallb_forall in Hd.
  pose proof (nth_opt_some_lt _ _ _ Hx) as Hlt.
  destruct (nth_opt_lt (depths sel) x) as [dep Hdep].
  { unfold depths. rewrite depths_acc_length, (valid_sel_length _ _ _ _ Hv). exact Hlt. }
  eapply ra_fuel_depth; try eassumption.
  specialize (Hd dep (nth_opt_In _ _ _ Hdep)). apply N.leb_le in Hd. lia.
Qed.

Theorem outdegree_eq : S_outdegree_eq.
Proof.
  intros le cs p g sel rest x l Hok Hinc Hv Hx. unfold acc_outdegree.
  eapply view_outdegree with (g := g) (sel := sel) (p := p) (st := est le cs p g sel rest);
    solve_view.
Qed.

Lemma enc_offs_length le cs p g sel : length (enc_offs le cs p g sel) = S (length g).
Proof.
  unfold enc_offs. rewrite prefix_sums_length. unfold node_bitlens, encode_graph.
  rewrite map_length, encode_nodes_length. reflexivity.
Qed.

Theorem iter_from_eq : S_iter_from_eq.
Proof.
  intros le cs p g sel rest k Hok Hinc Hv Hk. unfold acc_iter_from.
  rewrite enc_offs_length. cbn [Nat.sub]. rewrite Nat.sub_0_r.
  eapply view_iter_from with (sel := sel) (st := est le cs p g sel rest); solve_view.
Qed.

Theorem offdeg_ring_eq : S_offdeg_ring_eq.
Proof.
  intros le cs p g sel rest Hok Hinc Hv. unfold acc_offdeg_ring, offdeg_spec.
  change (enc_stream le cs p g sel rest) with (est le cs p g sel rest 0) at 2.
  eapply view_offdeg_ring with (sel := sel) (st := est le cs p g sel rest)
    (seek := seek_bits (enc_offs le cs p g sel) (enc_stream le cs p g sel rest)); solve_view.
Qed.

Theorem offdeg_from_ring_eq : S_offdeg_from_ring_eq.
Proof.
  intros le cs p g sel rest k Hok Hinc Hv Hk. unfold acc_offdeg_from_ring, offdeg_spec.
  rewrite enc_offs_length. cbn [Nat.sub]. rewrite Nat.sub_0_r.
  eapply view_offdeg_from_ring with (sel := sel) (st := est le cs p g sel rest); solve_view.
Qed.

Theorem iter_from_ring_eq : S_iter_from_ring_eq.
Proof.
  intros le cs p g sel rest k Hok Hinc Hv Hk. unfold acc_iter_from_ring.
  rewrite enc_offs_length. cbn [Nat.sub]. rewrite Nat.sub_0_r.
  eapply view_iter_from_ring with (sel := sel) (st := est le cs p g sel rest); solve_view.
Qed.

Theorem next_successors_eq : S_next_successors_eq.
Proof.
  intros le cs p g sel rest Hok Hinc Hv. unfold acc_next_successors.
  change (enc_stream le cs p g sel rest) with (est le cs p g sel rest 0).
  eapply view_next_successors with (sel := sel) (st := est le cs p g sel rest)
    (seek := seek_bits (enc_offs le cs p g sel) (enc_stream le cs p g sel rest)); solve_view.
Qed.

Theorem seq_iter_from_eq : S_seq_iter_from_eq.
Proof.
  intros le cs p g sel rest k Hok Hinc Hv. unfold seq_iter_from, enc_stream.
  rewrite (graph_roundtrip_bits le cs p g sel rest Hok Hinc Hv). reflexivity.
Qed.

Theorem offdeg_eq : S_offdeg_eq.
Proof.
  intros le cs p g sel rest Hok Hinc Hv. unfold acc_offdeg, offdeg_spec.
  change (enc_stream le cs p g sel rest) with (est le cs p g sel rest 0) at 2.
  eapply view_offdeg with (sel := sel) (st := est le cs p g sel rest)
    (seek := seek_bits (enc_offs le cs p g sel) (enc_stream le cs p g sel rest)); solve_view.
Qed.

Theorem offdeg_from_eq : S_offdeg_from_eq.
Proof.
  intros le cs p g sel rest k Hok Hinc Hv Hk. unfold acc_offdeg_from, offdeg_spec.
  rewrite enc_offs_length. cbn [Nat.sub]. rewrite Nat.sub_0_r.
  eapply view_offdeg_from with (sel := sel) (st := est le cs p g sel rest); solve_view.
Qed.

Print Assumptions ra_eq_seq.
Print Assumptions ra_fuel.
Print Assumptions iter_from_eq.
Print Assumptions offdeg_from_eq.
Print Assumptions ra_merge_eq.
Print Assumptions offdeg_ring_eq.
Print Assumptions offdeg_from_ring_eq.
Print Assumptions iter_from_ring_eq.
Print Assumptions next_successors_eq.
