(** Executable model of the access paths to a compressed graph (C03): random access
    resolving references recursively through the offsets ([BvGraph::labels] of
    random_access.rs with [MaskedIter] of masked_iter.rs), [BvGraph::outdegree],
    sequential iteration started at any node ([BvGraph::iter_from]: pre-fill of the ring
    of the last [window] lists by random access, then the sequential decoder of
    sequential.rs), [BvGraphSeq::iter_from] (decode from the start and discard), the
    degrees-and-offsets scan ([OffsetDegIter] of offset_deg_iter.rs) from the start and from
    any node ([BvGraph::offset_deg_iter_from]), and the ring buffers of [NodeLabels]
    ([next_successors] / [Lender::next]: [window + 1] slots indexed by [node mod (window+1)])
    and of [OffsetDegIter] ([window] slots indexed by [node mod window]) as the code has them.

    Everything is over an abstract reader [rd] with states [St]; [seek x] is
    [factory.new_decoder(x)] (a reader positioned at the offset of node [x]) and [pos] is
    [bit_pos].  Definitions only. *)
From WG Require Import Base.Prelude Codes.Codes BV.Model BV.RefSel BV.Bits.

Module AccessM.
Local Open Scope N_scope.

(** Number of elements that [mask c bs l] keeps of a list of [n] elements: what
    [OffsetDegIter::next_degree] subtracts from the outdegree without looking at the
    referenced list. *)
Fixpoint mask_count (c : bool) (bs : list N) (n : N) : N :=
  match bs with
  | [] => if c then n else 0
  | b :: bs' => (if c then b else 0) + mask_count (negb c) bs' (n - b)
  end.

(** [Vec] slot update; out of range leaves the list unchanged (the callers check). *)
Fixpoint set_nth {A} (l : list A) (i : nat) (v : A) : list A :=
  match l, i with
  | [], _ => []
  | _ :: l', O => v :: l'
  | a :: l', S i' => a :: set_nth l' i' v
  end.

(** The lazy three-way merge of [Succ::next]: the smallest head of the copied, interval
    and residual streams; the copied stream wins ties ([min >= next_copied_node]), then
    the residuals ([min == next_residual_node]), then the intervals.  An exhausted stream
    is [usize::MAX] in the code, [None] here. *)
Definition hd_opt (l : list N) : option N := match l with [] => None | x :: _ => Some x end.
Definition ole (u v : option N) : bool :=
  match u, v with
  | Some x, Some y => x <=? y
  | Some _, None => true
  | None, _ => false
  end.
Fixpoint merge3 (fuel : nat) (a b c : list N) : list N :=
  match fuel with
  | O => []
  | S f =>
    (* a = copied, b = intervals, c = residuals *)
    if ole (hd_opt a) (hd_opt b) && ole (hd_opt a) (hd_opt c) then
      match a with x :: a' => x :: merge3 f a' b c | [] => [] end
    else if ole (hd_opt c) (hd_opt b) then
      match c with x :: c' => x :: merge3 f a b c' | [] => [] end
    else
      match b with x :: b' => x :: merge3 f a b' c | [] => [] end
  end.

(** What iterating a [Succ] to its end yields. *)
Definition record_succ_merge (r : record) : list N :=
  let ints := expand_ints (r_ints r) in
  merge3 (length (r_copied r) + length ints + length (r_res r))
         (r_copied r) ints (r_res r).

Section Access.
  Variable St : Type.
  Variable rd : kind -> St -> option (N * St).
  Variable seek : N -> option St.
  Variable pos : St -> N.

  (** * Random access *)

  (** [BvGraph::labels]: the record of node [x] is parsed at its offset; the referenced
      list is obtained by a nested call on node [x - d].  One unit of fuel per nesting
      level. *)
  Fixpoint ra_labels (p : params) (fuel : nat) (x : N) : option (list N) :=
    match fuel with
    | O => None
    | S f =>
      s <- seek x ;;
      '(l, _) <- decode_node St rd p x (fun d => ra_labels p f (x - d)) s ;;
      Some l
    end.

  (** the same, collecting by the lazy merge of [Succ::next] instead of sorting *)
  Fixpoint ra_labels_merge (p : params) (fuel : nat) (x : N) : option (list N) :=
    match fuel with
    | O => None
    | S f =>
      s <- seek x ;;
      '(r, _) <- parse_record St rd p x (fun d => ra_labels_merge p f (x - d)) s ;;
      Some (record_succ_merge r)
    end.

  (** [BvGraph::outdegree]: only the first field at the offset of the node *)
  Definition ra_outdegree (x : N) : option N :=
    s <- seek x ;; '(d, _) <- rd KOutdeg s ;; Some d.

  (** * Sequential iteration from a node *)

  (** The lists of nodes [k - d], [k - d - 1], ... down to [max 0 (k - window)], most recent
      first, each obtained by random access (the loop of [BvGraph::iter_from]). *)
  Fixpoint prefill (p : params) (rafuel fuel : nat) (d k : N) : option (list (list N)) :=
    match fuel with
    | O => None
    | S f =>
      if (window p <? d) || (k <? d) then Some []
      else
        l <- ra_labels p rafuel (k - d) ;;
        ls <- prefill p rafuel f (d + 1) k ;;
        Some (l :: ls)
    end.

  (** [BvGraph::iter_from k] run to the end: [n] is the number of nodes. *)
  Definition iter_from (p : params) (fuel : nat) (n : nat) (k : N) : option (list (list N)) :=
    s <- seek k ;;
    prev <- prefill p fuel fuel 1 k ;;
    '(ls, _) <- decode_nodes St rd p (n - N.to_nat k) k prev s ;;
    Some ls.

  (** [BvGraphSeq::iter_from k]: decode from the start, discard the first [k] lists *)
  Definition seq_iter_from (p : params) (n : nat) (k : nat) (s : St) : option (list (list N)) :=
    '(ls, _) <- decode_graph St rd p n s ;; Some (skipn k ls).

  (** * The degrees-and-offsets scan *)

  Fixpoint skip_ints_tail (L : N) (n : nat) (s : St) : option (N * St) :=
    match n with
    | O => Some (0, s)
    | S n' =>
      '(_, s1) <- rd KIntStart s ;;
      '(w, s2) <- rd KIntLen s1 ;;
      '(t, s3) <- skip_ints_tail L n' s2 ;;
      Some (w + L + t, s3)
    end.

  (** reads the interval fields, returns the number of successors they stand for *)
  Definition skip_ints (L : N) (s : St) : option (N * St) :=
    '(ni, s0) <- rd KIntCount s ;;
    if ni =? 0 then Some (0, s0)
    else
      '(_, s1) <- rd KIntStart s0 ;;
      '(w, s2) <- rd KIntLen s1 ;;
      '(t, s3) <- skip_ints_tail L (N.to_nat ni - 1) s2 ;;
      Some (w + L + t, s3).

  Fixpoint skip_n (k : kind) (n : nat) (s : St) : option St :=
    match n with
    | O => Some s
    | S n' => '(_, s1) <- rd k s ;; skip_n k n' s1
    end.

  Definition skip_res (n : nat) (s : St) : option St :=
    match n with
    | O => Some s
    | S n' => '(_, s1) <- rd KFirstRes s ;; skip_n KRes n' s1
    end.

  (** [OffsetDegIter::next_degree]: consumes the record of node [x] without materialising
      successors; [deglookup d] is the outdegree of node [x - d].  Fails where the Rust
      code would underflow. *)
  Definition skip_record (p : params) (x : N) (deglookup : N -> option N) (s : St)
    : option (N * St) :=
    '(deg, s0) <- rd KOutdeg s ;;
    if deg =? 0 then Some (0, s0)
    else
      '(d, s1) <- (if window p =? 0 then Some (0, s0) else rd KRef s0) ;;
      '(copied, s2) <-
        (if d =? 0 then Some (0, s1)
         else
           if x <? d then None else
           rdeg <- deglookup d ;;
           '(nb, t1) <- rd KBlockCount s1 ;;
           '(raw, t2) <- read_n St rd KBlock (N.to_nat nb) t1 ;;
           let bs := unshift_blocks raw in
           if rdeg <? nsum bs then None
           else Some (mask_count true bs rdeg, t2)) ;;
      if deg <? copied then None
      else
        let left := deg - copied in
        '(ni, s3) <-
          (if (left =? 0) || (min_len p =? 0) then Some (0, s2)
           else skip_ints (min_len p) s2) ;;
        if left <? ni then None
        else
          s4 <- skip_res (N.to_nat (left - ni)) s3 ;;
          Some (deg, s4).

  Definition win_lookup_deg (p : params) (prev : list N) (d : N) : option N :=
    if (d =? 0) || (window p <? d) then None else nth_opt prev (N.to_nat d - 1).

  (** the scan: (bit position of the record, outdegree) per node; [prev] = the outdegrees
      of the preceding nodes, most recent first *)
  Fixpoint offdeg_nodes (p : params) (n : nat) (x : N) (prev : list N) (s : St)
    : option (list (N * N) * St) :=
    match n with
    | O => Some ([], s)
    | S n' =>
      '(deg, s1) <- skip_record p x (win_lookup_deg p prev) s ;;
      '(rest, s2) <- offdeg_nodes p n' (x + 1) (deg :: prev) s1 ;;
      Some ((pos s, deg) :: rest, s2)
    end.

  (** [offset_deg_iter()] of [BvGraphSeq] and [BvGraph] *)
  Definition offdeg (p : params) (n : nat) (s : St) : option (list (N * N)) :=
    '(l, _) <- offdeg_nodes p n 0 [] s ;; Some l.

  Fixpoint prefill_deg (p : params) (fuel : nat) (d k : N) : option (list N) :=
    match fuel with
    | O => None
    | S f =>
      if (window p <? d) || (k <? d) then Some []
      else
        o <- ra_outdegree (k - d) ;;
        os <- prefill_deg p f (d + 1) k ;;
        Some (o :: os)
    end.

  (** [BvGraph::offset_deg_iter_from k] *)
  Definition offdeg_from (p : params) (fuel : nat) (n : nat) (k : N) : option (list (N * N)) :=
    prev <- prefill_deg p fuel 1 k ;;
    s <- seek k ;;
    '(l, _) <- offdeg_nodes p (n - N.to_nat k) k prev s ;;
    Some l.

  (** * The ring buffers as the code has them *)

  (** [OffsetDegIter.backrefs]: [window] outdegrees indexed by [node mod window]
      ([backrefs[reference_node_id % compression_window]], written only when the window is
      not 0). *)
  Definition dring_slot (p : params) (x : N) : nat := N.to_nat (x mod window p).

  Definition dring_lookup (p : params) (ring : list N) (x d : N) : option N :=
    if (d =? 0) || (x <? d) then None else nth_opt ring (dring_slot p (x - d)).

  Fixpoint dring_nodes (p : params) (n : nat) (x : N) (ring : list N) (s : St)
    : option (list (N * N) * St) :=
    match n with
    | O => Some ([], s)
    | S n' =>
      '(deg, s1) <- skip_record p x (dring_lookup p ring x) s ;;
      let ring' := if window p =? 0 then ring else set_nth ring (dring_slot p x) deg in
      '(rest, s2) <- dring_nodes p n' (x + 1) ring' s1 ;;
      Some ((pos s, deg) :: rest, s2)
    end.

  Definition dring_new (p : params) : list N := repeat 0 (N.to_nat (window p)).

  (** [offset_deg_iter()] with the ring *)
  Definition offdeg_ring (p : params) (n : nat) (s : St) : option (list (N * N)) :=
    '(l, _) <- dring_nodes p n 0 (dring_new p) s ;; Some l.

  (** the loop of [offset_deg_iter_from]:
      [for node_id in node.saturating_sub(window)..node { backrefs[node_id % window] = outdegree(node_id) }] *)
  Fixpoint dring_prefill (p : params) (fuel : nat) (j k : N) (ring : list N) : option (list N) :=
    match fuel with
    | O => None
    | S f =>
      if k <=? j then Some ring
      else
        o <- ra_outdegree j ;;
        dring_prefill p f (j + 1) k (set_nth ring (dring_slot p j) o)
    end.

  Definition offdeg_from_ring (p : params) (fuel : nat) (n : nat) (k : N)
    : option (list (N * N)) :=
    ring <- dring_prefill p fuel (k - N.min (window p) k) k (dring_new p) ;;
    s <- seek k ;;
    '(l, _) <- dring_nodes p (n - N.to_nat k) k ring s ;;
    Some l.


  (** [CircularBuffer] of [window + 1] lists indexed by [node mod (window + 1)]:
      [backrefs[reference_node_id]]. *)
  Definition ring_slot (p : params) (x : N) : nat := N.to_nat (x mod (window p + 1)).

  Definition ring_lookup (p : params) (ring : list (list N)) (x d : N) : option (list N) :=
    if (d =? 0) || (window p <? d) || (x <? d) then None
    else nth_opt ring (ring_slot p (x - d)).

  (** [NodeLabels::next_successors] / [Lender::next] repeated [n] times from node [x]:
      take the slot of the node, clear it, decode into it, put it back. *)
  Fixpoint ring_decode_nodes (p : params) (n : nat) (x : N) (ring : list (list N)) (s : St)
    : option (list (list N) * St) :=
    match n with
    | O => Some ([], s)
    | S n' =>
      '(l, s1) <- decode_node St rd p x (ring_lookup p ring x) s ;;
      '(ls, s2) <- ring_decode_nodes p n' (x + 1) (set_nth ring (ring_slot p x) l) s1 ;;
      Some (l :: ls, s2)
    end.

  Definition ring_new (p : params) : list (list N) :=
    repeat [] (S (N.to_nat (window p))).

  (** The pre-fill loop of [BvGraph::iter_from] over the ring:
      [for node_id in start.saturating_sub(window)..start { backrefs.replace(node_id, successors(node_id)) }] *)
  Fixpoint ring_prefill (p : params) (rafuel fuel : nat) (j k : N) (ring : list (list N))
    : option (list (list N)) :=
    match fuel with
    | O => None
    | S f =>
      if k <=? j then Some ring
      else
        l <- ra_labels p rafuel j ;;
        ring_prefill p rafuel f (j + 1) k (set_nth ring (ring_slot p j) l)
    end.

  (** [BvGraph::iter_from k] with the ring as the code has it *)
  Definition iter_from_ring (p : params) (fuel : nat) (n : nat) (k : N)
    : option (list (list N)) :=
    s <- seek k ;;
    ring <- ring_prefill p fuel fuel (k - N.min (window p) k) k (ring_new p) ;;
    '(ls, _) <- ring_decode_nodes p (n - N.to_nat k) k ring s ;;
    Some ls.

  (** the [next_successors] loop over a fresh [NodeLabels] *)
  Definition next_successors_all (p : params) (n : nat) (s : St) : option (list (list N)) :=
    '(ls, _) <- ring_decode_nodes p n 0 (ring_new p) s ;; Some ls.
End Access.

(** * The instance over a bit list with an offsets table *)

(** [new_decoder(x)]: the stream positioned at [offs[x]] *)
Definition seek_bits (offs : list N) (s : bits) (x : N) : option bits :=
  off <- nth_opt offs (N.to_nat x) ;;
  if nlen s <? off then None else Some (skipn (N.to_nat off) s).

Definition pos_bits (s : bits) (t : bits) : N := nlen s - nlen t.

(** every access path of a stream [s] of [n] nodes with offsets table [offs] (n+1 entries):
    fuel for the nesting of random access is the table's length *)
Definition acc_ra le cs p (offs : list N) (s : bits) (x : N) : option (list N) :=
  ra_labels bits (rd_bits le cs) (seek_bits offs s) p (length offs) x.
Definition acc_ra_merge le cs p (offs : list N) (s : bits) (x : N) : option (list N) :=
  ra_labels_merge bits (rd_bits le cs) (seek_bits offs s) p (length offs) x.
Definition acc_outdegree le cs (offs : list N) (s : bits) (x : N) : option N :=
  ra_outdegree bits (rd_bits le cs) (seek_bits offs s) x.
Definition acc_iter_from le cs p (offs : list N) (s : bits) (k : N) : option (list (list N)) :=
  iter_from bits (rd_bits le cs) (seek_bits offs s) p (length offs) (length offs - 1) k.
Definition acc_iter_from_ring le cs p (offs : list N) (s : bits) (k : N)
  : option (list (list N)) :=
  iter_from_ring bits (rd_bits le cs) (seek_bits offs s) p (length offs) (length offs - 1) k.
Definition acc_offdeg le cs p (n : nat) (s : bits) : option (list (N * N)) :=
  offdeg bits (rd_bits le cs) (pos_bits s) p n s.
Definition acc_offdeg_from le cs p (offs : list N) (s : bits) (k : N) : option (list (N * N)) :=
  offdeg_from bits (rd_bits le cs) (seek_bits offs s) (pos_bits s) p (length offs)
    (length offs - 1) k.
Definition acc_offdeg_ring le cs p (n : nat) (s : bits) : option (list (N * N)) :=
  offdeg_ring bits (rd_bits le cs) (pos_bits s) p n s.
Definition acc_offdeg_from_ring le cs p (offs : list N) (s : bits) (k : N)
  : option (list (N * N)) :=
  offdeg_from_ring bits (rd_bits le cs) (seek_bits offs s) (pos_bits s) p (length offs)
    (length offs - 1) k.
Definition acc_next_successors le cs p (n : nat) (s : bits) : option (list (list N)) :=
  next_successors_all bits (rd_bits le cs) p n s.


End AccessM.
Export AccessM.
