(** Pinned statements about the reference selectors (C06, and validity for C01/C04).
    Statements only. *)
From WG Require Import Base.Prelude Codes.Codes BV.Model BV.RefSel.
Local Open Scope N_scope.

(** The greedy selector only picks valid references (inside the window, not before the
    first node of the chunk, at a non-empty list), whatever the codes (= cost function),
    the starting node and the graph. *)
Definition S_greedy_valid : Prop := forall p cs start g,
  valid_sel p [] g (greedy_sel p cs start g) = true.

(** ... and never builds a reference chain deeper than [max_ref]. *)
Definition S_greedy_depth : Prop := forall p cs start g m,
  max_ref p = Some m ->
  Forall (fun d => d <= m) (depths (greedy_sel p cs start g)).

(** Same for the Zuckerli-style selector, for every chunk size. *)
Definition S_zuck_valid : Prop := forall p cs k start g,
  valid_sel p [] g (zuck_sel p cs k start g) = true.

Definition S_zuck_depth : Prop := forall p cs k start g m,
  max_ref p = Some m ->
  Forall (fun d => d <= m) (depths (zuck_sel p cs k start g)).
