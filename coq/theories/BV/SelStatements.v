(** Pinned statements about the reference selectors (C06, and validity for C01/C04).
    Statements only. *)
From WG Require Import Base.Prelude Codes.Codes BV.Model BV.RefSel.
Local Open Scope N_scope.

(** The greedy selector only picks valid references (inside the window, not before the
    first node of the chunk, at a non-empty list), whatever the codes (= cost function),
    the starting node and the graph. *)
Definition S_greedy_valid : Prop := forall p cs start g,
  valid_sel p [] g (greedy_sel p cs start g) = true.

(** ... and never builds a reference chain deeper than [max_ref]. *)
Definition S_greedy_depth : Prop := forall p cs start g m,
  max_ref p = Some m ->
  Forall (fun d => d <= m) (depths (greedy_sel p cs start g)).

(** Same for the Zuckerli-style selector, for every chunk size. *)
Definition S_zuck_valid : Prop := forall p cs k start g,
  valid_sel p [] g (zuck_sel p cs k start g) = true.

Definition S_zuck_depth : Prop := forall p cs k start g m,
  max_ref p = Some m ->
  Forall (fun d => d <= m) (depths (zuck_sel p cs k start g)).

(** * The greedy rule under an arbitrary tie-break ([greedy_run_ok])

    [greedy_run_ok p cs start g sel] accepts exactly the selections in which every node
    either takes no reference while no admissible candidate is strictly cheaper than the
    copy-less encoding, or takes an admissible candidate that is strictly cheaper than the
    copy-less encoding and of minimal cost among the admissible candidates — the outputs of
    the greedy rule for every way of breaking ties among equally cheap candidates. *)

(** the deterministic model (nearest candidate of minimal cost) is one of the runs *)
Definition S_greedy_sel_run_ok : Prop := forall p cs start g,
  greedy_run_ok p cs start g (greedy_sel p cs start g) = true.

(** every run only picks valid references ... *)
Definition S_greedy_run_valid : Prop := forall p cs start g sel,
  greedy_run_ok p cs start g sel = true -> valid_sel p [] g sel = true.

(** ... and never builds a reference chain deeper than [max_ref] *)
Definition S_greedy_run_depth : Prop := forall p cs start g sel m,
  greedy_run_ok p cs start g sel = true ->
  max_ref p = Some m ->
  Forall (fun d => d <= m) (depths sel).

(** What one step of the checker accepts, without reference to the scan: [admissible] are the
    candidates [BvComp::push] estimates (distance within the window and the nodes pushed so
    far, count below [max_ref], non-empty list), [cand_cost] the model's estimate. *)
Definition admissible (p : params) (prev : list (list N * N)) (d : N) (rl : list N) (cnt : N)
  : Prop :=
  1 <= d /\ d <= window p /\ d <= nlen prev /\
  nth_opt prev (N.to_nat d - 1) = Some (rl, cnt) /\ rl <> [] /\
  exceeds (max_ref p) cnt = false.

Definition cand_cost (p : params) (cs : codes) (x : N) (cur : list N) (d : N) (rl : list N) : N :=
  fields_len cs (node_fields p x cur d rl).

Definition S_greedy_choice_ok_spec : Prop := forall p cs x cur prev d c,
  greedy_choice_ok p cs x cur prev d = Some c <->
  if window p =? 0 then d = 0 /\ c = 0
  else
    (d = 0 /\ c = 0 /\
     forall d' rl' cnt', admissible p prev d' rl' cnt' ->
                         cand_cost p cs x cur 0 [] <= cand_cost p cs x cur d' rl') \/
    (exists rl cnt,
       admissible p prev d rl cnt /\ c = cnt + 1 /\
       cand_cost p cs x cur d rl < cand_cost p cs x cur 0 [] /\
       forall d' rl' cnt', admissible p prev d' rl' cnt' ->
                           cand_cost p cs x cur d rl <= cand_cost p cs x cur d' rl').
