(** Pinned statements of the codec theorems (C01, C02, C04, C06).  This file contains
    statements only, as [Definition ... : Prop]; the proofs are in the *Facts files and
    the property files check [proof : statement]. *)
From WG Require Import Base.Prelude Codes.Codes BV.Model BV.RefSel.
Local Open Scope N_scope.

(** [Reads rd s fs s']: reading, in order, the kinds of the fields [fs] from reader state
    [s] yields exactly their values and ends in [s']. *)
Inductive Reads {St : Type} (rd : kind -> St -> option (N * St)) : St -> list field -> St -> Prop :=
| Reads_nil : forall s, Reads rd s [] s
| Reads_cons : forall s k v s1 fs s',
    rd k s = Some (v, s1) -> Reads rd s1 fs s' -> Reads rd s ((k, v) :: fs) s'.

Definition S_to_int_to_nat : Prop := forall z, to_int (to_nat z) = z.

(** the copy-block decomposition reassembles the current list, for *any* two lists *)
Definition S_copy_perm : Prop := forall cur ref b e,
  diff_comp cur ref = (b, e) -> Permutation (mask true b ref ++ e) cur.

(** blocks never overrun the reference list; every block after the first is >= 1 *)
Definition S_blocks_wf : Prop := forall cur ref b e,
  diff_comp cur ref = (b, e) ->
  nsum b <= nlen ref /\ Forall (fun x => 1 <= x) (tl b).

(** intervals + residuals reassemble the extras (a strictly increasing list) *)
Definition S_intervalize_perm : Prop := forall L l is rs,
  inc l -> intervalize (length l) L l = (is, rs) ->
  Permutation (expand_ints is ++ rs) l.

(** every interval is at least [max L 2] long *)
Definition S_intervalize_minlen : Prop := forall L l is rs,
  intervalize (length l) L l = (is, rs) ->
  Forall (fun '(_, len) => L <= len /\ 2 <= len) is.

(** one node: decoding what [node_fields] wrote gives back the list, whatever the
    reader, whatever the reference (any distance [d <= x] whose list the decoder can look
    up), for every window, min interval length and strictly increasing list *)
Definition S_node_roundtrip : Prop :=
  forall (St : Type) (rd : kind -> St -> option (N * St)) p x cur d rl lookup s s',
  inc cur ->
  (window p = 0 -> d = 0) ->
  (d <> 0 -> d <= x /\ lookup d = Some rl) ->
  Reads rd s (node_fields p x cur d rl) s' ->
  decode_node St rd p x lookup s = Some (cur, s').

(** whole graph, sequential decoder with a window-limited lookup, any valid selector *)
Definition S_graph_roundtrip : Prop :=
  forall (St : Type) (rd : kind -> St -> option (N * St)) p g sel s s',
  Forall inc g ->
  valid_sel p [] g sel = true ->
  Reads rd s (concat (encode_graph p 0 g sel)) s' ->
  decode_graph St rd p (length g) s = Some (g, s').

(** the field reader reads back any field list *)
Definition S_reads_fields : Prop := forall fs rest, Reads rd_fields (fs ++ rest) fs rest.
