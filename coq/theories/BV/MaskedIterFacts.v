(** Proofs of the pinned statements about the index-level models of [MaskedIter] and [Succ]
    (BV/MaskedIterStatements.v), part of C03. *)
From WG Require Import Base.Prelude Codes.Codes Codes.Statements Codes.CodesFacts
  BV.Model BV.RefSel BV.Statements BV.CompFacts BV.NodeFacts BV.GraphFacts BV.Bits
  BV.BitsFacts BV.OffsetsFacts BV.WfFacts BV.GreedyFacts BV.Access BV.MergeFacts
  BV.AccessStatements BV.AccessFacts BV.MaskedIter BV.MaskedIterStatements.
From Coq Require Import ZifyBool ZifyN ZifyNat.
Local Open Scope N_scope.

(** * Lists *)

Lemma skipn_cons_nth {A} : forall (l : list A) i a r,
  skipn i l = a :: r ->
  nth_opt l i = Some a /\ skipn (S i) l = r /\ length l = (i + S (length r))%nat.
Proof.
  induction l as [|h l IH]; intros [|i] a r H; cbn [skipn nth_opt length] in *;
    try discriminate.
  - injection H as -> ->. repeat split; reflexivity.
  - destruct (IH i a r H) as (H1 & H2 & H3). repeat split; [exact H1|exact H2|lia].
Qed.

Lemma skipn_set_nth {A} : forall (l : list A) i v a r,
  skipn i l = a :: r -> skipn i (set_nth l i v) = v :: r.
Proof.
  induction l as [|h l IH]; intros [|i] v a r H; cbn [skipn set_nth] in *;
    try discriminate.
  - injection H as _ ->. reflexivity.
  - eapply IH, H.
Qed.

Lemma nlen_skipn {A} n (l : list A) : nlen (skipn n l) = nlen l - N.of_nat n.
Proof. unfold nlen. rewrite skipn_length. lia. Qed.

Lemma even_S n : Nat.even (S n) = negb (Nat.even n).
Proof. rewrite Nat.even_succ. unfold Nat.odd. reflexivity. Qed.

(** * [mask] *)

Lemma mask_true_step (cur : N) rest (x : N) p :
  1 <= cur -> mask true (cur :: rest) (x :: p) = x :: mask true ((cur - 1) :: rest) p.
Proof.
  intros H. cbn [mask negb].
  replace (N.to_nat cur) with (S (N.to_nat (cur - 1))) by lia.
  cbn [firstn skipn app]. reflexivity.
Qed.

(** appending the remainder as an explicit block does not change what is kept *)
Lemma mask_app_rem {A} : forall bs c (l : list A),
  nsum bs <= nlen l -> mask c (bs ++ [nlen l - nsum bs]) l = mask c bs l.
Proof.
  induction bs as [|b bs IH]; intros c l H; cbn [app mask nsum] in *.
  - rewrite N.sub_0_r. unfold nlen. rewrite Nat2N.id, firstn_all, skipn_all.
    destruct c; cbn [negb]; [apply app_nil_r|reflexivity].
  - f_equal.
    replace (nlen l - (b + nsum bs)) with (nlen (skipn (N.to_nat b) l) - nsum bs)
      by (rewrite nlen_skipn; lia).
    apply IH. rewrite nlen_skipn. lia.
Qed.

(** the length of what is kept, as [MaskedIter::new] computes it *)
Lemma mask_len {A} : forall bs c (l : list A),
  nsum bs <= nlen l ->
  nlen (mask c bs l)
  = even_sum c bs + (if (if Nat.even (length bs) then c else negb c)
                     then nlen l - nsum bs else 0).
Proof.
  induction bs as [|b bs IH]; intros c l H; cbn [mask even_sum nsum length] in *.
  - cbn [Nat.even]. destruct c; [lia|rewrite nlen_nil; lia].
  - rewrite nlen_app, IH by (rewrite nlen_skipn; lia).
    rewrite nlen_skipn, even_S.
    assert (Hf : nlen (if c then firstn (N.to_nat b) l else []) = if c then b else 0).
    { destruct c; [|apply nlen_nil]. unfold nlen in *. rewrite firstn_length. lia. }
    rewrite Hf.
    destruct (Nat.even (length bs)); cbn [negb]; destruct c; cbn [negb]; lia.
Qed.

(** * The invariant of [MaskedIter] *)

(** the state still yields [D]: the cursor is on a copy block, an even number of blocks
    (skip, copy, ...) follows it, all at least 1, within the parent *)
Definition mi_inv (it : mi) (D : list N) : Prop :=
  exists cur rest,
    skipn (mi_idx it) (mi_blocks it) = cur :: rest /\
    Nat.even (length rest) = true /\
    Forall (fun b => 1 <= b) rest /\
    nsum (cur :: rest) <= nlen (mi_parent it) /\
    D = mask true (cur :: rest) (mi_parent it).

Lemma mi_finish_ok it cur rest x p :
  skipn (mi_idx it) (mi_blocks it) = cur :: rest -> 1 <= cur -> mi_parent it = x :: p ->
  mi_finish it
  = MOk (Some x, mkMi p (set_nth (mi_blocks it) (mi_idx it) (cur - 1)) (mi_idx it) (mi_size it)).
Proof.
  intros Hs Hc Hp. unfold mi_finish.
  destruct (skipn_cons_nth _ _ _ _ Hs) as (Hn & _ & _). rewrite Hn, Hp.
  destruct (cur =? 0) eqn:E; [apply N.eqb_eq in E; lia|]. reflexivity.
Qed.

Lemma mi_next_inv dbg it D :
  mi_inv it D ->
  match D with
  | [] => exists it', mi_next dbg it = MOk (None, it')
  | x :: D' => exists it', mi_next dbg it = MOk (Some x, it') /\ mi_inv it' D'
  end.
Proof.
  intros (cur & rest & Hs & Hev & Hpos & Hsum & HD).
  destruct (skipn_cons_nth _ _ _ _ Hs) as (Hn & Hs1 & Hlen).
  unfold mi_next.
  replace (Nat.ltb (length (mi_blocks it)) (mi_idx it)) with false
    by (symmetry; apply Nat.ltb_ge; lia).
  rewrite andb_false_r, Hn.
  destruct (cur =? 0) eqn:Ec.
  - apply N.eqb_eq in Ec. subst cur. rewrite mask_zero in HD. cbn [negb] in HD.
    destruct rest as [|sk [|cur2 rest2]]; [| cbn in Hev; discriminate |].
    + cbn [mask] in HD. subst D.
      replace (Nat.leb (length (mi_blocks it)) (S (mi_idx it))) with true
        by (symmetry; apply Nat.leb_le; cbn [length] in Hlen; lia).
      eexists. reflexivity.
    + replace (Nat.leb (length (mi_blocks it)) (S (mi_idx it))) with false
        by (symmetry; apply Nat.leb_gt; cbn [length] in Hlen; lia).
      destruct (skipn_cons_nth _ _ _ _ Hs1) as (Hn1 & Hs2 & _). rewrite Hn1.
      destruct (skipn_cons_nth _ _ _ _ Hs2) as (Hn2 & _ & _). rewrite Hn2.
      pose proof (Forall_inv Hpos) as Hsk. pose proof (Forall_inv_tail Hpos) as Hpos'.
      pose proof (Forall_inv Hpos') as Hc2. pose proof (Forall_inv_tail Hpos') as Hpos''.
      cbn beta in Hsk, Hc2.
      cbn [nsum] in Hsum.
      destruct (sk =? 0) eqn:E1; [apply N.eqb_eq in E1; lia|].
      destruct (nlen (mi_parent it) <? sk) eqn:E2; [apply N.ltb_lt in E2; lia|].
      destruct (cur2 =? 0) eqn:E3; [apply N.eqb_eq in E3; lia|].
      rewrite !andb_false_r.
      cbn [mask negb app] in *.
      remember (skipn (N.to_nat sk) (mi_parent it)) as parent' eqn:Ep'.
      assert (Hl' : nlen parent' = nlen (mi_parent it) - sk).
      { rewrite Ep'. rewrite nlen_skipn. lia. }
      destruct parent' as [|x p'].
      { rewrite nlen_nil in Hl'. lia. }
      change (firstn (N.to_nat cur2) (x :: p') ++ mask false rest2 (skipn (N.to_nat cur2) (x :: p')))
        with (mask true (cur2 :: rest2) (x :: p')) in HD.
      rewrite mask_true_step in HD by exact Hc2. subst D.
      eexists. split.
      * apply (mi_finish_ok (mkMi (x :: p') (mi_blocks it) (S (S (mi_idx it))) (mi_size it))
                 cur2 rest2 x p'); [exact Hs2|exact Hc2|reflexivity].
      * exists (cur2 - 1), rest2. cbn [mi_idx mi_blocks mi_parent].
        split; [eapply skipn_set_nth, Hs2|].
        cbn [length Nat.even] in Hev.
        split; [exact Hev|]. split; [exact Hpos''|]. split; [|reflexivity].
        cbn [nsum]. rewrite nlen_cons in Hl'. lia.
  - apply N.eqb_neq in Ec.
    destruct (mi_parent it) as [|x p'] eqn:Ep.
    { rewrite nlen_nil in Hsum. cbn [nsum] in Hsum. lia. }
    rewrite mask_true_step in HD by lia. subst D.
    eexists. split.
    + apply (mi_finish_ok it cur rest x p'); [exact Hs|lia|exact Ep].
    + exists (cur - 1), rest. cbn [mi_idx mi_blocks mi_parent].
      split; [eapply skipn_set_nth, Hs|].
      split; [exact Hev|]. split; [exact Hpos|]. split; [|reflexivity].
      cbn [nsum] in *. rewrite nlen_cons in Hsum. lia.
Qed.

Lemma mi_run_inv dbg : forall D fuel it,
  mi_inv it D -> (length D < fuel)%nat -> mi_run dbg fuel it = MOk D.
Proof.
  induction D as [|x D IH]; intros fuel it Hinv Hf; (destruct fuel as [|f]; [cbn in Hf; lia|]);
    cbn [mi_run]; pose proof (mi_next_inv dbg it _ Hinv) as H.
  - destruct H as (it' & ->). reflexivity.
  - destruct H as (it' & -> & Hinv'). rewrite (IH f it' Hinv') by (cbn in Hf; lia). reflexivity.
Qed.

Lemma mi_new_inv l bs :
  mi_ok bs l ->
  exists it, mi_new l bs = MOk it /\ mi_inv it (mask true bs l) /\
             mi_len it = nlen (mask true bs l) /\ mi_parent it = l.
Proof.
  intros (Hsum & Hpos & Hev). unfold mi_new.
  destruct (nlen l <? nsum bs) eqn:E; [apply N.ltb_lt in E; lia|]. clear E.
  pose proof (mask_len bs true l Hsum) as Hlen.
  destruct (Nat.even (length bs)) eqn:Ee.
  - specialize (Hev eq_refl).
    destruct (nlen l - nsum bs =? 0) eqn:Er; [apply N.eqb_eq in Er; lia|]. clear Er.
    cbn [negb andb].
    eexists. split; [reflexivity|]. unfold mi_len. cbn [mi_size mi_parent].
    split; [|split; [symmetry; exact Hlen|reflexivity]].
    rewrite <- (mask_app_rem bs true l Hsum).
    destruct bs as [|b bs'].
    + exists (nlen l - nsum []), []. cbn [mi_idx mi_blocks mi_parent skipn app].
      repeat split; [constructor|]. cbn [nsum] in *. lia.
    + exists b, (bs' ++ [nlen l - nsum (b :: bs')]).
      cbn [mi_idx mi_blocks mi_parent skipn app].
      split; [reflexivity|]. split.
      * rewrite app_length, Nat.add_comm. cbn [length Nat.add]. cbn [length] in Ee.
        rewrite even_S in *. destruct (Nat.even (length bs')); [discriminate|reflexivity].
      * split; [apply Forall_app; split; [exact Hpos|constructor; [lia|constructor]]|].
        split; [|reflexivity].
        cbn [nsum]. assert (Ha : forall a b, nsum (a ++ [b]) = nsum a + b).
        { induction a as [|y a IHa]; intros; cbn [app nsum]; [lia|rewrite IHa; lia]. }
        rewrite Ha. cbn [nsum] in *. lia.
  - rewrite andb_false_r.
    eexists. split; [reflexivity|]. unfold mi_len. cbn [mi_size mi_parent].
    split; [|split; [cbn [negb] in Hlen; lia|reflexivity]].
    destruct bs as [|b bs']; [cbn in Ee; discriminate|].
    exists b, bs'. cbn [mi_idx mi_blocks mi_parent skipn].
    split; [reflexivity|]. cbn [length] in Ee. rewrite even_S in Ee.
    split; [destruct (Nat.even (length bs')); [reflexivity|discriminate]|].
    split; [exact Hpos|]. split; [exact Hsum|reflexivity].
Qed.

Lemma mask_length_le {A} : forall bs c (l : list A), (length (mask c bs l) <= length l)%nat.
Proof.
  induction bs as [|b bs IH]; intros c l; cbn [mask].
  - destruct c; cbn [length]; lia.
  - rewrite app_length. specialize (IH (negb c) (skipn (N.to_nat b) l)).
    rewrite skipn_length in IH.
    destruct c; cbn [length]; [rewrite firstn_length|]; lia.
Qed.

Theorem masked_iter_denotes : S_masked_iter_denotes.
Proof.
  intros dbg l bs Hok. unfold mi_collect.
  destruct (mi_new_inv l bs Hok) as (it & -> & Hinv & Hlen & _).
  rewrite (mi_run_inv dbg _ _ _ Hinv) by (pose proof (mask_length_le bs true l); lia).
  rewrite Hlen. reflexivity.
Qed.

Theorem masked_iter_needs_tail : S_masked_iter_needs_tail.
Proof.
  exists [1; 2; 3; 4; 5], [2; 3].
  split; [discriminate|]. split; [vm_compute; discriminate|].
  split; [repeat constructor; lia|]. split; [reflexivity|].
  intros [|]; vm_compute; reflexivity.
Qed.

(** * The compressor's blocks *)

Lemma inc_head_length b : length (inc_head b) = length b.
Proof. destruct b; reflexivity. Qed.

(** if the last explicit block is a skip block, something is left after it *)
Lemma diff_rec_tail : forall fuel cur ref c b e,
  diff_rec fuel cur ref c = (b, e) -> b <> [] ->
  (if Nat.even (length b) then negb c else c) = false -> nsum b < nlen ref.
Proof.
  induction fuel as [|fuel IH]; intros cur ref c b e H Hne Hm; cbn [diff_rec] in H.
  - injection H as <- <-. congruence.
  - destruct cur as [|x cs]; destruct ref as [|r rs].
    + injection H as <- <-. congruence.
    + injection H as <- <-. destruct c; [cbn in Hm; discriminate|congruence].
    + injection H as <- <-. congruence.
    + rewrite nlen_cons. destruct c.
      * destruct (r <? x).
        -- destruct (diff_rec fuel (x :: cs) (r :: rs) false) as [b' e'] eqn:Hd.
           injection H as <- <-. cbn [length] in Hm. rewrite even_S in Hm. cbn [nsum].
           destruct b' as [|y b'']; [cbn in Hm; discriminate|].
           apply IH in Hd; [rewrite nlen_cons in Hd; lia|discriminate|].
           destruct (Nat.even (length (y :: b''))); cbn [negb] in *; congruence.
        -- destruct (x <? r).
           ++ destruct (diff_rec fuel cs (r :: rs) true) as [b' e'] eqn:Hd.
              injection H as <- <-.
              apply IH in Hd; [rewrite nlen_cons in Hd; lia|exact Hne|exact Hm].
           ++ destruct (diff_rec fuel cs rs true) as [b' e'] eqn:Hd.
              injection H as <- <-. rewrite inc_head_length in Hm.
              pose proof (nsum_inc_head b') as Hi.
              apply IH in Hd; [lia| |exact Hm].
              intros ->. apply Hne. reflexivity.
      * destruct (r <? x).
        -- destruct (diff_rec fuel (x :: cs) rs false) as [b' e'] eqn:Hd.
           injection H as <- <-. rewrite inc_head_length in Hm.
           pose proof (nsum_inc_head b') as Hi.
           apply IH in Hd; [lia| |exact Hm].
           intros ->. apply Hne. reflexivity.
        -- destruct (x <? r).
           ++ destruct (diff_rec fuel cs (r :: rs) false) as [b' e'] eqn:Hd.
              injection H as <- <-.
              apply IH in Hd; [rewrite nlen_cons in Hd; lia|exact Hne|exact Hm].
           ++ destruct (diff_rec fuel (x :: cs) (r :: rs) true) as [b' e'] eqn:Hd.
              injection H as <- <-. cbn [length] in Hm. rewrite even_S in Hm. cbn [nsum].
              destruct b' as [|y b'']; [cbn [nsum]; lia|].
              apply IH in Hd; [rewrite nlen_cons in Hd; lia|discriminate|].
              destruct (Nat.even (length (y :: b''))); cbn [negb] in *; congruence.
Qed.

Theorem diff_blocks_ok : S_diff_blocks_ok.
Proof.
  intros cur rl b e Hne H.
  destruct (blocks_wf cur rl b e H) as [H1 H2].
  split; [exact H1|]. split; [exact H2|]. intros Hev.
  destruct b as [|y b'].
  - cbn [nsum]. destruct rl; [congruence|]. rewrite nlen_cons. lia.
  - unfold diff_comp in H. eapply diff_rec_tail; [exact H|discriminate|].
    rewrite Hev. reflexivity.
Qed.

Theorem masked_iter_total : S_masked_iter_total.
Proof.
  intros dbg cur rl b e Hne H. apply masked_iter_denotes.
  eapply diff_blocks_ok; eassumption.
Qed.

(** * [Succ] *)

Lemma usize_max_ge : 2 <= usize_max.
Proof. unfold usize_max. lia. Qed.

Definition below (l : list N) : Prop := Forall (fun y => y < usize_max - 1) l.

Definition cop_inv (cop : option mi) (nc : N) (a : list N) : Prop :=
  match a with
  | [] => nc = usize_max
  | x :: a' => nc = x /\ exists it, cop = Some it /\ mi_inv it a'
  end.

Definition res_inv (togo : N) (gaps : list N) (nr : N) (c : list N) : Prop :=
  match c with
  | [] => nr = usize_max
  | z :: c' => nr = z /\ togo = nlen c' /\ gaps = res_gaps z c' /\ inc (z :: c')
  end.

Definition int_inv (iv : list (N * N)) (i : nat) (ni : N) (b : list N) : Prop :=
  (iv = [] /\ ni = usize_max /\ b = []) \/
  (ni :: expand_ints (skipn i iv) = b ++ [usize_max - 1] /\
   Forall (fun e : N * N => 1 <= snd e) (skipn i iv)).

Definition sinv (s : succ_st) (a b c : list N) : Prop :=
  s_size s = nlen a + nlen b + nlen c /\
  cop_inv (s_copied s) (s_next_copied s) a /\
  int_inv (s_intervals s) (s_iidx s) (s_next_int s) b /\
  res_inv (s_res_to_go s) (s_gaps s) (s_next_res s) c /\
  below a /\ below b /\ below c.

Lemma int_advance_ok asrt iv i :
  expand_ints (skipn i iv) <> [] ->
  Forall (fun e : N * N => 1 <= snd e) (skipn i iv) ->
  exists ni iv' i',
    int_advance asrt iv i = MOk (ni, iv', i') /\
    ni :: expand_ints (skipn i' iv') = expand_ints (skipn i iv) /\
    Forall (fun e : N * N => 1 <= snd e) (skipn i' iv').
Proof.
  intros Hne Hpos.
  destruct (skipn i iv) as [|[start len] rest] eqn:Hs; [cbn in Hne; congruence|].
  pose proof (Forall_inv Hpos) as Hl. cbn [snd] in Hl.
  pose proof (Forall_inv_tail Hpos) as Hrest.
  destruct (skipn_cons_nth _ _ _ _ Hs) as (Hn & _ & _).
  unfold int_advance. rewrite Hn.
  destruct (len =? 0) eqn:E; [apply N.eqb_eq in E; lia|]. clear E.
  pose proof (skipn_set_nth iv i (start + 1, len - 1) _ _ Hs) as Hs'.
  rewrite expand_ints_cons.
  replace (N.to_nat len) with (S (N.to_nat (len - 1))) by lia. cbn [nseq app].
  destruct (len - 1 =? 0) eqn:E.
  - apply N.eqb_eq in E. rewrite E in *.
    destruct (skipn_cons_nth _ _ _ _ Hs') as (_ & Hs2 & _).
    do 3 eexists. split; [reflexivity|]. rewrite Hs2.
    change (N.to_nat 0) with O. cbn [nseq app]. split; [reflexivity|exact Hrest].
  - apply N.eqb_neq in E.
    do 3 eexists. split; [reflexivity|]. rewrite Hs', expand_ints_cons.
    split; [reflexivity|]. constructor; [cbn [snd]; lia|exact Hrest].
Qed.

(** what the cached nodes are, in terms of the heads of the streams *)
Lemma sinv_heads s a b c :
  sinv s a b c ->
  (match a with [] => s_next_copied s = usize_max
              | x :: _ => s_next_copied s = x /\ x < usize_max - 1 end) /\
  (match b with [] => s_next_int s = usize_max \/ s_next_int s = usize_max - 1
              | y :: _ => s_next_int s = y /\ y < usize_max - 1 end) /\
  (match c with [] => s_next_res s = usize_max
              | z :: _ => s_next_res s = z /\ z < usize_max - 1 end).
Proof.
  intros (_ & Ha & Hb & Hc & Ba & Bb & Bc). split; [|split].
  - destruct a as [|x a']; cbn [cop_inv] in Ha; [exact Ha|].
    destruct Ha as [Ha _]. split; [exact Ha|]. apply (Forall_inv Ba).
  - destruct Hb as [(_ & Hn & ->)|(He & _)]; [left; exact Hn|].
    destruct b as [|y b']; cbn [app] in He.
    + right. congruence.
    + split; [congruence|]. apply (Forall_inv Bb).
  - destruct c as [|z c']; cbn [res_inv] in Hc; [exact Hc|].
    destruct Hc as [Hc _]. split; [exact Hc|]. apply (Forall_inv Bc).
Qed.

Lemma choice1 s a b c :
  sinv s a b c -> a ++ b ++ c <> [] ->
  (s_next_copied s <=? N.min (s_next_res s) (s_next_int s))
  = ole (hd_opt a) (hd_opt b) && ole (hd_opt a) (hd_opt c).
Proof.
  intros H Hne. destruct (sinv_heads _ _ _ _ H) as (Ha & Hb & Hc).
  pose proof usize_max_ge as Hu.
  destruct a as [|x a']; destruct b as [|y b']; destruct c as [|z c'];
    cbn [hd_opt ole andb]; try (cbn in Hne; congruence); lia.
Qed.

Lemma choice2 s a b c :
  sinv s a b c -> b ++ c <> [] ->
  (N.min (s_next_res s) (s_next_int s) =? s_next_res s) = ole (hd_opt c) (hd_opt b).
Proof.
  intros H Hne. destruct (sinv_heads _ _ _ _ H) as (Ha & Hb & Hc).
  pose proof usize_max_ge as Hu.
  destruct b as [|y b']; destruct c as [|z c'];
    cbn [hd_opt ole]; try (cbn in Hne; congruence); lia.
Qed.

Lemma step_a dbg s x a' b c :
  sinv s (x :: a') b c ->
  (s_next_copied s <=? N.min (s_next_res s) (s_next_int s)) = true ->
  exists s', succ_next dbg s = MOk (Some x, s') /\ sinv s' a' b c.
Proof.
  intros H Hc1. destruct (sinv_heads _ _ _ _ H) as ((Hx & Hxb) & _ & _).
  destruct H as (Hsz & Ha & Hb & Hc & Ba & Bb & Bc).
  pose proof usize_max_ge as Hu. unfold succ_next.
  destruct (s_size s =? 0) eqn:E0; [apply N.eqb_eq in E0; rewrite nlen_cons in Hsz; lia|].
  assert (E : (s_next_copied s =? usize_max) = false) by lia.
  rewrite E, ?andb_false_r. cbn [andb]. rewrite Hc1.
  cbn [cop_inv] in Ha. destruct Ha as (_ & it & Hcop & Hinv). rewrite Hcop.
  unfold fetch_copied. pose proof (mi_next_inv dbg it a' Hinv) as Hn.
  rewrite nlen_cons in Hsz. pose proof (Forall_inv_tail Ba) as Ba'.
  destruct a' as [|x' a''].
  - destruct Hn as (it' & ->). rewrite Hx. eexists. split; [reflexivity|].
    unfold sinv. cbn [s_size s_copied s_next_copied s_intervals s_iidx s_next_int
                      s_res_to_go s_gaps s_next_res cop_inv].
    repeat split; try assumption. all: rewrite ?nlen_nil in *. all: lia.
  - destruct Hn as (it' & -> & Hinv'). rewrite Hx. eexists. split; [reflexivity|].
    unfold sinv. cbn [s_size s_copied s_next_copied s_intervals s_iidx s_next_int
                      s_res_to_go s_gaps s_next_res cop_inv].
    repeat split; try assumption; [lia|]. exists it'. split; [reflexivity|exact Hinv'].
Qed.

Lemma step_c dbg s a b z c' :
  sinv s a b (z :: c') ->
  (s_next_copied s <=? N.min (s_next_res s) (s_next_int s)) = false ->
  (N.min (s_next_res s) (s_next_int s) =? s_next_res s) = true ->
  exists s', succ_next dbg s = MOk (Some z, s') /\ sinv s' a b c'.
Proof.
  intros H Hc1 Hc2. destruct (sinv_heads _ _ _ _ H) as (_ & _ & (Hz & Hzb)).
  destruct H as (Hsz & Ha & Hb & Hc & Ba & Bb & Bc).
  pose proof usize_max_ge as Hu. unfold succ_next.
  destruct (s_size s =? 0) eqn:E0; [apply N.eqb_eq in E0; rewrite nlen_cons in Hsz; lia|].
  assert (E : (s_next_res s =? usize_max) = false) by lia.
  rewrite E, ?andb_false_r. cbn [andb]. rewrite Hc1, Hc2.
  assert (Em : N.min (s_next_res s) (s_next_int s) = z) by lia. rewrite Em.
  cbn [res_inv] in Hc. destruct Hc as (_ & Htg & Hg & Hinc).
  rewrite nlen_cons in Hsz. pose proof (Forall_inv_tail Bc) as Bc'.
  destruct c' as [|z' c''].
  - rewrite nlen_nil in Htg. rewrite Htg. change (0 =? 0) with true. cbn iota.
    eexists. split; [reflexivity|].
    unfold sinv. cbn [s_size s_copied s_next_copied s_intervals s_iidx s_next_int
                      s_res_to_go s_gaps s_next_res res_inv].
    repeat split; try assumption. all: rewrite ?nlen_nil in *. all: lia.
  - rewrite nlen_cons in Htg.
    destruct (s_res_to_go s =? 0) eqn:Et; [apply N.eqb_eq in Et; lia|].
    cbn [res_gaps] in Hg. rewrite Hg.
    eexists. split; [reflexivity|].
    apply StronglySorted_inv in Hinc. destruct Hinc as [Hinc' Hlt].
    pose proof (Forall_inv Hlt) as Hzz. cbn beta in Hzz.
    unfold sinv. cbn [s_size s_copied s_next_copied s_intervals s_iidx s_next_int
                      s_res_to_go s_gaps s_next_res res_inv].
    rewrite ?nlen_cons in *.
    repeat split; try assumption; lia.
Qed.

Lemma step_b dbg s a y b' c :
  sinv s a (y :: b') c ->
  (s_next_copied s <=? N.min (s_next_res s) (s_next_int s)) = false ->
  (N.min (s_next_res s) (s_next_int s) =? s_next_res s) = false ->
  exists s', succ_next dbg s = MOk (Some y, s') /\ sinv s' a b' c.
Proof.
  intros H Hc1 Hc2. destruct (sinv_heads _ _ _ _ H) as (_ & (Hy & Hyb) & _).
  destruct H as (Hsz & Ha & Hb & Hc & Ba & Bb & Bc).
  pose proof usize_max_ge as Hu. unfold succ_next.
  destruct (s_size s =? 0) eqn:E0; [apply N.eqb_eq in E0; rewrite nlen_cons in Hsz; lia|].
  assert (E : (s_next_int s =? usize_max) = false) by lia.
  rewrite E, ?andb_false_r. cbn [andb]. rewrite Hc1, Hc2.
  assert (Em : N.min (s_next_res s) (s_next_int s) = y) by lia. rewrite Em.
  destruct Hb as [(_ & _ & Hb)|(He & Hpos)]; [discriminate|].
  cbn [app] in He. injection He as _ He.
  destruct (int_advance_ok dbg (s_intervals s) (s_iidx s)) as (ni & iv' & i' & Hadv & Hexp & Hpos').
  { rewrite He. destruct b'; discriminate. }
  { exact Hpos. }
  rewrite Hadv. eexists. split; [reflexivity|].
  rewrite nlen_cons in Hsz. pose proof (Forall_inv_tail Bb) as Bb'.
  unfold sinv. cbn [s_size s_copied s_next_copied s_intervals s_iidx s_next_int
                    s_res_to_go s_gaps s_next_res].
  repeat split; try assumption; [lia|].
  right. split; [rewrite Hexp; exact He|exact Hpos'].
Qed.

Lemma succ_run_sinv dbg : forall n s a b c,
  sinv s a b c -> (length a + length b + length c = n)%nat ->
  succ_run dbg (S n) s = MOk (merge3 n a b c).
Proof.
  induction n as [|n IH]; intros s a b c H Hn.
  - destruct a; destruct b; destruct c; cbn [length] in Hn; try lia.
    destruct H as (Hsz & _). rewrite !(@nlen_nil N) in Hsz.
    cbn [succ_run merge3]. unfold succ_next.
    replace (s_size s =? 0) with true by (symmetry; apply N.eqb_eq; lia). reflexivity.
  - assert (Hne : a ++ b ++ c <> []).
    { destruct a; destruct b; destruct c; cbn [length] in Hn; try lia; discriminate. }
    cbn [merge3]. change (succ_run dbg (S (S n)) s) with
      (match succ_next dbg s with
       | MErr e => MErr e
       | MOk (None, _) => MOk []
       | MOk (Some x, s') =>
         match succ_run dbg (S n) s' with MOk l => MOk (x :: l) | MErr e => MErr e end
       end).
    rewrite <- (choice1 s a b c H Hne).
    destruct (s_next_copied s <=? N.min (s_next_res s) (s_next_int s)) eqn:E1.
    + destruct a as [|x a'].
      { rewrite (choice1 s [] b c H Hne) in E1. cbn in E1. discriminate. }
      destruct (step_a dbg s x a' b c H E1) as (s' & -> & H').
      rewrite (IH s' a' b c H') by (cbn [length] in Hn; lia). reflexivity.
    + assert (Hne2 : b ++ c <> []).
      { destruct b; destruct c; try discriminate.
        rewrite (choice1 s a [] [] H Hne) in E1. destruct a; [exfalso; apply Hne; reflexivity|cbn in E1; discriminate]. }
      rewrite <- (choice2 s a b c H Hne2).
      destruct (N.min (s_next_res s) (s_next_int s) =? s_next_res s) eqn:E2.
      * destruct c as [|z c'].
        { rewrite (choice2 s a b [] H Hne2) in E2. cbn in E2. discriminate. }
        destruct (step_c dbg s a b z c' H E1 E2) as (s' & -> & H').
        rewrite (IH s' a b c' H') by (cbn [length] in Hn; lia). reflexivity.
      * destruct b as [|y b'].
        { rewrite (choice2 s a [] c H Hne2) in E2.
          destruct c; [exfalso; apply Hne2; reflexivity|cbn in E2; discriminate]. }
        destruct (step_b dbg s a y b' c H E1 E2) as (s' & -> & H').
        rewrite (IH s' a b' c H') by (cbn [length] in Hn; lia). reflexivity.
Qed.

(** * The state that [labels] builds *)

Lemma expand_ints_app a b : expand_ints (a ++ b) = expand_ints a ++ expand_ints b.
Proof. unfold expand_ints. apply flat_map_app. Qed.

Lemma nlen_zero {A} (l : list A) : nlen l = 0 -> l = [].
Proof. destruct l; [reflexivity|]. rewrite nlen_cons. lia. Qed.

Lemma fetch_copied_inv dbg it D :
  mi_inv it D ->
  exists nc cop', fetch_copied dbg (Some it) = MOk (nc, cop') /\ cop_inv cop' nc D.
Proof.
  intros Hinv. unfold fetch_copied. pose proof (mi_next_inv dbg it D Hinv) as Hn.
  destruct D as [|x D'].
  - destruct Hn as (it' & ->). do 2 eexists. split; reflexivity.
  - destruct Hn as (it' & -> & Hinv'). do 2 eexists. split; [reflexivity|].
    split; [reflexivity|]. exists it'. split; [reflexivity|exact Hinv'].
Qed.

Lemma succ_setup_sinv dbg r cop :
  match cop with
  | None => r_copied r = []
  | Some it => mi_inv it (r_copied r) /\ mi_len it = nlen (r_copied r)
  end ->
  below (r_copied r) -> below (expand_ints (r_ints r)) -> below (r_res r) ->
  Forall (fun i : N * N => 1 <= snd i) (r_ints r) ->
  inc (r_res r) ->
  r_outdeg r = nlen (r_copied r) + nlen (expand_ints (r_ints r)) + nlen (r_res r) ->
  exists s, succ_setup dbg r cop = MOk s /\
            sinv s (r_copied r) (expand_ints (r_ints r)) (r_res r).
Proof.
  intros Hcop Ba Bb Bc Hpos Hinc Hdeg. unfold succ_setup.
  assert (Hlen : match cop with Some it => mi_len it | None => 0 end = nlen (r_copied r)).
  { destruct cop as [it|]; [apply Hcop|rewrite Hcop; reflexivity]. }
  rewrite Hlen.
  destruct (r_outdeg r <? nlen (r_copied r)) eqn:E; [apply N.ltb_lt in E; lia|]. clear E.
  (* the first copied node *)
  assert (Hf : exists nc cop', fetch_copied dbg cop = MOk (nc, cop') /\
                               cop_inv cop' nc (r_copied r)).
  { destruct cop as [it|].
    - apply fetch_copied_inv, Hcop.
    - rewrite Hcop. do 2 eexists. split; reflexivity. }
  destruct Hf as (nc & cop' & Hf & Hci).
  (* the first interval node *)
  assert (Hi : exists ni iv' i',
    (match (match r_ints r with [] => [] | _ :: _ => r_ints r ++ [(usize_max - 1, 1)] end) with
     | [] => MOk (usize_max, (match r_ints r with [] => []
                                | _ :: _ => r_ints r ++ [(usize_max - 1, 1)] end), O)
     | _ :: _ => int_advance false
                   (match r_ints r with [] => [] | _ :: _ => r_ints r ++ [(usize_max - 1, 1)] end) 0
     end) = MOk (ni, iv', i') /\ int_inv iv' i' ni (expand_ints (r_ints r))).
  { destruct (r_ints r) as [|[st len] is] eqn:Ei.
    - do 3 eexists. split; [reflexivity|]. left. repeat split; reflexivity.
    - cbn [app].
      destruct (int_advance_ok false (((st, len) :: is) ++ [(usize_max - 1, 1)]) 0)
        as (ni & iv' & i' & Hadv & Hexp & Hpos').
      { cbn [skipn app]. rewrite expand_ints_cons.
        pose proof (Forall_inv Hpos) as Hl. cbn [snd] in Hl.
        replace (N.to_nat len) with (S (N.to_nat (len - 1))) by lia. discriminate. }
      { cbn [skipn]. apply Forall_app. split; [exact Hpos|].
        constructor; [cbn [snd]; lia|constructor]. }
      cbn [app] in Hadv. rewrite Hadv. do 3 eexists. split; [reflexivity|].
      right. split; [|exact Hpos'].
      rewrite Hexp. cbn [skipn]. rewrite expand_ints_app. reflexivity. }
  cbv zeta. destruct Hi as (ni & iv' & i' & -> & Hii). rewrite Hf.
  eexists. split; [reflexivity|].
  destruct (r_res r) as [|r0 rs] eqn:Er; unfold sinv;
    cbn [s_size s_copied s_next_copied s_intervals s_iidx s_next_int
         s_res_to_go s_gaps s_next_res res_inv];
    repeat split; assumption.
Qed.

Theorem succ_iter_denotes : S_succ_iter_denotes.
Proof.
  intros dbg rl r Hok Hcop Hbel Hpos Hinc Hdeg.
  apply Forall_app in Hbel. destruct Hbel as [Ba Hbel].
  apply Forall_app in Hbel. destruct Hbel as [Bb Bc].
  unfold succ_collect, record_succ_merge.
  assert (Hs : exists s, succ_of_record dbg rl r = MOk s /\
                         sinv s (r_copied r) (expand_ints (r_ints r)) (r_res r)).
  { unfold succ_of_record. destruct (r_outdeg r =? 0) eqn:E0.
    - apply N.eqb_eq in E0.
      assert (H1 : r_copied r = []) by (apply nlen_zero; lia).
      assert (H2 : expand_ints (r_ints r) = []) by (apply nlen_zero; lia).
      assert (H3 : r_res r = []) by (apply nlen_zero; lia).
      rewrite H1, H2, H3. eexists. split; [reflexivity|].
      unfold sinv, succ_empty.
      cbn [s_size s_copied s_next_copied s_intervals s_iidx s_next_int
           s_res_to_go s_gaps s_next_res res_inv cop_inv].
      split; [reflexivity|]. split; [reflexivity|].
      split; [left; repeat split; reflexivity|]. split; [reflexivity|].
      repeat split; constructor.
    - destruct (r_ref r =? 0) eqn:Er.
      + apply succ_setup_sinv; assumption.
      + apply N.eqb_neq in Er.
        destruct (mi_new_inv rl (r_blocks r) (Hok Er)) as (it & -> & Hinv & Hlen & _).
        apply succ_setup_sinv; try assumption. rewrite Hcop. split; assumption. }
  destruct Hs as (s & -> & Hs).
  apply succ_run_sinv; [exact Hs|reflexivity].
Qed.

(** * End to end: the encoder's records through the state machines *)

Lemma compress_blocks_ok L cur rl :
  cur <> [] -> rl <> [] -> mi_ok (c_blocks (compress L cur (Some rl))) rl.
Proof.
  intros Hc Hr. unfold compress. destruct cur as [|a cur']; [congruence|].
  destruct (diff_comp (a :: cur') rl) as [b e] eqn:Hd.
  destruct (L =? 0).
  - cbn [c_blocks]. eapply diff_blocks_ok; eassumption.
  - destruct (intervalize (length e) L e) as [is rs]. cbn [c_blocks].
    eapply diff_blocks_ok; eassumption.
Qed.

(** the record parsed from what [node_fields] wrote has everything [succ_iter_denotes]
    asks for, provided the referenced list is not empty (valid selections) *)
Lemma parse_record_sm (St : Type) (rd : kind -> St -> option (N * St))
  p x cur d rl lookup s s' :
  inc cur ->
  (window p = 0 -> d = 0) ->
  (d <> 0 -> d <= x /\ lookup d = Some rl /\ rl <> []) ->
  Reads rd s (node_fields p x cur d rl) s' ->
  exists r, parse_record St rd p x lookup s = Some (r, s') /\ record_succ r = cur /\
    (r_ref r = 0 \/ r_ref r = d) /\
    (r_ref r <> 0 -> mi_ok (r_blocks r) rl) /\
    r_copied r = (if r_ref r =? 0 then [] else mask true (r_blocks r) rl) /\
    Forall (fun i : N * N => 1 <= snd i) (r_ints r) /\ inc (r_res r) /\
    r_outdeg r = nlen (r_copied r) + nlen (expand_ints (r_ints r)) + nlen (r_res r).
Proof.
  intros Hinc Hw Hd H.
  unfold node_fields, write_node in H.
  apply Reads_cons_inv in H. destruct H as (s0 & Hr0 & H).
  unfold parse_record. rewrite Hr0. cbn [obind].
  destruct cur as [|a cur'].
  - rewrite nlen_nil, N.eqb_refl in *.
    unfold compress in H.
    destruct (min_len p =? 0); cbn in H; apply Reads_nil_inv in H; subst;
      (eexists; split; [reflexivity|]; split; [reflexivity|];
       cbn [r_ref r_blocks r_copied r_ints r_res r_outdeg expand_ints flat_map];
       split; [left; reflexivity|]; split; [congruence|]; split; [reflexivity|];
       split; [apply Forall_nil|]; split; [apply SSorted_nil|]; reflexivity).
  - set (cur := a :: cur') in *.
    assert (Hne : cur <> []) by (unfold cur; discriminate).
    destruct (nlen cur =? 0) eqn:E0.
    { apply N.eqb_eq in E0. unfold cur in E0. rewrite nlen_cons in E0. lia. }
    set (ref := if d =? 0 then None else match rl with [] => None | _ :: _ => Some rl end) in *.
    pose proof (compress_spec (min_len p) cur ref Hinc Hne) as Hc.
    assert (Hmi : d <> 0 -> mi_ok (c_blocks (compress (min_len p) cur ref)) rl).
    { intros Hnz. destruct (Hd Hnz) as (_ & _ & Hrl). unfold ref.
      destruct (d =? 0) eqn:ED; [apply N.eqb_eq in ED; congruence|].
      destruct rl as [|r0 rl']; [congruence|]. apply compress_blocks_ok; assumption. }
    cbv zeta in Hc.
    destruct (compress (min_len p) cur ref) as [bs e is rs].
    cbn [c_blocks c_extras c_ints c_res] in *.
    destruct Hc as (HP1 & Hwf & HP2 & Hm & Hf & Hincr & Hnil).
    cbn [app] in H.
    apply Reads_app_inv in H. destruct H as (s2 & HA & HT).
    assert (Hfin : forall bs' copied,
      Permutation (copied ++ e) cur ->
      let r := mkRecord (nlen cur) d bs' copied is rs in
      parse_tail rd p x (nlen cur) d bs' copied s2 = Some (r, s') /\
      record_succ r = cur /\
      Forall (fun i : N * N => 1 <= snd i) (r_ints r) /\ inc (r_res r) /\
      r_outdeg r = nlen (r_copied r) + nlen (expand_ints (r_ints r)) + nlen (r_res r)).
    { intros bs' copied HP r. split; [|split; [|split; [|split]]].
      - eapply parse_tail_ok; eassumption.
      - unfold record_succ, r. cbn [r_copied r_ints r_res].
        apply nsort_perm_inc; [|exact Hinc].
        eapply Permutation_trans; [|exact HP].
        apply Permutation_app_head. exact HP2.
      - unfold r. cbn [r_ints]. eapply Forall_impl; [|exact Hm].
        intros [l len] [_ H2]. cbn [snd]. lia.
      - exact Hincr.
      - unfold r. cbn [r_outdeg r_copied r_ints r_res].
        apply nlen_perm in HP. rewrite nlen_app in HP.
        apply nlen_perm in HP2. rewrite nlen_app in HP2. lia. }
    destruct (window p =? 0) eqn:EW.
    + apply N.eqb_eq in EW. specialize (Hw EW). subst d.
      apply Reads_nil_inv in HA. subst s2.
      cbn [obind]. rewrite N.eqb_refl. cbn [obind].
      unfold ref in HP1. rewrite N.eqb_refl in HP1.
      destruct (Hfin [] [] HP1) as (Ht & Hs & H3 & H4 & H5).
      eexists. split; [exact Ht|]. split; [exact Hs|].
      cbn [r_ref r_blocks r_copied] in *.
      split; [left; reflexivity|]. split; [congruence|]. split; [reflexivity|].
      repeat split; assumption.
    + apply Reads_cons_inv in HA. destruct HA as (s1 & Hr1 & HA).
      rewrite Hr1. cbn [obind].
      destruct (d =? 0) eqn:ED.
      * apply Reads_nil_inv in HA. subst s2. cbn [obind].
        unfold ref in HP1.
        destruct (Hfin [] [] HP1) as (Ht & Hs & H3 & H4 & H5).
        apply N.eqb_eq in ED.
        eexists. split; [exact Ht|]. split; [exact Hs|].
        cbn [r_ref r_blocks r_copied] in *.
        split; [right; reflexivity|]. split; [congruence|].
        split; [subst d; reflexivity|].
        repeat split; assumption.
      * apply N.eqb_neq in ED. destruct (Hd ED) as (Hdx & Hl & Hrl).
        destruct (x <? d) eqn:EX; [apply N.ltb_lt in EX; lia|].
        rewrite Hl. cbn [obind].
        apply Reads_cons_inv in HA. destruct HA as (t1 & Hrb & HA).
        rewrite Hrb. cbn [obind].
        rewrite write_blocks_raw in HA.
        apply Reads_read_n in HA. rewrite raw_blocks_length in HA.
        replace (N.to_nat (nlen bs)) with (length bs) by (unfold nlen; lia).
        rewrite HA. cbn [obind].
        assert (Hbs : nsum bs <= nlen rl /\ Forall (fun x => 1 <= x) (tl bs) /\
                      Permutation (mask true bs rl ++ e) cur).
        { unfold ref in *. destruct rl as [|r0 rl']; [congruence|].
          destruct Hwf as [Hw1 Hw2]. repeat split; assumption. }
        destruct Hbs as (Hb1 & Hb2 & Hb3).
        rewrite (unshift_raw bs Hb2).
        destruct (nlen rl <? nsum bs) eqn:EB; [apply N.ltb_lt in EB; lia|].
        cbn [obind].
        destruct (Hfin bs (mask true bs rl) Hb3) as (Ht & Hs & H3 & H4 & H5).
        eexists. split; [exact Ht|]. split; [exact Hs|].
        cbn [r_ref r_blocks r_copied] in *.
        split; [right; reflexivity|]. split; [intros _; apply Hmi, ED|].
        split; [apply N.eqb_neq in ED; rewrite ED; reflexivity|].
        repeat split; assumption.
Qed.

(** a valid selection never references an empty list *)
Lemma valid_sel_nonempty p : forall g prev sel i d rl,
  valid_sel p prev g sel = true ->
  nth_opt sel i = Some d -> d <> 0 -> (i < length g)%nat ->
  nth_opt (rev (firstn i g) ++ prev) (N.to_nat d - 1) = Some rl -> rl <> [].
Proof.
  induction g as [|c g IH]; intros prev sel i d rl Hv Hs Hnz Hi Hn.
  - cbn [length] in Hi. lia.
  - destruct sel as [|d0 sel]; [cbn in Hv; discriminate|].
    cbn [valid_sel] in Hv. apply andb_true_iff in Hv. destruct Hv as [Hv1 Hv2].
    destruct i as [|i]; cbn [nth_opt] in Hs.
    + injection Hs as ->. cbn [firstn rev app] in Hn.
      apply orb_true_iff in Hv1. destruct Hv1 as [Hz|Hz]; [apply N.eqb_eq in Hz; congruence|].
      apply andb_true_iff in Hz. destruct Hz as [_ Hz]. rewrite Hn in Hz.
      destruct rl; [discriminate|discriminate].
    + cbn [firstn rev] in Hn. rewrite <- app_assoc in Hn. cbn [app] in Hn.
      eapply (IH (c :: prev) sel i d rl Hv2 Hs Hnz); [cbn [length] in Hi; lia|exact Hn].
Qed.

Section ViewSM.
  Variable St : Type.
  Variable rd : kind -> St -> option (N * St).
  Variable seek : N -> option St.
  Variable p : params.
  Variable g : list (list N).
  Variable sel : list N.
  Variable st : nat -> St.
  Variable dbg : bool.

  Hypothesis Hinc : Forall inc g.
  Hypothesis Hbel : Forall (Forall (fun y => y < usize_max - 1)) g.
  Hypothesis Hseek : forall x, (x <= length g)%nat -> seek (N.of_nat x) = Some (st x).
  Hypothesis Hview : forall x cur, nth_opt g x = Some cur ->
    exists d rl, nth_opt sel x = Some d /\
      Reads rd (st x) (node_fields p (N.of_nat x) cur d rl) (st (S x)) /\
      d <= window p /\
      (d <> 0 -> (N.to_nat d <= x)%nat /\ nth_opt g (x - N.to_nat d) = Some rl /\ rl <> []).

  Lemma view_ra_sm : forall fuel x cur,
    nth_opt g x = Some cur -> (x < fuel)%nat ->
    ra_labels_sm St rd seek dbg p fuel (N.of_nat x) = Some cur.
  Proof.
    induction fuel as [|f IH]; intros x cur Hx Hf; [lia|].
    cbn [ra_labels_sm].
    rewrite Hseek by (apply nth_opt_some_lt in Hx; lia). cbn [obind].
    destruct (Hview x cur Hx) as (d & rl & Hs & Hr & Hw & Hd).
    assert (Hc : inc cur).
    { rewrite Forall_forall in Hinc. apply Hinc. eapply nth_opt_In, Hx. }
    assert (Hcb : Forall (fun y => y < usize_max - 1) cur).
    { rewrite Forall_forall in Hbel. apply Hbel. eapply nth_opt_In, Hx. }
    assert (Hlk : d <> 0 -> ra_labels_sm St rd seek dbg p f (N.of_nat x - d) = Some rl).
    { intros Hnz. destruct (Hd Hnz) as (H1 & H2 & _).
      replace (N.of_nat x - d) with (N.of_nat (x - N.to_nat d)) by lia.
      apply IH; [exact H2|lia]. }
    destruct (parse_record_sm St rd p (N.of_nat x) cur d rl
                (fun d0 => ra_labels_sm St rd seek dbg p f (N.of_nat x - d0)) (st x) (st (S x)) Hc)
      as (r & Hp & Hsucc & Href & Hmi & Hcop & Hpos & Hres & Hdeg); [lia| |exact Hr|].
    { intros Hnz. destruct (Hd Hnz) as (H1 & H2 & H3). split; [lia|]. split; [apply Hlk, Hnz|exact H3]. }
    rewrite Hp. cbn [obind].
    assert (Hrl : (if r_ref r =? 0 then Some []
                   else ra_labels_sm St rd seek dbg p f (N.of_nat x - r_ref r))
                  = Some (if r_ref r =? 0 then [] else rl)).
    { destruct (r_ref r =? 0) eqn:E; [reflexivity|]. apply N.eqb_neq in E.
      destruct Href as [E'|E']; [congruence|]. rewrite E'. apply Hlk. congruence. }
    rewrite Hrl. cbn [obind].
    assert (Hperm : Permutation (r_copied r ++ expand_ints (r_ints r) ++ r_res r) cur).
    { rewrite <- Hsucc. unfold record_succ. apply NSort.Permuted_sort. }
    rewrite (succ_iter_denotes dbg (if r_ref r =? 0 then [] else rl) r).
    - f_equal. rewrite <- Hsucc.
      eapply record_succ_merge_eq; [exact Hp|].
      intros l Hnz Hlk'. cbn beta in Hlk'.
      destruct Href as [E'|E']; [congruence|]. rewrite E' in *.
      rewrite (Hlk Hnz) in Hlk'. injection Hlk' as <-.
      destruct (Hd Hnz) as (_ & H2 & _).
      rewrite Forall_forall in Hinc. apply Hinc. eapply nth_opt_In, H2.
    - intros Hnz. apply N.eqb_neq in Hnz. rewrite Hnz. apply Hmi. apply N.eqb_neq, Hnz.
    - rewrite Hcop. destruct (r_ref r =? 0); reflexivity.
    - eapply Permutation_Forall; [apply Permutation_sym, Hperm|exact Hcb].
    - exact Hpos.
    - exact Hres.
    - exact Hdeg.
  Qed.
End ViewSM.

Theorem ra_sm_eq : S_ra_sm_eq.
Proof.
  intros dbg le cs p g sel rest fuel x l Hok Hinc Hv Hbel Hx Hf.
  eapply view_ra_sm with (g := g) (sel := sel) (st := est le cs p g sel rest);
    try assumption.
  - intros y Hy. apply enc_seek; assumption.
  - intros y cur Hy.
    destruct (enc_view le cs p g sel rest Hok Hv y cur Hy) as (d & rl & H1 & H2 & H3 & H4).
    exists d, rl. split; [exact H1|]. split; [exact H2|]. split; [exact H3|].
    intros Hnz. destruct (H4 Hnz) as [H5 H6]. split; [exact H5|]. split; [exact H6|].
    pose proof (nth_opt_some_lt _ _ _ Hy) as Hlt.
    eapply (valid_sel_nonempty p g [] sel y d rl Hv H1 Hnz Hlt).
    rewrite app_nil_r, nth_opt_rev_firstn by lia.
    replace (y - 1 - (N.to_nat d - 1))%nat with (y - N.to_nat d)%nat by lia.
    exact H6.
Qed.
