(** Proofs of the pinned statements about offsets (C05). *)
From WG Require Import Base.Prelude Codes.Codes Codes.Statements Codes.CodesFacts
  BV.Model BV.RefSel BV.Statements BV.CompFacts BV.NodeFacts BV.GraphFacts BV.Bits
  BV.BitsFacts BV.OffsetsStatements.
From Coq Require Import ZifyBool ZifyN ZifyNat.
Local Open Scope N_scope.

(** * Prefix sums *)

Lemma prefix_sums_length : forall l acc, length (prefix_sums acc l) = S (length l).
Proof.
  induction l as [|x l IH]; intros acc; cbn [prefix_sums length]; [reflexivity|].
  rewrite IH. reflexivity.
Qed.

Lemma prefix_sums_last : forall l acc, last (prefix_sums acc l) 0 = acc + nsum l.
Proof.
  induction l as [|x l IH]; intros acc.
  - cbn [prefix_sums last nsum]. lia.
  - change (prefix_sums acc (x :: l)) with (acc :: prefix_sums (acc + x) l).
    assert (E : forall a m, last (a :: prefix_sums m l) 0 = last (prefix_sums m l) 0).
    { intros a m. destruct l; reflexivity. }
    rewrite E, IH. cbn [nsum]. lia.
Qed.

Theorem offsets_shape : S_offsets_shape.
Proof.
  intros le cs recs. split.
  - rewrite prefix_sums_length. unfold node_bitlens. rewrite map_length. reflexivity.
  - rewrite prefix_sums_last, nsum_node_bitlens. lia.
Qed.

(** * The offsets file *)

Lemma dec_gammas_enc : forall lens rest,
  dec_gammas (length lens) (flat_map (enc false Gamma) lens ++ rest) = Some (lens, rest).
Proof.
  induction lens as [|v lens IH]; intros rest; cbn [length dec_gammas flat_map].
  - reflexivity.
  - rewrite <- app_assoc. rewrite (code_roundtrip false Gamma v _ eq_refl).
    cbn [obind]. rewrite IH. reflexivity.
Qed.

Theorem offsets_file : S_offsets_file.
Proof.
  intros lens rest. unfold offsets_bits.
  change (S (length lens)) with (length (0 :: lens)). apply dec_gammas_enc.
Qed.

(** * Positions *)

Lemma decode_node_parse (St : Type) (rd : kind -> St -> option (N * St)) p x lookup s l s' :
  decode_node St rd p x lookup s = Some (l, s') ->
  exists r, parse_record St rd p x lookup s = Some (r, s') /\ record_succ r = l.
Proof.
  unfold decode_node. destruct (parse_record St rd p x lookup s) as [[r s1]|];
    cbn [obind]; [|discriminate].
  intros H. injection H as <- <-. exists r. split; reflexivity.
Qed.

Lemma decode_records_gen le cs p (T : N) : forall g x prev sel rest,
  codes_ok cs = true ->
  Forall inc g ->
  valid_sel p prev g sel = true ->
  nlen prev = x ->
  nlen (graph_bits le cs (encode_nodes p x prev g sel) ++ rest) <= T ->
  exists rs,
    decode_records bits (rd_bits le cs) (fun t => T - nlen t) p (length g) x prev
      (graph_bits le cs (encode_nodes p x prev g sel) ++ rest) = Some (rs, rest)
    /\ map (fun r => snd (fst r)) rs = g
    /\ map snd rs
       = firstn (length g)
           (prefix_sums (T - nlen (graph_bits le cs (encode_nodes p x prev g sel) ++ rest))
                        (node_bitlens le cs (encode_nodes p x prev g sel))).
Proof.
  induction g as [|cur g IH]; intros x prev sel rest Hok Hinc Hv Hx HT.
  - exists []. cbn [encode_nodes graph_bits flat_map app length decode_records map firstn].
    repeat split.
  - destruct sel as [|d sel]; [cbn in Hv; discriminate|].
    cbn [valid_sel] in Hv. apply andb_true_iff in Hv. destruct Hv as [Hv1 Hv2].
    inversion Hinc as [|? ? Hc Hg]; subst.
    cbn [encode_nodes hd tl] in *.
    set (rl := match nth_opt prev (N.to_nat d - 1) with Some l => l | None => [] end) in *.
    set (fs := node_fields p (nlen prev) cur d rl) in *.
    set (recs := encode_nodes p (nlen prev + 1) (cur :: prev) g sel) in *.
    change (graph_bits le cs (fs :: recs))
      with (enc_fields le cs fs ++ graph_bits le cs recs) in *.
    change (node_bitlens le cs (fs :: recs))
      with (nlen (enc_fields le cs fs) :: node_bitlens le cs recs).
    rewrite <- app_assoc in *.
    set (s1 := graph_bits le cs recs ++ rest) in *.
    assert (Hw : window p = 0 -> d = 0).
    { intros E. apply orb_true_iff in Hv1. destruct Hv1 as [Hz|Hz].
      - apply N.eqb_eq in Hz. exact Hz.
      - apply andb_true_iff in Hz. destruct Hz as [Hz _].
        apply andb_true_iff in Hz. destruct Hz as [Hz _].
        apply N.leb_le in Hz. lia. }
    assert (Hd : d <> 0 -> d <= nlen prev /\ win_lookup p prev d = Some rl).
    { intros Hnz. apply orb_true_iff in Hv1. destruct Hv1 as [Hz|Hz].
      - apply N.eqb_eq in Hz. contradiction.
      - apply andb_true_iff in Hz. destruct Hz as [Hz Hn].
        apply andb_true_iff in Hz. destruct Hz as [Hz1 Hz2].
        apply N.leb_le in Hz1. apply N.leb_le in Hz2.
        split; [exact Hz2|].
        unfold win_lookup.
        destruct (d =? 0) eqn:E0; [apply N.eqb_eq in E0; contradiction|].
        destruct (window p <? d) eqn:E1; [apply N.ltb_lt in E1; lia|].
        cbn [orb]. unfold rl.
        destruct (nth_opt prev (N.to_nat d - 1)) as [l|]; [reflexivity|discriminate]. }
    pose proof (reads_bits le cs fs s1 Hok) as Hr.
    pose proof (node_roundtrip bits (rd_bits le cs) p (nlen prev) cur d rl
                  (win_lookup p prev) _ _ Hc Hw Hd Hr) as Hn.
    destruct (decode_node_parse _ _ _ _ _ _ _ _ Hn) as (r & Hp & Hsucc).
    assert (HT1 : nlen s1 <= T).
    { rewrite nlen_app in HT. lia. }
    destruct (IH (nlen prev + 1) (cur :: prev) sel rest Hok Hg Hv2 (nlen_cons cur prev) HT1)
      as (rs & Hdec & Hmap & Hpos).
    fold recs in Hdec, Hpos. fold s1 in Hdec, Hpos.
    exists ((r, cur, T - nlen (enc_fields le cs fs ++ s1)) :: rs).
    cbn [length decode_records]. rewrite Hp. cbn [obind]. rewrite Hsucc, Hdec.
    split; [reflexivity|]. split.
    + cbn [map fst snd]. rewrite Hmap. reflexivity.
    + cbn [map fst snd prefix_sums firstn]. f_equal. rewrite Hpos. f_equal. f_equal.
      rewrite nlen_app in *. lia.
Qed.

Theorem offsets_positions : S_offsets_positions.
Proof.
  intros le cs p g sel rest Hok Hinc Hv recs s.
  destruct (decode_records_gen le cs p (nlen s) g 0 [] sel rest Hok Hinc Hv eq_refl)
    as (rs & H1 & H2 & H3).
  - unfold s, recs, encode_graph. lia.
  - exists rs. fold (encode_graph p 0 g sel) in H1, H3. fold recs in H1, H3. fold s in H1, H3.
    rewrite N.sub_diag in H3. repeat split; assumption.
Qed.

Print Assumptions offsets_positions.
Print Assumptions offsets_shape.
Print Assumptions offsets_file.
