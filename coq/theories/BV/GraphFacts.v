(** The whole-graph round trip and the list-of-fields reader. *)
From WG Require Import Base.Prelude Codes.Codes BV.Model BV.RefSel BV.Statements
  BV.CompFacts BV.NodeFacts.
From Coq Require Import ZifyBool ZifyN ZifyNat.
Local Open Scope N_scope.

Lemma encode_decode_nodes (St : Type) (rd : kind -> St -> option (N * St)) p :
  forall g x prev sel s s',
  Forall inc g ->
  valid_sel p prev g sel = true ->
  nlen prev = x ->
  Reads rd s (concat (encode_nodes p x prev g sel)) s' ->
  decode_nodes St rd p (length g) x prev s = Some (g, s').
Proof.
  induction g as [|cur g IH]; intros x prev sel s s' Hinc Hv Hx H.
  - cbn [encode_nodes concat] in H. apply Reads_nil_inv in H. subst. reflexivity.
  - destruct sel as [|d sel]; [cbn in Hv; discriminate|].
    cbn [valid_sel] in Hv. apply andb_true_iff in Hv. destruct Hv as [Hv1 Hv2].
    inversion Hinc as [|? ? Hc Hg]; subst.
    cbn [encode_nodes hd tl concat] in H.
    apply Reads_app_inv in H. destruct H as (m & H1 & H2).
    cbn [length decode_nodes].
    set (rl := match nth_opt prev (N.to_nat d - 1) with Some l => l | None => [] end) in *.
    assert (Hw : window p = 0 -> d = 0).
    { intros E. apply orb_true_iff in Hv1. destruct Hv1 as [Hz|Hz].
      - apply N.eqb_eq in Hz. exact Hz.
      - apply andb_true_iff in Hz. destruct Hz as [Hz _].
        apply andb_true_iff in Hz. destruct Hz as [Hz _].
        apply N.leb_le in Hz. lia. }
    assert (Hd : d <> 0 -> d <= nlen prev /\ win_lookup p prev d = Some rl).
    { intros Hnz. apply orb_true_iff in Hv1. destruct Hv1 as [Hz|Hz].
      - apply N.eqb_eq in Hz. contradiction.
      - apply andb_true_iff in Hz. destruct Hz as [Hz Hn].
        apply andb_true_iff in Hz. destruct Hz as [Hz1 Hz2].
        apply N.leb_le in Hz1. apply N.leb_le in Hz2.
        split; [exact Hz2|].
        unfold win_lookup.
        destruct (d =? 0) eqn:E0; [apply N.eqb_eq in E0; contradiction|].
        destruct (window p <? d) eqn:E1; [apply N.ltb_lt in E1; lia|].
        cbn [orb]. unfold rl.
        destruct (nth_opt prev (N.to_nat d - 1)) as [l|]; [reflexivity|discriminate]. }
    rewrite (node_roundtrip St rd p (nlen prev) cur d rl (win_lookup p prev) s m Hc Hw Hd H1).
    cbn [obind].
    rewrite (IH (nlen prev + 1) (cur :: prev) sel m s' Hg Hv2 (nlen_cons cur prev) H2).
    reflexivity.
Qed.

Theorem graph_roundtrip : S_graph_roundtrip.
Proof.
  unfold S_graph_roundtrip, decode_graph, encode_graph.
  intros St rd p g sel s s' Hinc Hv H.
  eapply encode_decode_nodes; try eassumption. reflexivity.
Qed.

Lemma kind_eqb_refl k : kind_eqb k k = true.
Proof. destruct k; reflexivity. Qed.

Theorem reads_fields : S_reads_fields.
Proof.
  unfold S_reads_fields. induction fs as [|[k v] fs IH]; intros rest; cbn [app].
  - constructor.
  - econstructor; [|apply IH]. cbn [rd_fields]. rewrite kind_eqb_refl. reflexivity.
Qed.

Print Assumptions graph_roundtrip.
Print Assumptions reads_fields.
