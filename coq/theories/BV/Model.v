(** Executable model of the BV codec at the level of *fields* (one entry per call of an
    [Encode]/[Decode] method): the per-node compressor ([Compressor::compress]/[write] of
    comp/bvcomp.rs), the per-node decoder ([NodeLabels::get_successors_iter_priv] of
    sequential.rs) over an abstract reader, and whole-graph encoding/decoding.
    Definitions only. *)
From WG Require Import Base.Prelude.
Local Open Scope N_scope.

(** * Fields *)
Inductive kind :=
  KOutdeg | KRef | KBlockCount | KBlock | KIntCount | KIntStart | KIntLen | KFirstRes | KRes.

Definition kind_eqb (a b : kind) : bool :=
  match a, b with
  | KOutdeg, KOutdeg | KRef, KRef | KBlockCount, KBlockCount | KBlock, KBlock
  | KIntCount, KIntCount | KIntStart, KIntStart | KIntLen, KIntLen
  | KFirstRes, KFirstRes | KRes, KRes => true
  | _, _ => false
  end.

Definition field : Type := kind * N.

(** Compression parameters.  [max_ref = None] is the unbounded [usize::MAX]. *)
Record params := mkParams { window : N; max_ref : option N; min_len : N }.

(** * Compressor *)

Definition inc_head (b : list N) : list N :=
  match b with [] => [] | x :: xs => (x + 1) :: xs end.

(** [Compressor::diff_comp].  Returns the copy-block list (true lengths; the head of the
    result is the length still to be accumulated for the current block) and the extra
    nodes.  [copying] is the loop's mode flag. *)
Fixpoint diff_rec (fuel : nat) (cur ref : list N) (copying : bool) : list N * list N :=
  match fuel with
  | O => ([], [])
  | S fuel' =>
    match cur, ref with
    | [], [] => ([], [])
    | [], _ :: _ => ((if copying then [0] else []), [])
    | _, [] => ([], cur)
    | c :: cs, r :: rs =>
      if copying then
        if r <? c then let '(b, e) := diff_rec fuel' cur ref false in (0 :: b, e)
        else if c <? r then let '(b, e) := diff_rec fuel' cs ref true in (b, c :: e)
        else let '(b, e) := diff_rec fuel' cs rs true in (inc_head b, e)
      else
        if r <? c then let '(b, e) := diff_rec fuel' cur rs false in (inc_head b, e)
        else if c <? r then let '(b, e) := diff_rec fuel' cs ref false in (b, c :: e)
        else let '(b, e) := diff_rec fuel' cur ref true in (0 :: b, e)
    end
  end.

Definition diff_fuel (cur ref : list N) : nat := 2 * (length cur + length ref) + 2.
Definition diff_comp (cur ref : list N) : list N * list N :=
  diff_rec (diff_fuel cur ref) cur ref true.

(** number of elements at the head of [l] that continue the run ending in [x] *)
Fixpoint run_len (x : N) (l : list N) : nat :=
  match l with
  | y :: l' => if y =? x + 1 then S (run_len y l') else O
  | [] => O
  end.

(** [Compressor::intervalize]: maximal runs of consecutive integers of length at least
    [max L 2] become intervals [(left, len)], everything else is a residual. *)
Fixpoint intervalize (fuel : nat) (L : N) (l : list N) : list (N * N) * list N :=
  match fuel with
  | O => ([], [])
  | S fuel' =>
    match l with
    | [] => ([], [])
    | x :: l' =>
      let j := run_len x l' in
      if (Nat.leb 1 j) && (L <=? N.of_nat (S j)) then
        let '(is, rs) := intervalize fuel' L (skipn j l') in ((x, N.of_nat (S j)) :: is, rs)
      else
        let '(is, rs) := intervalize fuel' L l' in (is, x :: rs)
    end
  end.

Record comp := mkComp {
  c_blocks : list N;        (* true block lengths, alternately copy / skip *)
  c_extras : list N;
  c_ints : list (N * N);
  c_res : list N }.

Definition compress (L : N) (cur : list N) (ref : option (list N)) : comp :=
  let '(b, e) :=
    match cur, ref with
    | [], _ => ([], [])
    | _, Some r => diff_comp cur r
    | _, None => ([], cur)
    end in
  let '(is, rs) := if L =? 0 then ([], e) else intervalize (length e) L e in
  mkComp b e is rs.

(** ** [Compressor::write] *)
Definition write_blocks (bs : list N) : list field :=
  match bs with
  | [] => []
  | b0 :: bs' => (KBlock, b0) :: map (fun b => (KBlock, b - 1)) bs'
  end.

Fixpoint write_ints_tail (L prev : N) (is : list (N * N)) : list field :=
  match is with
  | [] => []
  | (l, len) :: is' =>
      (KIntStart, l - prev - 1) :: (KIntLen, len - L) :: write_ints_tail L (l + len) is'
  end.

Definition write_ints (L x : N) (is : list (N * N)) : list field :=
  match is with
  | [] => []
  | (l, len) :: is' =>
      (KIntStart, to_nat (Z.of_N l - Z.of_N x)) :: (KIntLen, len - L)
        :: write_ints_tail L (l + len) is'
  end.

Fixpoint write_res_tail (prev : N) (rs : list N) : list field :=
  match rs with
  | [] => []
  | r :: rs' => (KRes, r - prev - 1) :: write_res_tail r rs'
  end.

Definition write_res (x : N) (rs : list N) : list field :=
  match rs with
  | [] => []
  | r :: rs' => (KFirstRes, to_nat (Z.of_N r - Z.of_N x)) :: write_res_tail r rs'
  end.

(** [refd = None] when the window is 0 (no reference field at all). *)
Definition write_node (L x outdeg : N) (refd : option N) (c : comp) : list field :=
  (KOutdeg, outdeg) ::
  (if outdeg =? 0 then []
   else match refd with
        | None => []
        | Some d =>
            (KRef, d) ::
            (if d =? 0 then []
             else (KBlockCount, nlen (c_blocks c)) :: write_blocks (c_blocks c))
        end)
  ++ (match c_extras c with
      | [] => []
      | _ :: _ => if L =? 0 then []
                  else (KIntCount, nlen (c_ints c)) :: write_ints L x (c_ints c)
      end)
  ++ write_res x (c_res c).

(** Fields for node [x] with successors [cur], reference distance [d] (0 = none) and
    referenced list [rl]. *)
Definition node_fields (p : params) (x : N) (cur : list N) (d : N) (rl : list N)
  : list field :=
  let refd := if window p =? 0 then None else Some d in
  let ref := if d =? 0 then None else match rl with [] => None | _ => Some rl end in
  write_node (min_len p) x (nlen cur) refd (compress (min_len p) cur ref).

(** * Decoder over an abstract reader *)

(** The decoder's copy step: alternately take and drop blocks of the referenced list,
    the state bit replacing the parity test on the block index; after the last block
    the rest is copied iff the state is "copy". *)
Fixpoint mask {A} (c : bool) (bs : list N) (ref : list A) : list A :=
  match bs with
  | [] => if c then ref else []
  | b :: bs' => (if c then firstn (N.to_nat b) ref else [])
                ++ mask (negb c) bs' (skipn (N.to_nat b) ref)
  end.

Definition unshift_blocks (raw : list N) : list N :=
  match raw with [] => [] | b0 :: bs => b0 :: map (fun b => b + 1) bs end.

Definition expand_ints (is : list (N * N)) : list N :=
  flat_map (fun '(l, len) => nseq l (N.to_nat len)) is.

Section Reader.
  Variable St : Type.
  Variable rd : kind -> St -> option (N * St).

  Fixpoint read_n (k : kind) (n : nat) (s : St) : option (list N * St) :=
    match n with
    | O => Some ([], s)
    | S n' => '(v, s1) <- rd k s ;; '(vs, s2) <- read_n k n' s1 ;; Some (v :: vs, s2)
    end.

  (** intervals after the first: each start is [prev_end + 1 + v] *)
  Fixpoint read_ints_tail (L prev : N) (n : nat) (s : St) : option (list (N * N) * St) :=
    match n with
    | O => Some ([], s)
    | S n' =>
      '(v, s1) <- rd KIntStart s ;;
      '(w, s2) <- rd KIntLen s1 ;;
      let l := prev + 1 + v in
      let len := w + L in
      '(is, s3) <- read_ints_tail L (l + len) n' s2 ;;
      Some ((l, len) :: is, s3)
    end.

  Definition read_ints (L x : N) (s : St) : option (list (N * N) * St) :=
    '(ni, s0) <- rd KIntCount s ;;
    if ni =? 0 then Some ([], s0)
    else
      '(v, s1) <- rd KIntStart s0 ;;
      '(w, s2) <- rd KIntLen s1 ;;
      let lz := (Z.of_N x + to_int v)%Z in
      if (lz <? 0)%Z then None
      else
        let l := Z.to_N lz in
        let len := w + L in
        '(is, s3) <- read_ints_tail L (l + len) (N.to_nat ni - 1) s2 ;;
        Some ((l, len) :: is, s3).

  Fixpoint read_res_tail (prev : N) (n : nat) (s : St) : option (list N * St) :=
    match n with
    | O => Some ([], s)
    | S n' =>
      '(v, s1) <- rd KRes s ;;
      let r := prev + 1 + v in
      '(rs, s2) <- read_res_tail r n' s1 ;;
      Some (r :: rs, s2)
    end.

  Definition read_res (x : N) (n : nat) (s : St) : option (list N * St) :=
    match n with
    | O => Some ([], s)
    | S n' =>
      '(v, s1) <- rd KFirstRes s ;;
      let rz := (Z.of_N x + to_int v)%Z in
      if (rz <? 0)%Z then None
      else let r := Z.to_N rz in
           '(rs, s2) <- read_res_tail r n' s1 ;; Some (r :: rs, s2)
    end.

  (** A parsed record: outdegree, reference distance, copy blocks (true lengths),
      copied successors, intervals, residuals. *)
  Record record := mkRecord {
    r_outdeg : N; r_ref : N; r_blocks : list N;
    r_copied : list N; r_ints : list (N * N); r_res : list N }.

  (** [get_successors_iter_priv] up to (and excluding) the final sort.  [lookup d] is the
      successor list of node [x - d].  Fails ([None]) where the Rust code would index
      out of bounds or underflow. *)
  Definition parse_record (p : params) (x : N) (lookup : N -> option (list N)) (s : St)
    : option (record * St) :=
    '(deg, s0) <- rd KOutdeg s ;;
    if deg =? 0 then Some (mkRecord 0 0 [] [] [] [], s0)
    else
      '(d, s1) <- (if window p =? 0 then Some (0, s0) else rd KRef s0) ;;
      '(bc, s2) <-
        (if d =? 0 then Some (([], []), s1)
         else
           if x <? d then None else
           rl <- lookup d ;;
           '(nb, t1) <- rd KBlockCount s1 ;;
           '(raw, t2) <- read_n KBlock (N.to_nat nb) t1 ;;
           let bs := unshift_blocks raw in
           if nlen rl <? nsum bs then None
           else Some ((bs, mask true bs rl), t2)) ;;
      let '(bs, copied) := bc in
      if deg <? nlen copied then None
      else
        let left := deg - nlen copied in
        '(is, s3) <-
          (if (left =? 0) || (min_len p =? 0) then Some ([], s2)
           else read_ints (min_len p) x s2) ;;
        let ni := nlen (expand_ints is) in
        if left <? ni then None
        else
          '(rs, s4) <- read_res x (N.to_nat (left - ni)) s3 ;;
          Some (mkRecord deg d bs copied is rs, s4).

  Definition record_succ (r : record) : list N :=
    nsort (r_copied r ++ expand_ints (r_ints r) ++ r_res r).

  Definition decode_node (p : params) (x : N) (lookup : N -> option (list N)) (s : St)
    : option (list N * St) :=
    '(r, s') <- parse_record p x lookup s ;; Some (record_succ r, s').

  (** Sequential decoding of [n] nodes starting at node [x]; [prev] holds the already
      decoded lists, most recent first (so [nth_opt prev (d-1)] is node [x - d]); only
      references up to the window are resolvable, as with the ring buffer of
      [window+1] slots. *)
  Definition win_lookup (p : params) (prev : list (list N)) (d : N) : option (list N) :=
    if (d =? 0) || (window p <? d) then None else nth_opt prev (N.to_nat d - 1).

  Fixpoint decode_nodes (p : params) (n : nat) (x : N) (prev : list (list N)) (s : St)
    : option (list (list N) * St) :=
    match n with
    | O => Some ([], s)
    | S n' =>
      '(l, s1) <- decode_node p x (win_lookup p prev) s ;;
      '(ls, s2) <- decode_nodes p n' (x + 1) (l :: prev) s1 ;;
      Some (l :: ls, s2)
    end.

  Definition decode_graph (p : params) (n : nat) (s : St) : option (list (list N) * St) :=
    decode_nodes p n 0 [] s.
End Reader.

(** The reader over a list of fields: pops a field of the requested kind. *)
Definition rd_fields (k : kind) (s : list field) : option (N * list field) :=
  match s with
  | (k', v) :: s' => if kind_eqb k k' then Some (v, s') else None
  | [] => None
  end.

(** * Whole-graph encoding with a given reference choice *)

(** [sel] gives, for the i-th node of the (chunk of the) graph, the reference distance
    chosen.  [prev] as in [decode_nodes]. *)
Fixpoint encode_nodes (p : params) (x : N) (prev : list (list N)) (g : list (list N))
  (sel : list N) : list (list field) :=
  match g with
  | [] => []
  | cur :: g' =>
    let d := hd 0 sel in
    let rl := match nth_opt prev (N.to_nat d - 1) with Some l => l | None => [] end in
    node_fields p x cur d rl :: encode_nodes p (x + 1) (cur :: prev) g' (tl sel)
  end.

Definition encode_graph (p : params) (start : N) (g : list (list N)) (sel : list N)
  : list (list field) :=
  encode_nodes p start [] g sel.

(** A reference choice is valid for node number [i] of a chunk (0-based, so node
    [start + i]) if it is 0, or points inside the window, not before the chunk start, at a
    non-empty list. *)
Fixpoint valid_sel (p : params) (prev : list (list N)) (g : list (list N)) (sel : list N)
  : bool :=
  match g, sel with
  | [], [] => true
  | cur :: g', d :: sel' =>
    ((d =? 0) ||
     ((d <=? window p) && (d <=? nlen prev) &&
      match nth_opt prev (N.to_nat d - 1) with Some (_ :: _) => true | _ => false end))
    && valid_sel p (cur :: prev) g' sel'
  | _, _ => false
  end.

(** Reference-chain depth of every node, given the chosen distances (most recent first
    accumulator). *)
Fixpoint depths_acc (prev : list N) (sel : list N) : list N :=
  match sel with
  | [] => []
  | d :: sel' =>
    let dep := if d =? 0 then 0
               else match nth_opt prev (N.to_nat d - 1) with
                    | Some k => k + 1 | None => 0 end in
    dep :: depths_acc (dep :: prev) sel'
  end.
Definition depths (sel : list N) : list N := depths_acc [] sel.
