(** Proof of the pinned statement [S_records_wf] (C02): every record the encoder emits
    respects the structural rules of the format. *)
From WG Require Import Base.Prelude Codes.Codes Codes.Statements Codes.CodesFacts
  BV.Model BV.RefSel BV.Statements BV.CompFacts BV.NodeFacts BV.GraphFacts BV.Bits
  BV.BitsFacts BV.WfStatements.
From Coq Require Import ZifyBool ZifyN ZifyNat.
Local Open Scope N_scope.

(** * [incb] decides [inc] (the direction needed) *)

Lemma incb_from_inc : forall l a, inc (a :: l) -> incb_from a l = true.
Proof.
  induction l as [|b l IH]; intros a H; cbn [incb_from]; [reflexivity|].
  unfold inc in H. apply StronglySorted_inv in H. destruct H as [Hs Hf].
  inversion Hf as [|? ? Hab _]; subst.
  apply andb_true_iff. split.
  - apply N.ltb_lt. exact Hab.
  - apply IH. exact Hs.
Qed.

Lemma incb_inc l : inc l -> incb l = true.
Proof.
  destruct l as [|a l]; intros H; cbn [incb]; [reflexivity|].
  apply incb_from_inc. exact H.
Qed.

(** * Well-formedness of an explicitly given record *)

Lemma forallb_pos (l : list N) :
  Forall (fun b => 1 <= b) l -> forallb (fun b => 1 <=? b) l = true.
Proof.
  intros HF. apply forallb_forall. intros b Hb.
  rewrite Forall_forall in HF. apply N.leb_le. apply HF. exact Hb.
Qed.

Lemma forallb_minlen L (is : list (N * N)) :
  Forall (minlen_ok L) is -> forallb (fun '(_, len) => L <=? len) is = true.
Proof.
  intros HF. apply forallb_forall. intros [l len] Hi.
  rewrite Forall_forall in HF. specialize (HF _ Hi). cbn [minlen_ok] in HF.
  apply N.leb_le. lia.
Qed.

Lemma wf_record_mk p x reflen cur d bs copied e is rs :
  inc cur ->
  d <= window p -> d <= x ->
  nsum bs <= reflen ->
  Forall (fun b => 1 <= b) (tl bs) ->
  Forall (minlen_ok (min_len p)) is ->
  Permutation (copied ++ e) cur ->
  Permutation (expand_ints is ++ rs) e ->
  wf_record p x reflen (mkRecord (nlen cur) d bs copied is rs) = true.
Proof.
  intros Hinc Hdw Hdx Hsum Htl Hm HP1 HP2.
  assert (Hsucc : record_succ (mkRecord (nlen cur) d bs copied is rs) = cur).
  { unfold record_succ. cbn [r_copied r_ints r_res].
    apply nsort_perm_inc; [|exact Hinc].
    eapply Permutation_trans; [|exact HP1].
    apply Permutation_app_head. exact HP2. }
  unfold wf_record. rewrite Hsucc.
  cbn [r_outdeg r_ref r_blocks r_copied r_ints r_res].
  apply nlen_perm in HP1. rewrite nlen_app in HP1.
  apply nlen_perm in HP2. rewrite nlen_app in HP2.
  repeat (apply andb_true_iff; split).
  - apply N.leb_le. exact Hdw.
  - apply N.leb_le. exact Hdx.
  - apply N.leb_le. exact Hsum.
  - apply forallb_pos. exact Htl.
  - apply forallb_minlen. exact Hm.
  - apply incb_inc. exact Hinc.
  - apply N.eqb_eq. lia.
Qed.

Lemma wf_record_empty p x : wf_record p x 0 (mkRecord 0 0 [] [] [] []) = true.
Proof.
  unfold wf_record, record_succ.
  cbn [r_outdeg r_ref r_blocks r_copied r_ints r_res expand_ints flat_map app tl nsum
       forallb].
  rewrite nsort_nil. cbn [incb].
  repeat (apply andb_true_iff; split); try reflexivity.
  - apply N.leb_le. lia.
  - apply N.leb_le. lia.
Qed.

(** * One node: the parsed record is well formed *)

Lemma parse_record_wf (St : Type) (rd : kind -> St -> option (N * St))
  p x cur d rl lookup s s' :
  inc cur ->
  d <= window p ->
  (d <> 0 -> d <= x /\ lookup d = Some rl) ->
  Reads rd s (node_fields p x cur d rl) s' ->
  exists r, parse_record St rd p x lookup s = Some (r, s') /\ record_succ r = cur /\
            (r_ref r = 0 \/ r_ref r = d) /\
            wf_record p x (if r_ref r =? 0 then 0 else nlen rl) r = true.
Proof.
  intros Hinc Hdw Hd H.
  assert (Hw : window p = 0 -> d = 0) by (intros E; lia).
  assert (Hdx : d <= x).
  { destruct (N.eq_dec d 0) as [E|E]; [lia|]. apply Hd. exact E. }
  unfold node_fields, write_node in H.
  apply Reads_cons_inv in H. destruct H as (s0 & Hr0 & H).
  unfold parse_record. rewrite Hr0. cbn [obind].
  destruct cur as [|a cur'].
  - (* outdegree 0 *)
    rewrite nlen_nil, N.eqb_refl in *.
    unfold compress in H.
    destruct (min_len p =? 0); cbn in H; apply Reads_nil_inv in H; subst;
      (eexists; split; [reflexivity|]; split; [reflexivity|]; split;
       [left; reflexivity|]; cbn [r_ref]; rewrite N.eqb_refl; apply wf_record_empty).
  - set (cur := a :: cur') in *.
    assert (Hne : cur <> []) by (unfold cur; discriminate).
    destruct (nlen cur =? 0) eqn:E0.
    { apply N.eqb_eq in E0. unfold cur in E0. rewrite nlen_cons in E0. lia. }
    set (ref := if d =? 0 then None else match rl with [] => None | _ :: _ => Some rl end) in *.
    pose proof (compress_spec (min_len p) cur ref Hinc Hne) as Hc.
    cbv zeta in Hc.
    destruct (compress (min_len p) cur ref) as [bs e is rs].
    cbn [c_blocks c_extras c_ints c_res] in *.
    destruct Hc as (HP1 & Hwf & HP2 & Hm & Hf & Hincr & Hnil).
    cbn [app] in H.
    apply Reads_app_inv in H. destruct H as (s2 & HA & HT).
    (* the common continuation *)
    assert (Hfin : forall bs' copied,
      Permutation (copied ++ e) cur ->
      nsum bs' <= (if d =? 0 then 0 else nlen rl) ->
      Forall (fun b => 1 <= b) (tl bs') ->
      let r := mkRecord (nlen cur) d bs' copied is rs in
      parse_tail rd p x (nlen cur) d bs' copied s2 = Some (r, s') /\
      record_succ r = cur /\ (r_ref r = 0 \/ r_ref r = d) /\
      wf_record p x (if r_ref r =? 0 then 0 else nlen rl) r = true).
    { intros bs' copied HP Hsum Htl r. split; [|split; [|split]].
      - eapply parse_tail_ok; eassumption.
      - unfold record_succ, r. cbn [r_copied r_ints r_res].
        apply nsort_perm_inc; [|exact Hinc].
        eapply Permutation_trans; [|exact HP].
        apply Permutation_app_head. exact HP2.
      - right. reflexivity.
      - unfold r at 1. cbn [r_ref]. unfold r.
        eapply wf_record_mk; eassumption. }
    destruct (window p =? 0) eqn:EW.
    + (* no reference field *)
      apply N.eqb_eq in EW. specialize (Hw EW). subst d.
      apply Reads_nil_inv in HA. subst s2.
      cbn [obind]. rewrite N.eqb_refl. cbn [obind].
      unfold ref in HP1. rewrite N.eqb_refl in HP1.
      rewrite N.eqb_refl in Hfin.
      assert (Hz : nsum [] <= 0) by (cbn [nsum]; lia).
      destruct (Hfin [] [] HP1 Hz (Forall_nil _)) as (Ht & Hs & Hrf & Hwfr).
      eexists. split; [exact Ht|]. split; [exact Hs|]. split; [exact Hrf|exact Hwfr].
    + apply Reads_cons_inv in HA. destruct HA as (s1 & Hr1 & HA).
      rewrite Hr1. cbn [obind].
      destruct (d =? 0) eqn:ED.
      * apply Reads_nil_inv in HA. subst s2. cbn [obind].
        unfold ref in HP1.
        assert (Hz : nsum [] <= 0) by (cbn [nsum]; lia).
        destruct (Hfin [] [] HP1 Hz (Forall_nil _)) as (Ht & Hs & Hrf & Hwfr).
        eexists. split; [exact Ht|]. split; [exact Hs|]. split; [exact Hrf|exact Hwfr].
      * apply N.eqb_neq in ED. destruct (Hd ED) as [_ Hl].
        destruct (x <? d) eqn:EX; [apply N.ltb_lt in EX; lia|].
        rewrite Hl. cbn [obind].
        apply Reads_cons_inv in HA. destruct HA as (t1 & Hrb & HA).
        rewrite Hrb. cbn [obind].
        rewrite write_blocks_raw in HA.
        apply Reads_read_n in HA. rewrite raw_blocks_length in HA.
        replace (N.to_nat (nlen bs)) with (length bs) by (unfold nlen; lia).
        rewrite HA. cbn [obind].
        assert (Hbs : nsum bs <= nlen rl /\ Forall (fun x => 1 <= x) (tl bs) /\
                      Permutation (mask true bs rl ++ e) cur).
        { unfold ref in *. destruct rl as [|r0 rl'].
          - subst bs. cbn [nsum tl mask]. repeat split; [lia|constructor|exact HP1].
          - destruct Hwf as [Hw1 Hw2]. repeat split; assumption. }
        destruct Hbs as (Hb1 & Hb2 & Hb3).
        rewrite (unshift_raw bs Hb2).
        destruct (nlen rl <? nsum bs) eqn:EB; [apply N.ltb_lt in EB; lia|].
        cbn [obind].
        destruct (Hfin bs (mask true bs rl) Hb3 Hb1 Hb2) as (Ht & Hs & Hrf & Hwfr).
        eexists. split; [exact Ht|]. split; [exact Hs|]. split; [exact Hrf|exact Hwfr].
Qed.

(** * The whole graph *)

Lemma records_wf_gen le cs p (pos : bits -> N) : forall g x prev sel rest,
  codes_ok cs = true ->
  Forall inc g ->
  valid_sel p prev g sel = true ->
  nlen prev = x ->
  exists rs,
    decode_records bits (rd_bits le cs) pos p (length g) x prev
      (graph_bits le cs (encode_nodes p x prev g sel) ++ rest) = Some (rs, rest)
    /\ wf_records p x prev (map fst rs) = true.
Proof.
  induction g as [|cur g IH]; intros x prev sel rest Hok Hinc Hv Hx.
  - exists []. cbn [encode_nodes graph_bits flat_map app length decode_records map
                    wf_records].
    split; reflexivity.
  - destruct sel as [|d sel]; [cbn in Hv; discriminate|].
    cbn [valid_sel] in Hv. apply andb_true_iff in Hv. destruct Hv as [Hv1 Hv2].
    inversion Hinc as [|? ? Hc Hg]; subst.
    cbn [encode_nodes hd tl] in *.
    set (rl := match nth_opt prev (N.to_nat d - 1) with Some l => l | None => [] end) in *.
    set (fs := node_fields p (nlen prev) cur d rl) in *.
    set (recs := encode_nodes p (nlen prev + 1) (cur :: prev) g sel) in *.
    change (graph_bits le cs (fs :: recs))
      with (enc_fields le cs fs ++ graph_bits le cs recs) in *.
    rewrite <- app_assoc in *.
    set (s1 := graph_bits le cs recs ++ rest) in *.
    assert (Hdw : d <= window p).
    { apply orb_true_iff in Hv1. destruct Hv1 as [Hz|Hz].
      - apply N.eqb_eq in Hz. lia.
      - apply andb_true_iff in Hz. destruct Hz as [Hz _].
        apply andb_true_iff in Hz. destruct Hz as [Hz _].
        apply N.leb_le in Hz. exact Hz. }
    assert (Hd : d <> 0 -> d <= nlen prev /\ win_lookup p prev d = Some rl).
    { intros Hnz. apply orb_true_iff in Hv1. destruct Hv1 as [Hz|Hz].
      - apply N.eqb_eq in Hz. contradiction.
      - apply andb_true_iff in Hz. destruct Hz as [Hz Hn].
        apply andb_true_iff in Hz. destruct Hz as [Hz1 Hz2].
        apply N.leb_le in Hz1. apply N.leb_le in Hz2.
        split; [exact Hz2|].
        unfold win_lookup.
        destruct (d =? 0) eqn:E0; [apply N.eqb_eq in E0; contradiction|].
        destruct (window p <? d) eqn:E1; [apply N.ltb_lt in E1; lia|].
        cbn [orb]. unfold rl.
        destruct (nth_opt prev (N.to_nat d - 1)) as [l|]; [reflexivity|discriminate]. }
    pose proof (reads_bits le cs fs s1 Hok) as Hr.
    destruct (parse_record_wf bits (rd_bits le cs) p (nlen prev) cur d rl
                (win_lookup p prev) _ _ Hc Hdw Hd Hr) as (r & Hp & Hsucc & Hrf & Hwfr).
    destruct (IH (nlen prev + 1) (cur :: prev) sel rest Hok Hg Hv2 (nlen_cons cur prev))
      as (rs & Hdec & Hwfs).
    fold recs in Hdec. fold s1 in Hdec.
    exists ((r, cur, pos (enc_fields le cs fs ++ s1)) :: rs).
    cbn [length decode_records]. rewrite Hp. cbn [obind]. rewrite Hsucc, Hdec.
    split; [reflexivity|].
    cbn [map fst wf_records]. rewrite Hwfs, andb_true_r.
    destruct (r_ref r =? 0) eqn:ER; [exact Hwfr|].
    apply N.eqb_neq in ER. destruct Hrf as [Hrf|Hrf]; [contradiction|].
    rewrite Hrf. fold rl.
    replace (match nth_opt prev (N.to_nat d - 1) with Some rl0 => nlen rl0 | None => 0 end)
      with (nlen rl); [exact Hwfr|].
    unfold rl. destruct (nth_opt prev (N.to_nat d - 1)); reflexivity.
Qed.

Theorem records_wf : S_records_wf.
Proof.
  intros le cs p g sel rest pos Hok Hinc Hv.
  unfold encode_graph.
  apply (records_wf_gen le cs p pos g 0 [] sel rest Hok Hinc Hv eq_refl).
Qed.

Print Assumptions records_wf.
