(** Pinned statements of C03: all access paths to a compressed graph return the same
    successors.  Statements only.  Every statement is about the bit stream that the
    encoder model emits for an arbitrary strictly increasing graph [g], an arbitrary valid
    reference selection [sel] (both compressors are proved to select validly, C06), every
    assignment of the proved codes to the components, both endiannesses, arbitrary
    trailing bits [rest] (padding), and the offsets table made of the prefix sums of the
    record lengths (which is what the offsets file holds, C05). *)
From WG Require Import Base.Prelude Codes.Codes BV.Model BV.RefSel BV.Bits BV.BitsFacts
  BV.Access.
Local Open Scope N_scope.

Definition enc_stream le cs p g sel (rest : bits) : bits :=
  graph_bits le cs (encode_graph p 0 g sel) ++ rest.

Definition enc_offs le cs p g sel : list N :=
  prefix_sums 0 (node_bitlens le cs (encode_graph p 0 g sel)).

(** what the degrees-and-offsets scan must return: (offset, outdegree) per node *)
Definition offdeg_spec le cs p g sel : list (N * N) :=
  combine (firstn (length g) (enc_offs le cs p g sel)) (map nlen g).

(** Random access returns the list of the sequential decoder, with any fuel above the
    node number (every reference points to a smaller node). *)
Definition S_ra_eq_seq : Prop :=
  forall le cs p g sel rest fuel x l,
  codes_ok cs = true -> Forall inc g -> valid_sel p [] g sel = true ->
  nth_opt g x = Some l -> (x < fuel)%nat ->
  ra_labels bits (rd_bits le cs)
    (seek_bits (enc_offs le cs p g sel) (enc_stream le cs p g sel rest)) p fuel (N.of_nat x)
  = Some l.

(** Bounded nesting: fuel above the reference-chain depth of the node suffices ... *)
Definition S_ra_fuel_depth : Prop :=
  forall le cs p g sel rest fuel x l dep,
  codes_ok cs = true -> Forall inc g -> valid_sel p [] g sel = true ->
  nth_opt g x = Some l -> nth_opt (depths sel) x = Some dep -> (N.to_nat dep < fuel)%nat ->
  ra_labels bits (rd_bits le cs)
    (seek_bits (enc_offs le cs p g sel) (enc_stream le cs p g sel rest)) p fuel (N.of_nat x)
  = Some l.

(** ... hence [max_ref + 1] nested decodes when the selection respects [max_ref]. *)
Definition S_ra_fuel : Prop :=
  forall le cs p g sel rest m x l,
  codes_ok cs = true -> Forall inc g -> valid_sel p [] g sel = true ->
  max_ref p = Some m -> max_depth_ok (max_ref p) sel = true ->
  nth_opt g x = Some l ->
  ra_labels bits (rd_bits le cs)
    (seek_bits (enc_offs le cs p g sel) (enc_stream le cs p g sel rest)) p (S (N.to_nat m))
    (N.of_nat x)
  = Some l.

(** The lazy three-way merge of the random-access iterator yields the same list. *)
Definition S_ra_merge_eq : Prop :=
  forall le cs p g sel rest fuel x l,
  codes_ok cs = true -> Forall inc g -> valid_sel p [] g sel = true ->
  nth_opt g x = Some l -> (x < fuel)%nat ->
  ra_labels_merge bits (rd_bits le cs)
    (seek_bits (enc_offs le cs p g sel) (enc_stream le cs p g sel rest)) p fuel (N.of_nat x)
  = Some l.

(** [outdegree] reads the length of the list. *)
Definition S_outdegree_eq : Prop :=
  forall le cs p g sel rest x l,
  codes_ok cs = true -> Forall inc g -> valid_sel p [] g sel = true ->
  nth_opt g x = Some l ->
  acc_outdegree le cs (enc_offs le cs p g sel) (enc_stream le cs p g sel rest) (N.of_nat x)
  = Some (nlen l).

(** Sequential iteration started at any node [0 <= k <= n] (ring pre-filled by random
    access) yields exactly the lists of nodes [k..n). *)
Definition S_iter_from_eq : Prop :=
  forall le cs p g sel rest k,
  codes_ok cs = true -> Forall inc g -> valid_sel p [] g sel = true ->
  (k <= length g)%nat ->
  acc_iter_from le cs p (enc_offs le cs p g sel) (enc_stream le cs p g sel rest) (N.of_nat k)
  = Some (skipn k g).

(** The same with the ring buffer as the code has it ([window + 1] slots indexed by
    [node mod (window + 1)], pre-filled in ascending node order). *)
Definition S_iter_from_ring_eq : Prop :=
  forall le cs p g sel rest k,
  codes_ok cs = true -> Forall inc g -> valid_sel p [] g sel = true ->
  (k <= length g)%nat ->
  acc_iter_from_ring le cs p (enc_offs le cs p g sel) (enc_stream le cs p g sel rest)
    (N.of_nat k)
  = Some (skipn k g).

(** The sequential-only graph: decode from the start, discard [k] lists. *)
Definition S_seq_iter_from_eq : Prop :=
  forall le cs p g sel rest k,
  codes_ok cs = true -> Forall inc g -> valid_sel p [] g sel = true ->
  seq_iter_from bits (rd_bits le cs) p (length g) k (enc_stream le cs p g sel rest)
  = Some (skipn k g).

(** The degrees-and-offsets scan returns the outdegrees and the offsets ... *)
Definition S_offdeg_eq : Prop :=
  forall le cs p g sel rest,
  codes_ok cs = true -> Forall inc g -> valid_sel p [] g sel = true ->
  acc_offdeg le cs p (length g) (enc_stream le cs p g sel rest)
  = Some (offdeg_spec le cs p g sel).

(** ... also when started at any node [0 <= k <= n] with the degree ring pre-filled by
    [outdegree]. *)
Definition S_offdeg_from_eq : Prop :=
  forall le cs p g sel rest k,
  codes_ok cs = true -> Forall inc g -> valid_sel p [] g sel = true ->
  (k <= length g)%nat ->
  acc_offdeg_from le cs p (enc_offs le cs p g sel) (enc_stream le cs p g sel rest) (N.of_nat k)
  = Some (skipn k (offdeg_spec le cs p g sel)).

(** The same two scans with the degree ring as the code has it ([window] slots indexed by
    [node mod window], pre-filled in ascending node order, not touched when the window is 0). *)
Definition S_offdeg_ring_eq : Prop :=
  forall le cs p g sel rest,
  codes_ok cs = true -> Forall inc g -> valid_sel p [] g sel = true ->
  acc_offdeg_ring le cs p (length g) (enc_stream le cs p g sel rest)
  = Some (offdeg_spec le cs p g sel).

Definition S_offdeg_from_ring_eq : Prop :=
  forall le cs p g sel rest k,
  codes_ok cs = true -> Forall inc g -> valid_sel p [] g sel = true ->
  (k <= length g)%nat ->
  acc_offdeg_from_ring le cs p (enc_offs le cs p g sel) (enc_stream le cs p g sel rest)
    (N.of_nat k)
  = Some (skipn k (offdeg_spec le cs p g sel)).

(** The ring buffer of [window + 1] slots indexed by [node mod (window + 1)], a slot taken,
    cleared, refilled and put back per node ([next_successors], [Lender::next]), yields
    the graph. *)
Definition S_next_successors_eq : Prop :=
  forall le cs p g sel rest,
  codes_ok cs = true -> Forall inc g -> valid_sel p [] g sel = true ->
  acc_next_successors le cs p (length g) (enc_stream le cs p g sel rest) = Some g.
