(** Index-level executable model of the two iterators that random access is made of (C03):

    - [MaskedIter] of masked_iter.rs, field by field ([parent], [blocks], [block_idx],
      [size]): [MaskedIter::new], [Iterator::next], [ExactSizeIterator::len];
    - [Succ] of random_access.rs: the state that [BvGraph::labels] builds after parsing the
      record (the masked iterator over the referenced list, the interval vector with its
      fake final interval [(usize::MAX - 1, 1)], the cached next copied / interval /
      residual nodes with [usize::MAX] standing for "exhausted", the residual gaps still to
      be read) and [Succ::next].

    Every place where the Rust code would panic is an explicit error: [EIndex] (a [Vec]
    indexed out of bounds), [EUnderflow] (a [usize] subtraction below zero; a panic with
    overflow checks, a wrap-around without), [EUnwrap] (the reader has no more residual
    gaps), [EAssert] (a [debug_assert!]; only when [dbg = true], i.e. in a build with
    debug assertions).  [EFuel] is never produced by the code: it is what the *runner*
    returns if its fuel runs out (never the case with the fuel the collectors pass).

    The parent of a [MaskedIter] is any [ExactSizeIterator]; here it is the list of the
    items it still has to yield ([parent.next()] pops the head, [parent.len()] is the
    length).  Definitions only. *)
From WG Require Import Base.Prelude Codes.Codes BV.Model BV.RefSel BV.Bits BV.Access.

Module MaskedIterM.
Local Open Scope N_scope.

Inductive mi_err := EIndex | EUnderflow | EUnwrap | EAssert | EFuel.
Inductive mres (A : Type) := MOk (a : A) | MErr (e : mi_err).
Arguments MOk {A} a.
Arguments MErr {A} e.

(** * [MaskedIter] *)

Record mi := mkMi {
  mi_parent : list N;     (* what [parent] still yields *)
  mi_blocks : list N;     (* [blocks] *)
  mi_idx : nat;           (* [block_idx] *)
  mi_size : N }.          (* [size] *)

(** [size += if i % 2 == 0 { x } else { 0 }] over [blocks.iter().enumerate()] *)
Fixpoint even_sum (even : bool) (bs : list N) : N :=
  match bs with
  | [] => 0
  | b :: bs' => (if even then b else 0) + even_sum (negb even) bs'
  end.

(** [MaskedIter::new(parent, blocks)] *)
Definition mi_new (parent : list N) (blocks : list N) : mres mi :=
  let size := even_sum true blocks in
  let cumsum := nsum blocks in
  (* let remainder = parent.len() - cumsum_blocks; *)
  if nlen parent <? cumsum then MErr EUnderflow
  else
    let remainder := nlen parent - cumsum in
    if negb (remainder =? 0) && Nat.even (length blocks) then
      MOk (mkMi parent (blocks ++ [remainder]) 0 (size + remainder))
    else MOk (mkMi parent blocks 0 size).

(** [ExactSizeIterator::len]: the cached [size]; [next] does not touch it. *)
Definition mi_len (it : mi) : N := mi_size it.

(** [let result = self.parent.next(); self.blocks[self.block_idx] -= 1; result] *)
Definition mi_finish (it : mi) : mres (option N * mi) :=
  let result := hd_opt (mi_parent it) in
  match nth_opt (mi_blocks it) (mi_idx it) with
  | None => MErr EIndex
  | Some b =>
    if b =? 0 then MErr EUnderflow
    else MOk (result, mkMi (tl (mi_parent it)) (set_nth (mi_blocks it) (mi_idx it) (b - 1))
                        (mi_idx it) (mi_size it))
  end.

(** [MaskedIter::next] *)
Definition mi_next (dbg : bool) (it : mi) : mres (option N * mi) :=
  (* debug_assert!(self.block_idx <= self.blocks.len()); *)
  if dbg && Nat.ltb (length (mi_blocks it)) (mi_idx it) then MErr EAssert
  else
  (* let mut current_block = self.blocks[self.block_idx]; *)
  match nth_opt (mi_blocks it) (mi_idx it) with
  | None => MErr EIndex
  | Some cur =>
    if cur =? 0 then
      (* self.block_idx += 1; if self.block_idx >= self.blocks.len() { return None; } *)
      let i1 := S (mi_idx it) in
      if Nat.leb (length (mi_blocks it)) i1 then
        MOk (None, mkMi (mi_parent it) (mi_blocks it) i1 (mi_size it))
      else
        match nth_opt (mi_blocks it) i1 with
        | None => MErr EIndex
        | Some sk =>
          (* debug_assert!(self.blocks[self.block_idx] > 0); *)
          if dbg && (sk =? 0) then MErr EAssert
          (* for _ in 0..sk { let node = self.parent.next(); debug_assert!(node.is_some()); } *)
          else if dbg && (nlen (mi_parent it) <? sk) then MErr EAssert
          else
            let parent' := skipn (N.to_nat sk) (mi_parent it) in
            (* self.block_idx += 1; current_block = self.blocks[self.block_idx]; *)
            let i2 := S i1 in
            match nth_opt (mi_blocks it) i2 with
            | None => MErr EIndex
            | Some cur2 =>
              (* debug_assert_ne!(current_block, 0); *)
              if dbg && (cur2 =? 0) then MErr EAssert
              else mi_finish (mkMi parent' (mi_blocks it) i2 (mi_size it))
            end
        end
    else mi_finish it
  end.

(** calling [next] until it returns [None] *)
Fixpoint mi_run (dbg : bool) (fuel : nat) (it : mi) : mres (list N) :=
  match fuel with
  | O => MErr EFuel
  | S f =>
    match mi_next dbg it with
    | MErr e => MErr e
    | MOk (None, _) => MOk []
    | MOk (Some x, it') =>
      match mi_run dbg f it' with
      | MOk l => MOk (x :: l)
      | MErr e => MErr e
      end
    end
  end.

(** [MaskedIter::new(l.into_iter(), bs)]: what [len()] reports and what the iterator yields
    when drained; one unit of fuel per item of the parent, plus one for the final [None]. *)
Definition mi_collect (dbg : bool) (l bs : list N) : mres (N * list N) :=
  match mi_new l bs with
  | MErr e => MErr e
  | MOk it =>
    match mi_run dbg (S (length l)) it with
    | MOk out => MOk (mi_len it, out)
    | MErr e => MErr e
    end
  end.

(** * [Succ] *)

(** [usize::MAX] on the 64-bit targets *)
Definition usize_max : N := 18446744073709551615.

Record succ_st := mkSucc {
  s_size : N;                       (* [size]: the number of values left *)
  s_copied : option mi;             (* [copied_nodes_iter] *)
  s_intervals : list (N * N);       (* [intervals] (start, len) *)
  s_iidx : nat;                     (* [intervals_idx] *)
  s_res_to_go : N;                  (* [residuals_to_go] *)
  s_gaps : list N;                  (* what the next calls of [reader.read_residual()] return *)
  s_next_res : N;                   (* [next_residual_node] *)
  s_next_copied : N;                (* [next_copied_node] *)
  s_next_int : N }.                 (* [next_interval_node] *)

(** [Succ::new]: the empty iterator *)
Definition succ_empty : succ_st :=
  mkSucc 0 None [] 0 0 [] usize_max usize_max usize_max.

(** [self.copied_nodes_iter.as_mut().and_then(|iter| iter.next()).unwrap_or(usize::MAX)] *)
Definition fetch_copied (dbg : bool) (o : option mi) : mres (N * option mi) :=
  match o with
  | None => MOk (usize_max, None)
  | Some it =>
    match mi_next dbg it with
    | MErr e => MErr e
    | MOk (r, it') => MOk (match r with Some x => x | None => usize_max end, Some it')
    end
  end.

(** [let (start, len) = &mut self.intervals[idx]; len -= 1; next_interval_node = start;
    start += 1; idx += (len == 0) as usize] (through the mutable borrows); with [assert]
    the [debug_assert_ne!(len, 0)] of [Succ::next] precedes the subtraction.  Returns the new
    [next_interval_node], vector and index. *)
Definition int_advance (assert : bool) (iv : list (N * N)) (i : nat)
  : mres (N * list (N * N) * nat) :=
  match nth_opt iv i with
  | None => MErr EIndex
  | Some (start, len) =>
    if len =? 0 then MErr (if assert then EAssert else EUnderflow)
    else
      let len' := len - 1 in
      MOk (start, set_nth iv i (start + 1, len'), if len' =? 0 then S i else i)
  end.

(** [Succ::next] *)
Definition succ_next (dbg : bool) (s : succ_st) : mres (option N * succ_st) :=
  if s_size s =? 0 then MOk (None, s)
  else
    let size' := s_size s - 1 in
    if dbg && (s_next_copied s =? usize_max) && (s_next_res s =? usize_max)
           && (s_next_int s =? usize_max) then MErr EAssert
    else
      let m := N.min (s_next_res s) (s_next_int s) in
      if s_next_copied s <=? m then
        (* min >= self.next_copied_node *)
        match fetch_copied dbg (s_copied s) with
        | MErr e => MErr e
        | MOk (nc, cop') =>
          MOk (Some (s_next_copied s),
               mkSucc size' cop' (s_intervals s) (s_iidx s) (s_res_to_go s) (s_gaps s)
                      (s_next_res s) nc (s_next_int s))
        end
      else if m =? s_next_res s then
        if s_res_to_go s =? 0 then
          MOk (Some m,
               mkSucc size' (s_copied s) (s_intervals s) (s_iidx s) (s_res_to_go s) (s_gaps s)
                      usize_max (s_next_copied s) (s_next_int s))
        else
          match s_gaps s with
          | [] => MErr EUnwrap
          | gp :: gs =>
            MOk (Some m,
                 mkSucc size' (s_copied s) (s_intervals s) (s_iidx s) (s_res_to_go s - 1) gs
                        (s_next_res s + 1 + gp) (s_next_copied s) (s_next_int s))
          end
      else
        match int_advance dbg (s_intervals s) (s_iidx s) with
        | MErr e => MErr e
        | MOk (ni, iv', i') =>
          MOk (Some m,
               mkSucc size' (s_copied s) iv' i' (s_res_to_go s) (s_gaps s)
                      (s_next_res s) (s_next_copied s) ni)
        end.

Fixpoint succ_run (dbg : bool) (fuel : nat) (s : succ_st) : mres (list N) :=
  match fuel with
  | O => MErr EFuel
  | S f =>
    match succ_next dbg s with
    | MErr e => MErr e
    | MOk (None, _) => MOk []
    | MOk (Some x, s') =>
      match succ_run dbg f s' with
      | MOk l => MOk (x :: l)
      | MErr e => MErr e
      end
    end
  end.

(** the values that [read_residual] returns for the residuals after the first *)
Fixpoint res_gaps (prev : N) (rs : list N) : list N :=
  match rs with
  | [] => []
  | r :: rs' => (r - prev - 1) :: res_gaps r rs'
  end.

(** The end of [BvGraph::labels], once the masked iterator [cop] (if any) has been
    created: the bookkeeping of [nodes_left_to_decode] against [res.len()], the interval
    vector with its sentinel, the first residual, the first interval node and the first
    copied node. *)
Definition succ_setup (dbg : bool) (r : record) (cop : option mi) : mres succ_st :=
  (* nodes_left_to_decode -= res.len(); *)
  if r_outdeg r <? match cop with Some it => mi_len it | None => 0 end then MErr EUnderflow
  else
    (* result.intervals.push((usize::MAX - 1, 1)) after the real ones, if any *)
    let iv := match r_ints r with
              | [] => []
              | _ :: _ => r_ints r ++ [(usize_max - 1, 1)]
              end in
    (* setup the first interval node *)
    match (match iv with
           | [] => MOk (usize_max, iv, O)
           | _ :: _ => int_advance false iv 0
           end) with
    | MErr e => MErr e
    | MOk (ni, iv', i') =>
      (* cache the first copied node *)
      match fetch_copied dbg cop with
      | MErr e => MErr e
      | MOk (nc, cop') =>
        MOk (match r_res r with
             | [] => mkSucc (r_outdeg r) cop' iv' i' 0 [] usize_max nc ni
             | r0 :: rs => mkSucc (r_outdeg r) cop' iv' i' (nlen rs) (res_gaps r0 rs) r0 nc ni
             end)
      end
    end.

(** The part of [BvGraph::labels] after the fields have been read: the state built from
    the parsed record [r] of a node whose referenced list (if [r_ref r <> 0]) is [rl]. *)
Definition succ_of_record (dbg : bool) (rl : list N) (r : record) : mres succ_st :=
  (* if degree == 0 { return result; } *)
  if r_outdeg r =? 0 then MOk succ_empty
  else if r_ref r =? 0 then succ_setup dbg r None
  else
    (* let res = MaskedIter::new(neighbors, blocks); *)
    match mi_new rl (r_blocks r) with
    | MErr e => MErr e
    | MOk it => succ_setup dbg r (Some it)
    end.

(** draining [successors(x)]: one unit of fuel per item of the three streams plus one *)
Definition succ_collect (dbg : bool) (rl : list N) (r : record) : mres (list N) :=
  match succ_of_record dbg rl r with
  | MErr e => MErr e
  | MOk s =>
    succ_run dbg (S (length (r_copied r) + length (expand_ints (r_ints r)) + length (r_res r))) s
  end.

(** * Random access through the state machines *)

Section AccessSM.
  Variable St : Type.
  Variable rd : kind -> St -> option (N * St).
  Variable seek : N -> option St.

  (** [BvGraph::labels] drained, with [MaskedIter] and [Succ] at the level of their fields:
      the record of node [x] is parsed at its offset, the referenced list is obtained by a
      nested call, the state is built and [next] is called until [None].  A panic of either
      iterator is [None]. *)
  Fixpoint ra_labels_sm (dbg : bool) (p : params) (fuel : nat) (x : N) : option (list N) :=
    match fuel with
    | O => None
    | S f =>
      s <- seek x ;;
      '(r, _) <- parse_record St rd p x (fun d => ra_labels_sm dbg p f (x - d)) s ;;
      rl <- (if r_ref r =? 0 then Some [] else ra_labels_sm dbg p f (x - r_ref r)) ;;
      match succ_collect dbg rl r with
      | MOk l => Some l
      | MErr _ => None
      end
    end.
End AccessSM.

Definition acc_ra_sm dbg le cs p (offs : list N) (s : bits) (x : N) : option (list N) :=
  ra_labels_sm bits (rd_bits le cs) (seek_bits offs s) dbg p (length offs) x.

(** for the correspondence run: error kinds as small numbers *)
Definition mi_err_code (e : mi_err) : N :=
  match e with EIndex => 1 | EUnderflow => 2 | EUnwrap => 3 | EAssert => 4 | EFuel => 5 end.

End MaskedIterM.
Export MaskedIterM.
