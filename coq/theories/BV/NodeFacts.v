(** The node round trip: decoding what [node_fields] wrote gives back the list. *)
From WG Require Import Base.Prelude Codes.Codes BV.Model BV.RefSel BV.Statements BV.CompFacts.
From Coq Require Import ZifyBool ZifyN ZifyNat.
Local Open Scope N_scope.

(** * Sorted permutations of a strictly increasing list *)

Lemma StronglySorted_impl {A} (R R' : A -> A -> Prop) l :
  (forall x y, R x y -> R' x y) -> StronglySorted R l -> StronglySorted R' l.
Proof.
  intros HR. induction 1 as [|a l HS IH HF]; constructor; [exact IH|].
  eapply Forall_impl; [|exact HF]. intros; apply HR; assumption.
Qed.

Lemma sorted_perm_eq : forall l1 l2,
  StronglySorted N.le l1 -> StronglySorted N.le l2 -> Permutation l1 l2 -> l1 = l2.
Proof.
  induction l1 as [|a l1 IH]; intros l2 H1 H2 HP.
  - apply Permutation_nil in HP. auto.
  - destruct l2 as [|b l2].
    { apply Permutation_sym, Permutation_nil in HP. discriminate. }
    apply StronglySorted_inv in H1. apply StronglySorted_inv in H2.
    destruct H1 as [H1 Ha]. destruct H2 as [H2 Hb].
    assert (Hab : a = b).
    { assert (Hi1 : In a (b :: l2))
        by (eapply Permutation_in; [exact HP|left; reflexivity]).
      assert (Hi2 : In b (a :: l1))
        by (eapply Permutation_in; [apply Permutation_sym; exact HP|left; reflexivity]).
      rewrite Forall_forall in Ha, Hb.
      destruct Hi1 as [E|Hi1]; [auto|]. destruct Hi2 as [E|Hi2]; [auto|].
      specialize (Ha _ Hi2). specialize (Hb _ Hi1). lia. }
    subst b. f_equal. apply IH; auto. eapply Permutation_cons_inv; eauto.
Qed.

Lemma nsort_perm_inc l cur : Permutation l cur -> inc cur -> nsort l = cur.
Proof.
  intros HP Hinc. apply sorted_perm_eq.
  - unfold nsort.
    eapply StronglySorted_impl; [|apply NSort.StronglySorted_sort].
    + cbn beta. intros x y H. apply N.leb_le. exact H.
    + intros x y z Hxy Hyz. unfold is_true in *.
      apply N.leb_le in Hxy. apply N.leb_le in Hyz. apply N.leb_le. lia.
  - eapply StronglySorted_impl; [|exact Hinc]. intros; lia.
  - eapply Permutation_trans; [|exact HP]. apply Permutation_sym, NSort.Permuted_sort.
Qed.

(** * Reading back what was written *)

Section Node.
  Context {St : Type} (rd : kind -> St -> option (N * St)).

  Lemma Reads_nil_inv s s' : Reads rd s [] s' -> s = s'.
  Proof. intros H. inversion H; subst. reflexivity. Qed.

  Lemma Reads_cons_inv s k v fs s' :
    Reads rd s ((k, v) :: fs) s' -> exists s1, rd k s = Some (v, s1) /\ Reads rd s1 fs s'.
  Proof. intros H. inversion H; subst. eauto. Qed.

  Lemma Reads_app_inv : forall a b s s',
    Reads rd s (a ++ b) s' -> exists m, Reads rd s a m /\ Reads rd m b s'.
  Proof.
    induction a as [|[k v] a IH]; intros b s s' H.
    - exists s. split; [constructor|exact H].
    - cbn [app] in H. apply Reads_cons_inv in H. destruct H as (s1 & Hr & H).
      apply IH in H. destruct H as (m & Ha & Hb).
      exists m. split; [econstructor; eassumption|exact Hb].
  Qed.

  Lemma Reads_read_n k : forall vs s s',
    Reads rd s (map (fun v => (k, v)) vs) s' ->
    read_n St rd k (length vs) s = Some (vs, s').
  Proof.
    induction vs as [|v vs IH]; intros s s' H; cbn [map] in H; cbn [length read_n].
    - apply Reads_nil_inv in H. subst. reflexivity.
    - apply Reads_cons_inv in H. destruct H as (s1 & Hr & H).
      rewrite Hr. cbn [obind]. rewrite (IH _ _ H). reflexivity.
  Qed.

  (** ** blocks *)
  Definition raw_blocks (bs : list N) : list N :=
    match bs with [] => [] | b0 :: bs' => b0 :: map (fun b => b - 1) bs' end.

  Lemma write_blocks_raw bs : write_blocks bs = map (fun v => (KBlock, v)) (raw_blocks bs).
  Proof. destruct bs as [|b0 bs]; cbn [write_blocks raw_blocks map]; [reflexivity|].
    rewrite map_map. reflexivity. Qed.

  Lemma raw_blocks_length bs : length (raw_blocks bs) = length bs.
  Proof. destruct bs as [|b0 bs]; cbn [raw_blocks length]; [reflexivity|].
    rewrite map_length. reflexivity. Qed.

  Lemma unshift_raw bs :
    Forall (fun x => 1 <= x) (tl bs) -> unshift_blocks (raw_blocks bs) = bs.
  Proof.
    destruct bs as [|b0 bs]; cbn [tl raw_blocks unshift_blocks]; [reflexivity|].
    intros HF. f_equal. rewrite map_map.
    induction HF as [|b bs Hb HF IH]; cbn [map]; [reflexivity|].
    rewrite IH. f_equal. lia.
  Qed.

  (** ** intervals *)
  Lemma Reads_ints_tail L : forall is prev s s',
    Forall (minlen_ok L) is -> ints_from (prev + 1) is ->
    Reads rd s (write_ints_tail L prev is) s' ->
    read_ints_tail St rd L prev (length is) s = Some (is, s').
  Proof.
    induction is as [|[l len] is IH]; intros prev s s' Hm Hf H;
      cbn [write_ints_tail] in H; cbn [length read_ints_tail].
    - apply Reads_nil_inv in H. subst. reflexivity.
    - apply Reads_cons_inv in H. destruct H as (s1 & Hr1 & H).
      apply Reads_cons_inv in H. destruct H as (s2 & Hr2 & H).
      inversion Hm as [|? ? Hm1 Hm2]; subst. cbn [minlen_ok] in Hm1.
      cbn [ints_from] in Hf. destruct Hf as [Hf1 Hf2].
      rewrite Hr1. cbn [obind]. rewrite Hr2. cbn [obind].
      replace (prev + 1 + (l - prev - 1)) with l by lia.
      replace (len - L + L) with len by lia.
      rewrite (IH (l + len) s2 s' Hm2 Hf2 H). reflexivity.
  Qed.

  Lemma Reads_ints L x is s s' :
    Forall (minlen_ok L) is -> ints_from 0 is ->
    Reads rd s ((KIntCount, nlen is) :: write_ints L x is) s' ->
    read_ints St rd L x s = Some (is, s').
  Proof.
    intros Hm Hf H. apply Reads_cons_inv in H. destruct H as (s0 & Hr0 & H).
    unfold read_ints. rewrite Hr0. cbn [obind].
    destruct is as [|[l len] is].
    - rewrite nlen_nil, N.eqb_refl. cbn [write_ints] in H.
      apply Reads_nil_inv in H. subst. reflexivity.
    - destruct (nlen ((l, len) :: is) =? 0) eqn:E.
      { apply N.eqb_eq in E. rewrite nlen_cons in E. lia. }
      cbn [write_ints] in H.
      apply Reads_cons_inv in H. destruct H as (s1 & Hr1 & H).
      apply Reads_cons_inv in H. destruct H as (s2 & Hr2 & H).
      inversion Hm as [|? ? Hm1 Hm2]; subst. cbn [minlen_ok] in Hm1.
      cbn [ints_from] in Hf. destruct Hf as [_ Hf2].
      rewrite Hr1. cbn [obind]. rewrite Hr2. cbn [obind].
      rewrite to_int_to_nat.
      replace (Z.of_N x + (Z.of_N l - Z.of_N x))%Z with (Z.of_N l) by lia.
      destruct (Z.of_N l <? 0)%Z eqn:El; [lia|].
      rewrite N2Z.id.
      replace (len - L + L) with len by lia.
      replace (N.to_nat (nlen ((l, len) :: is)) - 1)%nat with (length is)
        by (unfold nlen; cbn [length]; lia).
      rewrite (Reads_ints_tail L is (l + len) s2 s' Hm2 Hf2 H). reflexivity.
  Qed.

  (** ** residuals *)
  Lemma Reads_res_tail : forall rs prev s s',
    inc (prev :: rs) ->
    Reads rd s (write_res_tail prev rs) s' ->
    read_res_tail St rd prev (length rs) s = Some (rs, s').
  Proof.
    induction rs as [|r rs IH]; intros prev s s' Hinc H;
      cbn [write_res_tail] in H; cbn [length read_res_tail].
    - apply Reads_nil_inv in H. subst. reflexivity.
    - apply Reads_cons_inv in H. destruct H as (s1 & Hr1 & H).
      unfold inc in Hinc. apply StronglySorted_inv in Hinc. destruct Hinc as [Hinc Hp].
      inversion Hp as [|? ? Hpr _]; subst.
      rewrite Hr1. cbn [obind].
      replace (prev + 1 + (r - prev - 1)) with r by lia.
      rewrite (IH r s1 s' Hinc H). reflexivity.
  Qed.

  Lemma Reads_res x rs s s' :
    inc rs ->
    Reads rd s (write_res x rs) s' ->
    read_res St rd x (length rs) s = Some (rs, s').
  Proof.
    intros Hinc H. destruct rs as [|r rs]; cbn [write_res] in H; cbn [length read_res].
    - apply Reads_nil_inv in H. subst. reflexivity.
    - apply Reads_cons_inv in H. destruct H as (s1 & Hr1 & H).
      rewrite Hr1. cbn [obind]. rewrite to_int_to_nat.
      replace (Z.of_N x + (Z.of_N r - Z.of_N x))%Z with (Z.of_N r) by lia.
      destruct (Z.of_N r <? 0)%Z eqn:El; [lia|].
      rewrite N2Z.id.
      rewrite (Reads_res_tail rs r s1 s' Hinc H). reflexivity.
  Qed.

  (** ** the part of [parse_record] after the copy blocks *)
  Definition parse_tail (p : params) (x deg d : N) (bs copied : list N) (s2 : St)
    : option (record * St) :=
    if deg <? nlen copied then None
    else
      let left := deg - nlen copied in
      '(is, s3) <-
        (if (left =? 0) || (min_len p =? 0) then Some ([], s2)
         else read_ints St rd (min_len p) x s2) ;;
      let ni := nlen (expand_ints is) in
      if left <? ni then None
      else
        '(rs, s4) <- read_res St rd x (N.to_nat (left - ni)) s3 ;;
        Some (mkRecord deg d bs copied is rs, s4).

  Lemma parse_tail_ok p x cur d bs copied e is rs s2 s' :
    Permutation (copied ++ e) cur ->
    Permutation (expand_ints is ++ rs) e ->
    Forall (minlen_ok (min_len p)) is -> ints_from 0 is -> inc rs ->
    (min_len p = 0 \/ e = [] -> is = []) ->
    Reads rd s2
      ((match e with
        | [] => []
        | _ :: _ => if min_len p =? 0 then []
                    else (KIntCount, nlen is) :: write_ints (min_len p) x is
        end) ++ write_res x rs) s' ->
    parse_tail p x (nlen cur) d bs copied s2
    = Some (mkRecord (nlen cur) d bs copied is rs, s').
  Proof.
    intros HP1 HP2 Hm Hf Hinc Hnil H.
    apply nlen_perm in HP1. rewrite nlen_app in HP1.
    apply nlen_perm in HP2. rewrite nlen_app in HP2.
    apply Reads_app_inv in H. destruct H as (s3 & HB & HC).
    unfold parse_tail.
    destruct (nlen cur <? nlen copied) eqn:E1; [apply N.ltb_lt in E1; lia|].
    replace (nlen cur - nlen copied) with (nlen e) by lia.
    assert (Hints :
      (if (nlen e =? 0) || (min_len p =? 0) then Some ([], s2)
       else read_ints St rd (min_len p) x s2) = Some (is, s3)).
    { destruct e as [|e0 e'].
      - rewrite nlen_nil, N.eqb_refl. cbn [orb].
        rewrite (Hnil (or_intror eq_refl)).
        apply Reads_nil_inv in HB. subst. reflexivity.
      - destruct (nlen (e0 :: e') =? 0) eqn:E2.
        { apply N.eqb_eq in E2. rewrite nlen_cons in E2. lia. }
        cbn [orb]. destruct (min_len p =? 0) eqn:E3.
        + apply N.eqb_eq in E3. rewrite (Hnil (or_introl E3)).
          apply Reads_nil_inv in HB. subst. reflexivity.
        + apply Reads_ints; assumption. }
    rewrite Hints. cbn [obind].
    destruct (nlen e <? nlen (expand_ints is)) eqn:E4; [apply N.ltb_lt in E4; lia|].
    replace (N.to_nat (nlen e - nlen (expand_ints is))) with (length rs)
      by (unfold nlen in *; lia).
    rewrite (Reads_res x rs s3 s' Hinc HC). reflexivity.
  Qed.
End Node.

(** * The node round trip *)

Lemma nsort_nil : nsort [] = [].
Proof. reflexivity. Qed.

Lemma parse_record_ok (St : Type) (rd : kind -> St -> option (N * St))
  p x cur d rl lookup s s' :
  inc cur ->
  (window p = 0 -> d = 0) ->
  (d <> 0 -> d <= x /\ lookup d = Some rl) ->
  Reads rd s (node_fields p x cur d rl) s' ->
  exists r, parse_record St rd p x lookup s = Some (r, s') /\ record_succ r = cur.
Proof.
  intros Hinc Hw Hd H.
  unfold node_fields, write_node in H.
  apply Reads_cons_inv in H. destruct H as (s0 & Hr0 & H).
  unfold parse_record. rewrite Hr0. cbn [obind].
  destruct cur as [|a cur'].
  - (* outdegree 0 *)
    rewrite nlen_nil, N.eqb_refl in *.
    unfold compress in H.
    destruct (min_len p =? 0); cbn in H; apply Reads_nil_inv in H; subst;
      (eexists; split; [reflexivity|reflexivity]).
  - set (cur := a :: cur') in *.
    assert (Hne : cur <> []) by (unfold cur; discriminate).
    destruct (nlen cur =? 0) eqn:E0.
    { apply N.eqb_eq in E0. unfold cur in E0. rewrite nlen_cons in E0. lia. }
    set (ref := if d =? 0 then None else match rl with [] => None | _ :: _ => Some rl end) in *.
    pose proof (compress_spec (min_len p) cur ref Hinc Hne) as Hc.
    cbv zeta in Hc.
    destruct (compress (min_len p) cur ref) as [bs e is rs].
    cbn [c_blocks c_extras c_ints c_res] in *.
    destruct Hc as (HP1 & Hwf & HP2 & Hm & Hf & Hincr & Hnil).
    cbn [app] in H.
    apply Reads_app_inv in H. destruct H as (s2 & HA & HT).
    (* the common continuation *)
    assert (Hfin : forall bs' copied,
      Permutation (copied ++ e) cur ->
      parse_tail rd p x (nlen cur) d bs' copied s2
      = Some (mkRecord (nlen cur) d bs' copied is rs, s') /\
      record_succ (mkRecord (nlen cur) d bs' copied is rs) = cur).
    { intros bs' copied HP. split.
      - eapply parse_tail_ok; eassumption.
      - unfold record_succ. cbn [r_copied r_ints r_res].
        apply nsort_perm_inc; [|exact Hinc].
        eapply Permutation_trans; [|exact HP].
        apply Permutation_app_head. exact HP2. }
    destruct (window p =? 0) eqn:EW.
    + (* no reference field *)
      apply N.eqb_eq in EW. specialize (Hw EW). subst d.
      apply Reads_nil_inv in HA. subst s2.
      cbn [obind]. rewrite N.eqb_refl. cbn [obind].
      unfold ref in HP1. rewrite N.eqb_refl in HP1.
      destruct (Hfin [] [] HP1) as [Ht Hs].
      eexists. split; [exact Ht|exact Hs].
    + apply Reads_cons_inv in HA. destruct HA as (s1 & Hr1 & HA).
      rewrite Hr1. cbn [obind].
      destruct (d =? 0) eqn:ED.
      * apply Reads_nil_inv in HA. subst s2. cbn [obind].
        unfold ref in HP1.
        destruct (Hfin [] [] HP1) as [Ht Hs].
        eexists. split; [exact Ht|exact Hs].
      * apply N.eqb_neq in ED. destruct (Hd ED) as [Hdx Hl].
        destruct (x <? d) eqn:EX; [apply N.ltb_lt in EX; lia|].
        rewrite Hl. cbn [obind].
        apply Reads_cons_inv in HA. destruct HA as (t1 & Hrb & HA).
        rewrite Hrb. cbn [obind].
        rewrite write_blocks_raw in HA.
        apply Reads_read_n in HA. rewrite raw_blocks_length in HA.
        replace (N.to_nat (nlen bs)) with (length bs) by (unfold nlen; lia).
        rewrite HA. cbn [obind].
        assert (Hbs : nsum bs <= nlen rl /\ Forall (fun x => 1 <= x) (tl bs) /\
                      Permutation (mask true bs rl ++ e) cur).
        { unfold ref in *. destruct rl as [|r0 rl'].
          - subst bs. cbn [nsum tl mask]. repeat split; [lia|constructor|exact HP1].
          - destruct Hwf as [Hw1 Hw2]. repeat split; assumption. }
        destruct Hbs as (Hb1 & Hb2 & Hb3).
        rewrite (unshift_raw bs Hb2).
        destruct (nlen rl <? nsum bs) eqn:EB; [apply N.ltb_lt in EB; lia|].
        cbn [obind].
        destruct (Hfin bs (mask true bs rl) Hb3) as [Ht Hs].
        eexists. split; [exact Ht|exact Hs].
Qed.

Theorem node_roundtrip : S_node_roundtrip.
Proof.
  unfold S_node_roundtrip. intros St rd p x cur d rl lookup s s' Hinc Hw Hd H.
  destruct (parse_record_ok St rd p x cur d rl lookup s s' Hinc Hw Hd H) as (r & Hp & Hs).
  unfold decode_node. rewrite Hp. cbn [obind]. rewrite Hs. reflexivity.
Qed.

Print Assumptions node_roundtrip.
