(** Extraction of the executable models to OCaml.  Only [ExtrOcamlBasic] is used: [N],
    [Z], [positive], [nat] stay inductive; no [Extract Constant]. *)
From Coq Require Import Extraction ExtrOcamlBasic.
(* one import per line (union merge) *)
From WG Require Import Base.Prelude.
From WG Require Import Codes.Codes.
From WG Require Import BV.Model.
From WG Require Import BV.RefSel.
From WG Require Import BV.Bits.
From WG Require Import Par.Splice.
From WG Require Import Flags.Props.
From WG Require Import Algo.PageRankQ.
From WG Require Import Algo.PageRankStatements.

Extraction Language OCaml.

(* one name per line (the file is merged with "union"): add new lines before the final period *)
Extraction "model.ml"
  to_nat
  to_int
  nsort
  incb
  enc
  dec
  code_len
  nameable
  compress
  node_fields
  decode_graph
  decode_node
  rd_fields
  encode_graph
  valid_sel
  depths
  greedy_sel
  zuck_sel
  fields_len
  rd_bits
  enc_fields
  graph_bits
  node_bitlens
  prefix_sums
  offsets_bits
  dec_gammas
  decode_records
  wf_records
  refs_in_chunk
  max_depth_ok
  record_succ
  par_comp
  task_queue
  legal_cuts
  segments
  to_props
  parse_properties
  props_length
  from_props
  representable
  java_from_props
  version
  pr_solve
  residual_zero
  certified
  pr_iterate
  sweep
  l1dist
  dangling_rank
  vecf
  predf
  Qred
  Qle_bool
  Qeq_bool
  Qabs.Qabs
  Qplus
  Qminus
  Qmult
  Qdiv
  sumn
.
