(** Extraction of the executable models to OCaml.  Only [ExtrOcamlBasic] is used: [N],
    [Z], [positive], [nat] stay inductive; no [Extract Constant]. *)
From Coq Require Import Extraction ExtrOcamlBasic.
(* one import per line (union merge) *)
From WG Require Import Base.Prelude.
From WG Require Import Codes.Codes.
From WG Require Import BV.Model.
From WG Require Import BV.RefSel.
From WG Require Import BV.Bits.
From WG Require Import Par.Splice.
From WG Require Import Par.LabelStore.
From WG Require Import Flags.Props.
From WG Require Import Visits.Bfs.
From WG Require Import Visits.Dfs.
From WG Require Import Algo.HyperBall.
From WG Require Import Split.Model.
From WG Require Import Split.ArcList.
From WG Require Import Algo.Scc.
From WG Require Import Algo.Llp.
From WG Require Import Algo.BigCheck.
From WG Require Import Algo.EssSpec.
From WG Require Import Algo.Ess.
From WG Require Import Algo.EssScc.
From WG Require Import Sort.Pipeline.
From WG Require Import Transform.Pipelines.
From WG Require Import PMF.Sched.
From WG Require Import PMF.Ord.
From WG Require Import BV.Access.
From WG Require Import BV.MaskedIter.
From WG Require Import Algo.PageRankQ.
From WG Require Import Algo.PageRankStatements.
From WG Require Import Links.LoadLinkStatements.

Extraction Language OCaml.

(* one name per line (the file is merged with "union"): add new lines before the final period *)
Extraction "model.ml"
  to_nat
  to_int
  nsort
  incb
  enc
  dec
  code_len
  nameable
  compress
  node_fields
  decode_graph
  decode_node
  rd_fields
  encode_graph
  valid_sel
  depths
  greedy_sel
  greedy_run_ok
  zuck_sel
  fields_len
  rd_bits
  enc_fields
  graph_bits
  node_bitlens
  prefix_sums
  offsets_bits
  dec_gammas
  decode_records
  wf_records
  refs_in_chunk
  max_depth_ok
  record_succ
  par_comp
  task_queue
  legal_cuts
  segments
  to_props
  parse_properties
  props_length
  from_props
  representable
  java_from_props
  version
  bfs_seq
  bfs_levels
  tag_levels
  level_sizes
  par_step
  par_levels
  steps
  bfs_order
  bfs_from_roots
  dfs
  ev_upto
  ev_erase
  DfsM.top_sort
  is_acyclic
  dfs_order
  dfs_order_spec
  dfs_filter
  wf_events
  wf_events_prefix
  reach_plus
  reach_star
  has_cycle_brute
  check_topsort
  is_perm_nodes
  pre_nodes
  post_nodes
  flagged
  hb_run_regs
  hb_run_regs_prefix
  cs_curr
  cs_mod
  cs_flags
  cs_check
  regs_sync
  ball_sizes
  hb_refused
  scan
  subg
  slices
  cuts_ok
  seq_lab
  ra_lab
  left_lab
  right_lab
  unit_lab
  permuted_lab
  noloops_lab
  par_lab
  union_lab
  lb_iter
  split_iter
  into_par_uniform
  into_par_cutpoints
  uniform_cuts
  node_ranges
  chainb
  fair_chunks_new
  fair_chunks_with
  dcf_of
  dcf_cuts
  cumul
  al_skip
  al_collect
  graph_of_arcs
  reach_table
  check_scc_tab
  check_scc
  tarjan
  kosaraju
  transpose
  SccM.top_sort
  symm_seq
  symm_par
  finish_orderedb
  compute_sizes
  sort_by_size
  sorts_by_sizeb
  non_increasing
  same_partitionb
  tarjan_early
  llp_combine
  llp_combine_labels
  labels_to_ranks
  invert_permutation
  permute_graph
  lp_final
  check_lt
  check_perm
  check_dense
  check_refinement
  check_monotone
  check_inverse
  check_iso
  big_check_inverse
  big_check_ranks
  big_check_sort_by_size
  EssSpecM.wf_graph
  dist_matrix
  eccs_f
  eccs_b
  diameter_of
  radius_from
  radial_of
  largest_scc_nodes
  check_eccf
  check_eccb
  check_diam
  check_dv
  check_rad
  check_rv
  check_ess_dm
  replay
  run_ops
  init_st
  find_missing
  missing_nodes
  output
  check_values
  run_logged
  run_logged_dm
  mk_sdata
  scc_graph
  run_logged_dir
  replay_dir
  best_pivots_dir
  count_la
  legal_pivots_symb
  one_pivot_each
  pivots_by_node
  split_heur
  run_observed_dm
  model_pivots
  legal_pivotsb
  run_observed_dir
  model_pivots_dir
  sort_pipeline
  sort_spec
  SortM.boundaries
  part_id
  codec_encode
  codec_decode
  codec_rt
  kmerge
  isort
  producer
  flush_batch
  batch_size_par
  batch_size_seq
  SortM.ksort
  kdedup
  sdedup
  kleb
  run_xop
  run_parts
  xop_spec
  xop_nout
  XformM.ksort
  ksortd
  symmetrize_sorted_par
  symmetrize_sorted_par_lenders
  phi_transpose
  transpose_labeled_spec
  XformM.boundaries
  XformM.wf_graph
  wf_lgraph
  below
  graph_arcs
  pmf_run
  pmf_ord_run
  pmf_ord_run_prefix
  caller_pool
  caller_threads
  seq_branch
  pmf_tasks
  combine_results
  seq_fold
  ord_value
  acc_ra
  acc_ra_merge
  acc_outdegree
  acc_iter_from
  acc_iter_from_ring
  acc_offdeg
  acc_offdeg_from
  acc_offdeg_ring
  acc_offdeg_from_ring
  acc_next_successors
  mi_collect
  succ_collect
  acc_ra_sm
  mi_err_code
  seq_iter_from
  ra_labels
  seek_bits
  ser_enc
  ser_dec
  ser_valid
  ser_ok
  labels_valid
  lab_seq
  lab_closed
  comp_labeled
  par_comp_labeled
  lab_read_seq
  lab_read_ra_all
  lab_ef
  read_zip_seq
  read_zip_ra
  zip_nodes
  labs
  succs
  pr_solve
  system_rows
  residual_zero
  certified
  pr_iterate
  sweep
  l1dist
  dangling_rank
  vecf
  predf
  Qred
  Qle_bool
  Qeq_bool
  Qabs.Qabs
  Qplus
  Qminus
  Qmult
  Qdiv
  sumn
  load_seq
  load_ra
  load_ra_files
.
