(** Extraction of the executable models to OCaml.  Only [ExtrOcamlBasic] is used: [N],
    [Z], [positive], [nat] stay inductive; no [Extract Constant]. *)
From Coq Require Import Extraction ExtrOcamlBasic.
From WG Require Import Base.Prelude Codes.Codes BV.Model BV.RefSel BV.Bits Par.Splice Flags.Props.

Extraction Language OCaml.

Extraction "model.ml"
  to_nat to_int nsort incb
  enc dec code_len nameable
  compress node_fields decode_graph decode_node rd_fields encode_graph valid_sel depths
  greedy_sel zuck_sel fields_len
  rd_bits enc_fields graph_bits node_bitlens prefix_sums offsets_bits dec_gammas
  decode_records wf_records refs_in_chunk max_depth_ok record_succ
  par_comp task_queue legal_cuts segments
  to_props parse_properties props_length from_props representable java_from_props version.
