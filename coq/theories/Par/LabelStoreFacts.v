(** Proofs of the pinned statements of Par/LabelStatements.v (C07). *)
From WG Require Import Base.Prelude Codes.Codes Codes.Statements Codes.CodesFacts
  BV.Model BV.RefSel BV.Statements BV.Bits BV.BitsFacts BV.OffsetsFacts
  Par.Splice Par.SpliceFacts Par.LabelStore Par.LabelStatements.
From Coq Require Import ZifyBool ZifyN ZifyNat.
Local Open Scope N_scope.

(** * Small facts *)

Lemma nlen_nil {A} : nlen (@nil A) = 0.
Proof. reflexivity. Qed.

Lemma to_nat_nlen {A} (l : list A) : N.to_nat (nlen l) = length l.
Proof. unfold nlen. apply Nat2N.id. Qed.

Lemma firstn_nlen_app {A} (w r : list A) : firstn (N.to_nat (nlen w)) (w ++ r) = w.
Proof. rewrite to_nat_nlen. apply firstn_length_app. Qed.

Lemma skipn_nlen_app {A} (w r : list A) : skipn (N.to_nat (nlen w)) (w ++ r) = r.
Proof. rewrite to_nat_nlen. apply skipn_length_app. Qed.

Lemma nlen_map {A B} (f : A -> B) (l : list A) : nlen (map f l) = nlen l.
Proof. unfold nlen. rewrite map_length. reflexivity. Qed.

Definition gammas (l : list N) : bits := flat_map gamma_be l.

Lemma gammas_app a b : gammas (a ++ b) = gammas a ++ gammas b.
Proof. unfold gammas. apply flat_map_app. Qed.

Lemma dec_gamma_be d rest : dec false Gamma (gamma_be d ++ rest) = Some (d, rest).
Proof. unfold gamma_be. cbn [enc dec]. apply dec_enc_gamma. Qed.

(** * Serializers: prefix law and non-emptiness *)

Lemma ser_prefix le sr v rest :
  ser_valid sr v = true -> ser_dec le sr (ser_enc le sr v ++ rest) = Some (v, rest).
Proof.
  destruct sr as [w|]; cbn [ser_valid ser_enc ser_dec]; intros H.
  - rewrite rbits_wbits_N. apply N.ltb_lt in H. rewrite N.mod_small by exact H. reflexivity.
  - cbn [enc dec]. apply dec_enc_gamma.
Qed.

Lemma ser_nonempty le sr v : ser_ok sr = true -> ser_enc le sr v <> [].
Proof.
  destruct sr as [w|]; cbn [ser_ok ser_enc]; intros H E.
  - apply (f_equal (@length bool)) in E. rewrite length_wbits in E. cbn [length] in E. lia.
  - apply (f_equal (@nlen bool)) in E. cbn [enc] in E. rewrite nlen_enc_gamma, nlen_nil in E. lia.
Qed.

(** * Polymorphic segments *)

Lemma psegments_spec {A} : forall cuts c (l : list A),
  nondecreasing (c :: cuts) = true ->
  c + nlen l = last (c :: cuts) 0 ->
  cuts <> [] ->
  length (psegments (c :: cuts) l) = length cuts
  /\ concat (psegments (c :: cuts) l) = l.
Proof.
  induction cuts as [|b cuts IH]; intros c g Hnd Hlast Hne; [contradiction|].
  cbn [nondecreasing] in Hnd. apply andb_prop in Hnd. destruct Hnd as [Hcb Hnd].
  apply N.leb_le in Hcb.
  change (last (c :: b :: cuts) 0) with (last (b :: cuts) 0) in Hlast.
  pose proof (nondecreasing_last cuts b Hnd) as Hbl.
  assert (Hk : (N.to_nat (b - c) <= length g)%nat) by (unfold nlen in Hlast; lia).
  change (psegments (c :: b :: cuts) g)
    with (firstn (N.to_nat (b - c)) g :: psegments (b :: cuts) (skipn (N.to_nat (b - c)) g)).
  destruct cuts as [|b' cuts].
  - cbn [psegments length concat last] in *. rewrite app_nil_r.
    assert (E : N.to_nat (b - c) = length g) by (unfold nlen in Hlast; lia).
    rewrite E, firstn_all. split; reflexivity.
  - destruct (IH b (skipn (N.to_nat (b - c)) g) Hnd) as (H1 & H3).
    + unfold nlen in *. rewrite skipn_length. lia.
    + discriminate.
    + cbn [length concat]. rewrite H1, H3. split; [reflexivity|]. apply firstn_skipn.
Qed.

Lemma psegments_map {A B} (f : A -> B) : forall cuts (l : list A),
  psegments cuts (map f l) = map (map f) (psegments cuts l).
Proof.
  induction cuts as [|a cuts IH]; intros l; [reflexivity|].
  destruct cuts as [|b cuts]; [reflexivity|].
  change (psegments (a :: b :: cuts) (map f l))
    with (firstn (N.to_nat (b - a)) (map f l)
            :: psegments (b :: cuts) (skipn (N.to_nat (b - a)) (map f l))).
  change (psegments (a :: b :: cuts) l)
    with (firstn (N.to_nat (b - a)) l :: psegments (b :: cuts) (skipn (N.to_nat (b - a)) l)).
  cbn [map]. rewrite firstn_map, skipn_map, IH. reflexivity.
Qed.

Lemma segments_psegments : forall cuts g, segments cuts g = psegments cuts g.
Proof.
  induction cuts as [|a cuts IH]; intros g; [reflexivity|].
  destruct cuts as [|b cuts]; [reflexivity|].
  change (segments (a :: b :: cuts) g)
    with (firstn (N.to_nat (b - a)) g :: segments (b :: cuts) (skipn (N.to_nat (b - a)) g)).
  rewrite IH. reflexivity.
Qed.

(** * The store *)
Section StoreFacts.
  Variable L : Type.
  Variable lenc : L -> bits.

  Notation F := (flat_map lenc).
  Definition nl (ls : list L) : N := nlen (flat_map lenc ls).

  Lemma fold_push_label : forall ls s,
    fold_left (store_push_label L lenc) ls s
    = mkStore (st_lbits s ++ F ls) (st_obits s) (st_curr s + nl ls) (st_started s)
              (st_tot_l s + nl ls) (st_tot_o s).
  Proof.
    unfold nl.
    induction ls as [|l ls IH]; intros s; cbn [fold_left flat_map].
    - destruct s as [a b c d e f]. cbn [st_lbits st_obits st_curr st_started st_tot_l st_tot_o].
      rewrite app_nil_r, nlen_nil, !N.add_0_r. reflexivity.
    - rewrite IH. unfold store_push_label.
      cbn [st_lbits st_obits st_curr st_started st_tot_l st_tot_o].
      rewrite <- app_assoc, nlen_app. f_equal; lia.
  Qed.

  (** what the files will contain once the pending offset is flushed *)
  Record sview := mkView { v_l : bits; v_o : bits; v_tl : N; v_to : N }.

  Definition pending (s : store) : list N := if st_started s then [st_curr s] else [].

  Definition view (s : store) : sview :=
    mkView (st_lbits s) (st_obits s ++ gammas (pending s)) (st_tot_l s)
           (st_tot_o s + nlen (gammas (pending s))).

  Definition view_add (v : sview) (nodes : list (list L)) : sview :=
    mkView (v_l v ++ flat_map F nodes) (v_o v ++ gammas (map nl nodes))
           (v_tl v + nlen (flat_map F nodes)) (v_to v + nlen (gammas (map nl nodes))).

  Lemma view_add_nil v : view_add v [] = v.
  Proof.
    destruct v as [a b c d]. unfold view_add. cbn [flat_map map gammas v_l v_o v_tl v_to].
    rewrite !app_nil_r, nlen_nil, !N.add_0_r. reflexivity.
  Qed.

  Lemma view_add_app v a b : view_add (view_add v a) b = view_add v (a ++ b).
  Proof.
    unfold view_add. cbn [v_l v_o v_tl v_to].
    rewrite map_app, gammas_app, flat_map_app, !nlen_app, <- !app_assoc. f_equal; lia.
  Qed.

  Lemma view_push s ls : view (store_push L lenc s ls) = view_add (view s) [ls].
  Proof.
    unfold store_push. rewrite fold_push_label. unfold store_push_node, view, view_add, pending.
    destruct (st_started s);
      cbn [push_offset st_lbits st_obits st_curr st_started st_tot_l st_tot_o
           v_l v_o v_tl v_to flat_map map gammas];
      rewrite ?app_nil_r, ?nlen_nil, ?N.add_0_r, ?N.add_0_l; reflexivity.
  Qed.

  Lemma view_fold : forall nodes s,
    view (fold_left (store_push L lenc) nodes s) = view_add (view s) nodes.
  Proof.
    induction nodes as [|a nodes IH]; intros s; cbn [fold_left].
    - rewrite view_add_nil. reflexivity.
    - rewrite IH, view_push, view_add_app. reflexivity.
  Qed.

  Lemma view_flush s :
    let s' := store_flush s in
    mkView (st_lbits s') (st_obits s') (st_tot_l s') (st_tot_o s') = view s.
  Proof.
    unfold store_flush, view, pending. destruct (st_started s);
      cbn [push_offset st_lbits st_obits st_curr st_started st_tot_l st_tot_o gammas flat_map];
      rewrite ?app_nil_r, ?nlen_nil, ?N.add_0_r; reflexivity.
  Qed.

  Lemma store_run_view s nodes :
    let s' := store_run L lenc s nodes in
    mkView (st_lbits s') (st_obits s') (st_tot_l s') (st_tot_o s') = view_add (view s) nodes.
  Proof. cbv zeta. unfold store_run. rewrite view_flush, view_fold. reflexivity. Qed.

  (** closed form of the sequential store *)
  Lemma lseq_spec nodes :
    lseq L lenc nodes
    = mkFiles (flat_map F nodes) (gammas (0 :: map nl nodes)) (nlen (flat_map F nodes)).
  Proof.
    unfold lseq.
    pose proof (store_run_view (store_init store_new) nodes) as H. cbv zeta in H.
    set (s' := store_run L lenc (store_init store_new) nodes) in *.
    unfold view_add, view, pending, store_init, store_new in H.
    cbn [push_offset st_lbits st_obits st_curr st_started st_tot_l st_tot_o
         v_l v_o v_tl v_to gammas flat_map app] in H.
    rewrite app_nil_r in H. injection H as H1 H2 H3 H4.
    rewrite H1, H2, H3, N.add_0_l. reflexivity.
  Qed.

  (** ** Concatenation of the parts *)
  Definition files_add (acc : lfiles) (nodes : list (list L)) : lfiles :=
    mkFiles (f_lbits acc ++ flat_map F nodes) (f_obits acc ++ gammas (map nl nodes))
            (f_ltotal acc + nlen (flat_map F nodes)).

  Lemma files_add_nil acc : files_add acc [] = acc.
  Proof.
    destruct acc as [a b c]. unfold files_add. cbn [flat_map map gammas f_lbits f_obits f_ltotal].
    rewrite !app_nil_r, nlen_nil, N.add_0_r. reflexivity.
  Qed.

  Lemma files_add_app acc a b : files_add (files_add acc a) b = files_add acc (a ++ b).
  Proof.
    unfold files_add. cbn [f_lbits f_obits f_ltotal].
    rewrite map_app, gammas_app, flat_map_app, nlen_app, <- !app_assoc. f_equal. lia.
  Qed.

  Definition part_step (acc : lfiles) (o : option lpart) : lfiles :=
    match o with Some pt => concat_part acc pt | None => acc end.

  Lemma lworker_step acc seg pad :
    part_step acc (lworker L lenc seg pad) = files_add acc seg.
  Proof.
    destruct seg as [|a seg]; [cbn [lworker part_step]; rewrite files_add_nil; reflexivity|].
    unfold lworker.
    pose proof (store_run_view store_new (a :: seg)) as H. cbv zeta in H.
    set (s' := store_run L lenc store_new (a :: seg)) in *.
    unfold view_add, view, pending, store_new in H.
    cbn [st_lbits st_obits st_curr st_started st_tot_l st_tot_o
         v_l v_o v_tl v_to gammas flat_map app] in H.
    injection H as H1 H2 H3 H4. rewrite N.add_0_l in H3, H4.
    cbn [part_step]. unfold concat_part, files_add.
    cbn [p_lfile p_lwritten p_ofile p_owritten].
    rewrite H1, H2, H3, H4. rewrite !firstn_nlen_app. reflexivity.
  Qed.

  Lemma lworkers_fold : forall segs pads acc,
    fold_left part_step (lworkers L lenc segs pads) acc = files_add acc (concat segs).
  Proof.
    induction segs as [|s segs IH]; intros pads acc; cbn [lworkers fold_left concat].
    - rewrite files_add_nil. reflexivity.
    - rewrite lworker_step, IH, files_add_app. reflexivity.
  Qed.

  Lemma lworker_none seg pad : lworker L lenc seg pad = None <-> seg = [].
  Proof. destruct seg; cbn [lworker]; split; intros H; try reflexivity; discriminate. Qed.
End StoreFacts.

(** the queue output drives the concatenation: when the jobs come out in id order and a
    job is present exactly when the label part is, every part is concatenated in order *)
Lemma lconcat_inorder : forall (q : list item) lws pre acc,
  map fst q = seq (length pre) (length q) ->
  Forall2 (fun it o => snd it = None <-> o = None) q lws ->
  lconcat q (pre ++ lws) acc = fold_left part_step lws acc.
Proof.
  induction q as [|[id oj] q IH]; intros lws pre acc Hid HF; inversion HF as [|? o ? lws' HR HF']; subst.
  - reflexivity.
  - cbn [map fst length seq] in Hid. injection Hid as Eid Hid. subst id.
    assert (Hn : nth_opt (pre ++ o :: lws') (length pre) = Some o).
    { rewrite nth_opt_error, nth_error_app2 by lia. rewrite Nat.sub_diag. reflexivity. }
    cbn [snd] in HR. cbn [lconcat fold_left].
    replace (pre ++ o :: lws') with ((pre ++ [o]) ++ lws') in * by (rewrite <- app_assoc; reflexivity).
    assert (Hlen : length (pre ++ [o]) = S (length pre)) by (rewrite app_length; cbn [length]; lia).
    destruct oj as [j|].
    + rewrite Hn. destruct o as [pt|].
      * cbn [part_step]. apply IH; [rewrite Hlen; exact Hid|exact HF'].
      * exfalso. destruct HR as [_ HR]. specialize (HR eq_refl). discriminate.
    + destruct HR as [HR _]. specialize (HR eq_refl). subst o. cbn [part_step].
      apply IH; [rewrite Hlen; exact Hid|exact HF'].
Qed.

Lemma workers_lworkers le cs p {L} (lenc : L -> bits) (gf : list (N * L) -> list N) (lf : list (N * L) -> list L) :
  forall (lsegs : list (list (list (N * L)))) cuts sels pads id,
  (length lsegs < length cuts)%nat -> length sels = length lsegs ->
  Forall2 (fun it o => snd it = None <-> o = None)
    (workers le cs p id cuts (map (map gf) lsegs) sels)
    (lworkers L lenc (map (map lf) lsegs) pads).
Proof.
  induction lsegs as [|s lsegs IH]; intros cuts sels pads id Hc Hs;
    destruct cuts as [|c cuts]; destruct sels as [|sl sels]; cbn [length] in *;
    try discriminate; try lia; cbn [map workers lworkers]; constructor.
  - unfold worker. rewrite lworker_none. destruct s; cbn [map snd]; split; intros H;
      try reflexivity; discriminate.
  - apply IH; lia.
Qed.

(** * Parallel = sequential *)

Lemma succs_labs_segments cuts (lg : lgraph) :
  segments cuts (succs lg) = map (map (map fst)) (psegments cuts lg)
  /\ psegments cuts (labs lg) = map (map (map snd)) (psegments cuts lg).
Proof.
  unfold succs, labs. rewrite segments_psegments, !psegments_map. split; reflexivity.
Qed.

Theorem concat_eq_seq : S_concat_eq_seq.
Proof.
  intros le cs p sr cuts lg sels pads arrival Hlegal Hvs Harr recs.
  assert (Hlegal' : legal_cuts cuts (nlen (succs lg)) = true).
  { unfold succs. rewrite nlen_map. exact Hlegal. }
  pose proof (par_comp_eq_seq le cs p cuts (succs lg) sels arrival Hlegal' Hvs Harr) as [Hg _].
  unfold par_comp in Hg.
  unfold par_comp_labeled.
  destruct (legal_cuts_inv _ _ Hlegal) as (cuts' & -> & Hne & Hnd & Hlast).
  destruct (succs_labs_segments (0 :: cuts') lg) as [Egs Els].
  destruct (psegments_spec cuts' 0 lg Hnd) as (Hlen & Hcat); [lia|exact Hne|].
  pose proof (valid_sels_length _ _ _ Hvs) as Hsl.
  set (lsegs := psegments (0 :: cuts') lg) in *.
  rewrite Egs in Hg, Hsl |- *. rewrite Els.
  assert (Hsegl : length (map (map (map fst)) lsegs) = length lsegs) by apply map_length.
  set (ws := workers le cs p O (0 :: cuts') (map (map (map fst)) lsegs) sels) in *.
  assert (Hmf : map fst ws = seq 0 (length lsegs)).
  { unfold ws. rewrite <- Hsegl. apply workers_ids; cbn [length]; lia. }
  assert (Hwl : length ws = length lsegs).
  { pose proof (f_equal (@length nat) Hmf) as HH.
    rewrite map_length, seq_length in HH. exact HH. }
  assert (Hids : map fst ws = seq 0 (length ws)).
  { rewrite Hwl. exact Hmf. }
  assert (Hq : task_queue
                 (flat_map (fun i => match nth_opt ws i with Some it => [it] | None => [] end) arrival)
               = ws).
  { apply (taskqueue_inorder ws _ Hids).
    assert (Hp : Permutation arrival (seq 0 (length ws))).
    { rewrite Hwl, Hlen.
      replace (length (0%N :: cuts') - 1)%nat with (length cuts') in Harr by (cbn [length]; lia).
      exact Harr. }
    eapply perm_trans; [apply Permutation_flat_map; exact Hp|].
    rewrite (flat_map_nth_seq ws). apply Permutation_refl. }
  rewrite Hq in Hg |- *. rewrite Hg. unfold recs, succs. rewrite nlen_map. f_equal.
  (* the label side *)
  rewrite <- (app_nil_l (lworkers N (ser_enc le sr) (map (map (map snd)) lsegs) pads)).
  rewrite lconcat_inorder.
  - rewrite lworkers_fold. unfold lab_seq. rewrite lseq_spec.
    assert (Ec : concat (map (map (map snd)) lsegs) = labs lg).
    { unfold labs. rewrite <- Hcat. rewrite concat_map. reflexivity. }
    rewrite Ec.
    unfold files_add, concat_init. cbn [f_lbits f_obits f_ltotal app gammas flat_map].
    rewrite N.add_0_l. reflexivity.
  - cbn [length]. rewrite Hwl in Hids. rewrite Hwl. exact Hids.
  - unfold ws. apply workers_lworkers; cbn [length]; lia.
Qed.

(** * Readers *)
Section ReadFacts.
  Variable L : Type.
  Variable lenc : L -> bits.
  Variable ldec : bits -> option (L * bits).
  Variable valid : L -> Prop.
  Hypothesis Hpre : forall l rest, valid l -> ldec (lenc l ++ rest) = Some (l, rest).
  Hypothesis Hne : forall l, lenc l <> [].

  Notation F := (flat_map lenc).

  Lemma nlen_lenc_pos l : 1 <= nlen (lenc l).
  Proof.
    pose proof (Hne l) as H. destruct (lenc l) as [|b r]; [contradiction|].
    unfold nlen. cbn [length]. lia.
  Qed.

  Lemma length_le_flat : forall ls, (length ls <= length (F ls))%nat.
  Proof.
    induction ls as [|l ls IH]; cbn [flat_map length]; [lia|].
    rewrite app_length. pose proof (nlen_lenc_pos l) as H. unfold nlen in H. lia.
  Qed.

  Lemma labels_until_ok : forall ls fuel rest pos,
    Forall valid ls -> (length ls <= fuel)%nat ->
    labels_until L ldec fuel (F ls ++ rest) pos (pos + nlen (F ls)) = Some ls.
  Proof.
    induction ls as [|l ls IH]; intros fuel rest pos Hv Hf.
    - cbn [flat_map]. rewrite nlen_nil, N.add_0_r.
      destruct fuel; cbn [labels_until]; rewrite N.leb_refl; reflexivity.
    - destruct fuel as [|f]; [cbn [length] in Hf; lia|].
      inversion Hv as [|? ? Hl Hv']; subst.
      cbn [labels_until flat_map].
      pose proof (nlen_lenc_pos l) as Hpos.
      assert (Hc : (pos + nlen (lenc l ++ F ls) <=? pos) = false).
      { apply N.leb_gt. rewrite nlen_app. lia. }
      rewrite Hc. rewrite <- app_assoc. rewrite (Hpre l _ Hl). cbn [obind].
      replace (pos + (nlen (lenc l ++ F ls ++ rest) - nlen (F ls ++ rest))) with (pos + nlen (lenc l))
        by (rewrite !nlen_app; lia).
      replace (pos + nlen (lenc l ++ F ls)) with (pos + nlen (lenc l) + nlen (F ls))
        by (rewrite nlen_app; lia).
      rewrite IH; [reflexivity|exact Hv'|cbn [length] in Hf; lia].
  Qed.

  Lemma read_at_ok pre ls rest :
    Forall valid ls ->
    read_at L ldec (pre ++ F ls ++ rest) (nlen pre) (nlen pre + nlen (F ls)) = Some ls.
  Proof.
    intros Hv. unfold read_at. rewrite skipn_nlen_app.
    apply labels_until_ok; [exact Hv|].
    rewrite app_length. pose proof (length_le_flat ls). lia.
  Qed.

  Lemma seq_nodes_ok : forall nodes pre rest orest,
    Forall (Forall valid) nodes ->
    seq_nodes L ldec (length nodes) (pre ++ flat_map F nodes ++ rest) (nlen pre)
      (gammas (map (nl L lenc) nodes) ++ orest) = Some nodes.
  Proof.
    induction nodes as [|a nodes IH]; intros pre rest orest Hv; [reflexivity|].
    inversion Hv as [|? ? Ha Hv']; subst.
    cbn [length seq_nodes map gammas flat_map].
    rewrite <- app_assoc. fold (gammas (map (nl L lenc) nodes)).
    rewrite dec_gamma_be. cbn [obind]. unfold nl at 1 2.
    rewrite <- app_assoc. rewrite (read_at_ok pre a _ Ha). cbn [obind].
    replace (nlen pre + nlen (F a)) with (nlen (pre ++ F a)) by (rewrite nlen_app; reflexivity).
    rewrite app_assoc. rewrite (IH (pre ++ F a) rest orest Hv'). reflexivity.
  Qed.

  Lemma read_seq_ok nodes padl pado :
    Forall (Forall valid) nodes ->
    read_seq L ldec (length nodes) (flat_map F nodes ++ padl)
      (gammas (0 :: map (nl L lenc) nodes) ++ pado) = Some nodes.
  Proof.
    intros Hv. unfold read_seq. cbn [gammas flat_map]. rewrite <- app_assoc.
    rewrite dec_gamma_be. cbn [obind]. rewrite N.add_0_l.
    change 0 with (nlen (@nil bool)).
    apply (seq_nodes_ok nodes [] padl pado Hv).
  Qed.
End ReadFacts.

(** ** random access = sequential, for arbitrary streams *)
Section RaFacts.
  Variable L : Type.
  Variable ldec : bits -> option (L * bits).

  Lemma skipn_cons_nth {A} : forall x (l : list A) a t,
    skipn x l = a :: t -> nth_opt l x = Some a /\ skipn (S x) l = t.
  Proof.
    induction x as [|x IH]; intros l a t H; destruct l as [|b l]; cbn [skipn] in H; try discriminate.
    - injection H as -> ->. split; reflexivity.
    - cbn [nth_opt]. apply IH in H. exact H.
  Qed.

  Lemma seq_nodes_ra all offs : forall k x cum os gaps r,
    dec_gammas k os = Some (gaps, r) ->
    skipn x offs = prefix_sums cum gaps ->
    seq_nodes L ldec k all cum os = omap (read_ra L ldec all offs) (seq x k).
  Proof.
    induction k as [|k IH]; intros x cum os gaps r Hd Hs; [reflexivity|].
    cbn [dec_gammas] in Hd. cbn [seq_nodes seq omap].
    destruct (dec false Gamma os) as [[d os']|]; cbn [obind] in *; [|discriminate].
    destruct (dec_gammas k os') as [[gs r']|] eqn:Hd'; cbn [obind] in Hd; [|discriminate].
    injection Hd as <- <-.
    change (prefix_sums cum (d :: gs)) with (cum :: prefix_sums (cum + d) gs) in Hs.
    destruct (skipn_cons_nth _ _ _ _ Hs) as [Hn Hs'].
    assert (Hn' : nth_opt offs (S x) = Some (cum + d)).
    { destruct gs as [|g gs]; cbn [prefix_sums] in Hs';
        apply skipn_cons_nth in Hs'; destruct Hs' as [Hn' _]; exact Hn'. }
    unfold read_ra at 1. rewrite Hn, Hn'.
    destruct (read_at L ldec all cum (cum + d)) as [ls|]; cbn [obind]; [|reflexivity].
    rewrite (IH (S x) (cum + d) os' gs r' Hd' Hs'). reflexivity.
  Qed.
End RaFacts.

Theorem ra_eq_seq : S_ra_eq_seq.
Proof.
  intros le sr n all obits offs Hef.
  unfold lab_ef in Hef. unfold lab_read_seq, read_seq, lab_read_ra.
  cbn [dec_gammas] in Hef.
  destruct (dec false Gamma obits) as [[c0 os]|]; cbn [obind] in *; [|discriminate].
  destruct (dec_gammas n os) as [[gs r]|] eqn:Hd; cbn [obind] in Hef; [|discriminate].
  injection Hef as <-.
  apply (seq_nodes_ra N (ser_dec le sr) all _ n O (0 + c0) os gs r Hd). reflexivity.
Qed.

(** * The two serializers *)

Lemma labels_valid_Forall sr (lg : lgraph) :
  labels_valid sr lg = true ->
  Forall (Forall (fun v => ser_valid sr v = true)) (labs lg).
Proof.
  unfold labels_valid, labs. intros H. rewrite forallb_forall in H.
  apply Forall_forall. intros ls Hin. apply in_map_iff in Hin. destruct Hin as (nd & <- & Hin).
  specialize (H nd Hin). rewrite forallb_forall in H.
  apply Forall_forall. intros v Hv. apply in_map_iff in Hv. destruct Hv as (sl & <- & Hsl).
  exact (H sl Hsl).
Qed.

Lemma lab_seq_spec le sr lg :
  lab_seq le sr lg
  = mkFiles (flat_map (flat_map (ser_enc le sr)) (labs lg))
            (gammas (0 :: map (nl N (ser_enc le sr)) (labs lg)))
            (nlen (flat_map (flat_map (ser_enc le sr)) (labs lg))).
Proof. unfold lab_seq. apply lseq_spec. Qed.

Theorem store_closed : S_store_closed.
Proof.
  intros le sr lg. rewrite lab_seq_spec. unfold lab_closed, labs, nl, gammas.
  rewrite !map_map. rewrite flat_map_concat_map, map_map. reflexivity.
Qed.

Theorem seq_roundtrip : S_seq_roundtrip.
Proof.
  intros le sr lg padl pado Hok Hv f. unfold f. rewrite lab_seq_spec.
  cbn [f_lbits f_obits]. unfold lab_read_seq.
  replace (length lg) with (length (labs lg)) by (unfold labs; apply map_length).
  apply (read_seq_ok N (ser_enc le sr) (ser_dec le sr) (fun v => ser_valid sr v = true)).
  - intros l rest Hl. apply ser_prefix. exact Hl.
  - intros l. apply ser_nonempty. exact Hok.
  - apply labels_valid_Forall. exact Hv.
Qed.

(** ** offsets *)

Lemma prefix_sums_cons acc x l : prefix_sums acc (x :: l) = acc :: prefix_sums (acc + x) l.
Proof. reflexivity. Qed.

Lemma prefix_sums_nth : forall g1 acc g2,
  nth_error (prefix_sums acc (g1 ++ g2)) (length g1) = Some (acc + nsum g1).
Proof.
  induction g1 as [|x g1 IH]; intros acc g2.
  - cbn [app length nsum]. rewrite N.add_0_r. destruct g2; reflexivity.
  - cbn [app length nsum]. rewrite prefix_sums_cons. cbn [nth_error]. rewrite IH. f_equal. lia.
Qed.

Lemma nsum_map_nl {L} (lenc : L -> bits) : forall nodes,
  nsum (map (nl L lenc) nodes) = nlen (flat_map (flat_map lenc) nodes).
Proof.
  induction nodes as [|a nodes IH]; cbn [map nsum flat_map]; [reflexivity|].
  rewrite IH, nlen_app. reflexivity.
Qed.

Theorem store_offsets : S_store_offsets.
Proof.
  intros le sr lg pad f gaps offs.
  assert (Eg : gaps = map (nl N (ser_enc le sr)) (labs lg)).
  { unfold gaps, labs, nl, node_bits. rewrite map_map. reflexivity. }
  assert (Ef : f = mkFiles (flat_map (flat_map (ser_enc le sr)) (labs lg)) (gammas (0 :: gaps))
                     (nlen (flat_map (flat_map (ser_enc le sr)) (labs lg)))).
  { unfold f. rewrite lab_seq_spec, Eg. reflexivity. }
  assert (Hlen : length gaps = length lg) by (unfold gaps; apply map_length).
  assert (Hdec : dec_gammas (S (length lg)) (f_obits f ++ pad) = Some (0 :: gaps, pad)).
  { rewrite Ef. cbn [f_obits]. rewrite <- Hlen.
    change (S (length gaps)) with (length (0 :: gaps)). apply dec_gammas_enc. }
  split; [exact Hdec|]. split.
  { unfold lab_ef. rewrite Hdec. cbn [obind]. rewrite N.add_0_l. reflexivity. }
  split.
  { unfold offs. rewrite prefix_sums_length, Hlen. reflexivity. }
  split.
  { intros i nd Hi.
    destruct (nth_error_split _ _ Hi) as (l1 & l2 & El & Hl1).
    set (F := flat_map (ser_enc le sr)).
    set (g1 := map (nl N (ser_enc le sr)) (map (map snd) l1)).
    set (g2 := map (nl N (ser_enc le sr)) (map (map snd) l2)).
    assert (Egs : gaps = g1 ++ nlen (node_bits le sr nd) :: g2).
    { rewrite Eg. unfold labs. rewrite El, !map_app. reflexivity. }
    assert (Hg1 : length g1 = i) by (unfold g1; rewrite !map_length; exact Hl1).
    exists (nsum g1), (nsum g1 + nlen (node_bits le sr nd)).
    split.
    { unfold offs. rewrite Egs. rewrite <- Hg1. rewrite prefix_sums_nth, N.add_0_l. reflexivity. }
    split.
    { unfold offs. rewrite Egs.
      replace (g1 ++ nlen (node_bits le sr nd) :: g2)
        with ((g1 ++ [nlen (node_bits le sr nd)]) ++ g2) by (rewrite <- app_assoc; reflexivity).
      replace (S i) with (length (g1 ++ [nlen (node_bits le sr nd)]))
        by (rewrite app_length; cbn [length]; lia).
      rewrite prefix_sums_nth, N.add_0_l, nsum_app. cbn [nsum]. rewrite N.add_0_r. reflexivity. }
    split; [lia|].
    rewrite Ef. cbn [f_lbits]. unfold labs. rewrite El, map_app, flat_map_app. cbn [map flat_map].
    unfold g1. rewrite nsum_map_nl.
    replace (nlen (flat_map (flat_map (ser_enc le sr)) (map (map snd) l1)) + nlen (node_bits le sr nd)
             - nlen (flat_map (flat_map (ser_enc le sr)) (map (map snd) l1)))
      with (nlen (node_bits le sr nd)) by lia.
    rewrite skipn_nlen_app. unfold node_bits. rewrite firstn_nlen_app. reflexivity. }
  split.
  { unfold offs. rewrite prefix_sums_last, Ef. cbn [f_lbits]. rewrite Eg, nsum_map_nl. lia. }
  rewrite Ef. reflexivity.
Qed.

(** * Zip *)

Lemma combine_fst_snd {A B} : forall (l : list (A * B)), combine (map fst l) (map snd l) = l.
Proof.
  induction l as [|[a b] l IH]; cbn [map combine fst snd]; [reflexivity|]. rewrite IH. reflexivity.
Qed.

Lemma zip_nodes_ok : forall (lg : lgraph), zip_nodes (succs lg) (labs lg) = lg.
Proof.
  unfold zip_nodes, succs, labs.
  induction lg as [|nd lg IH]; cbn [map combine fst snd]; [reflexivity|].
  rewrite IH, combine_fst_snd. reflexivity.
Qed.

Lemma read_zip_ok le cs p sr (lg : lgraph) gbits restg lbits obits :
  decode_graph bits (rd_bits le cs) p (length lg) (gbits ++ restg) = Some (succs lg, restg) ->
  lab_read_seq le sr (length lg) lbits obits = Some (labs lg) ->
  (exists offs, lab_ef (length lg) obits = Some offs) ->
  read_zip_seq le cs p sr (length lg) (gbits ++ restg) lbits obits = Some lg
  /\ read_zip_ra le cs p sr (length lg) (gbits ++ restg) lbits obits = Some lg.
Proof.
  intros Hg Hl [offs Hef]. unfold read_zip_seq, read_zip_ra, lab_read_ra_all.
  rewrite Hg. cbn [obind]. rewrite Hef. cbn [obind].
  rewrite <- (ra_eq_seq le sr (length lg) lbits obits offs Hef), Hl. cbn [obind].
  rewrite zip_nodes_ok. split; reflexivity.
Qed.

Theorem zip_roundtrip_seq : S_zip_roundtrip_seq.
Proof.
  intros le cs p sr lg sel restg padl pado Hcs Hinc Hsel Hok Hv.
  unfold comp_labeled.
  assert (Hn : length lg = length (succs lg)) by (unfold succs; symmetry; apply map_length).
  apply read_zip_ok.
  - rewrite Hn at 1. apply graph_roundtrip_bits; assumption.
  - apply seq_roundtrip; assumption.
  - destruct (store_offsets le sr lg pado) as (_ & Hef & _). eexists. exact Hef.
Qed.

Theorem zip_roundtrip_par : S_zip_roundtrip_par.
Proof.
  intros le cs p sr cuts lg sels pads arrival restg padl pado Hcs Hinc Hcuts Hsels Hperm Hok Hv.
  pose proof (concat_eq_seq le cs p sr cuts lg sels pads arrival Hcuts Hsels Hperm) as Heq.
  cbv zeta in Heq.
  assert (Hcuts' : legal_cuts cuts (nlen (succs lg)) = true).
  { unfold succs. rewrite nlen_map. exact Hcuts. }
  destruct (par_comp_eq_seq le cs p cuts (succs lg) sels arrival Hcuts' Hsels Hperm) as [_ Hvalid].
  eexists; eexists; eexists. split; [exact Heq|].
  assert (Hn : length lg = length (succs lg)) by (unfold succs; symmetry; apply map_length).
  apply read_zip_ok.
  - rewrite Hn at 1. apply graph_roundtrip_bits; assumption.
  - apply seq_roundtrip; assumption.
  - destruct (store_offsets le sr lg pado) as (_ & Hef & _). eexists. exact Hef.
Qed.
