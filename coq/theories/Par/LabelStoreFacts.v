(** Proofs of the pinned statements of Par/LabelStatements.v (C07). *)
From WG Require Import Base.Prelude Codes.Codes Codes.Statements Codes.CodesFacts
  BV.Model BV.RefSel BV.Statements BV.Bits BV.BitsFacts BV.OffsetsFacts
  Par.Splice Par.SpliceFacts Par.LabelStore Par.LabelStatements.
From Coq Require Import ZifyBool ZifyN ZifyNat.
Local Open Scope N_scope.

(** * Small facts *)

Lemma nlen_nil {A} : nlen (@nil A) = 0.
Proof. reflexivity. Qed.

Lemma to_nat_nlen {A} (l : list A) : N.to_nat (nlen l) = length l.
Proof. unfold nlen. apply Nat2N.id. Qed.

Lemma firstn_nlen_app {A} (w r : list A) : firstn (N.to_nat (nlen w)) (w ++ r) = w.
Proof. rewrite to_nat_nlen. apply firstn_length_app. Qed.

Lemma skipn_nlen_app {A} (w r : list A) : skipn (N.to_nat (nlen w)) (w ++ r) = r.
Proof. rewrite to_nat_nlen. apply skipn_length_app. Qed.

Lemma nlen_map {A B} (f : A -> B) (l : list A) : nlen (map f l) = nlen l.
Proof. unfold nlen. rewrite map_length. reflexivity. Qed.

Definition gammas (l : list N) : bits := flat_map gamma_be l.

Lemma gammas_app a b : gammas (a ++ b) = gammas a ++ gammas b.
Proof. unfold gammas. apply flat_map_app. Qed.

Lemma dec_gamma_be d rest : dec false Gamma (gamma_be d ++ rest) = Some (d, rest).
Proof. unfold gamma_be. cbn [enc dec]. apply dec_enc_gamma. Qed.

(** * Serializers: prefix law and non-emptiness *)

Lemma ser_prefix le sr v rest :
  ser_valid sr v = true -> ser_dec le sr (ser_enc le sr v ++ rest) = Some (v, rest).
Proof.
  destruct sr as [w|]; cbn [ser_valid ser_enc ser_dec]; intros H.
  - rewrite rbits_wbits_N. apply N.ltb_lt in H. rewrite N.mod_small by exact H. reflexivity.
  - cbn [enc dec]. apply dec_enc_gamma.
Qed.

Lemma ser_nonempty le sr v : ser_ok sr = true -> ser_enc le sr v <> [].
Proof.
  destruct sr as [w|]; cbn [ser_ok ser_enc]; intros H E.
  - apply (f_equal (@length bool)) in E. rewrite length_wbits in E. cbn [length] in E. lia.
  - apply (f_equal (@nlen bool)) in E. cbn [enc] in E. rewrite nlen_enc_gamma, nlen_nil in E. lia.
Qed.

(** * Polymorphic segments *)

Lemma psegments_spec {A} : forall cuts c (l : list A),
  nondecreasing (c :: cuts) = true ->
  c + nlen l = last (c :: cuts) 0 ->
  cuts <> [] ->
  length (psegments (c :: cuts) l) = length cuts
  /\ concat (psegments (c :: cuts) l) = l.
Proof.
  induction cuts as [|b cuts IH]; intros c g Hnd Hlast Hne; [contradiction|].
  cbn [nondecreasing] in Hnd. apply andb_prop in Hnd. destruct Hnd as [Hcb Hnd].
  apply N.leb_le in Hcb.
  change (last (c :: b :: cuts) 0) with (last (b :: cuts) 0) in Hlast.
  pose proof (nondecreasing_last cuts b Hnd) as Hbl.
  assert (Hk : (N.to_nat (b - c) <= length g)%nat) by (unfold nlen in Hlast; lia).
  change (psegments (c :: b :: cuts) g)
    with (firstn (N.to_nat (b - c)) g :: psegments (b :: cuts) (skipn (N.to_nat (b - c)) g)).
  destruct cuts as [|b' cuts].
  - cbn [psegments length concat last] in *. rewrite app_nil_r.
    assert (E : N.to_nat (b - c) = length g) by (unfold nlen in Hlast; lia).
    rewrite E, firstn_all. split; reflexivity.
  - destruct (IH b (skipn (N.to_nat (b - c)) g) Hnd) as (H1 & H3).
    + unfold nlen in *. rewrite skipn_length. lia.
    + discriminate.
    + cbn [length concat]. rewrite H1, H3. split; [reflexivity|]. apply firstn_skipn.
Qed.

Lemma psegments_map {A B} (f : A -> B) : forall cuts (l : list A),
  psegments cuts (map f l) = map (map f) (psegments cuts l).
Proof.
  induction cuts as [|a cuts IH]; intros l; [reflexivity|].
  destruct cuts as [|b cuts]; [reflexivity|].
  change (psegments (a :: b :: cuts) (map f l))
    with (firstn (N.to_nat (b - a)) (map f l)
            :: psegments (b :: cuts) (skipn (N.to_nat (b - a)) (map f l))).
  change (psegments (a :: b :: cuts) l)
    with (firstn (N.to_nat (b - a)) l :: psegments (b :: cuts) (skipn (N.to_nat (b - a)) l)).
  cbn [map]. rewrite firstn_map, skipn_map, IH. reflexivity.
Qed.

Lemma segments_psegments : forall cuts g, segments cuts g = psegments cuts g.
Proof.
  induction cuts as [|a cuts IH]; intros g; [reflexivity|].
  destruct cuts as [|b cuts]; [reflexivity|].
  change (segments (a :: b :: cuts) g)
    with (firstn (N.to_nat (b - a)) g :: segments (b :: cuts) (skipn (N.to_nat (b - a)) g)).
  rewrite IH. reflexivity.
Qed.

(** * The store *)
Section StoreFacts.
  Variable L : Type.
  Variable lenc : L -> bits.

  Notation F := (flat_map lenc).
  Definition nl (ls : list L) : N := nlen (flat_map lenc ls).

  Lemma fold_push_label : forall ls s,
    fold_left (store_push_label L lenc) ls s
    = mkStore (st_lbits s ++ F ls) (st_obits s) (st_curr s + nl ls) (st_started s)
              (st_tot_l s + nl ls) (st_tot_o s).
  Proof.
    unfold nl.
    induction ls as [|l ls IH]; intros s; cbn [fold_left flat_map].
    - destruct s as [a b c d e f]. cbn [st_lbits st_obits st_curr st_started st_tot_l st_tot_o].
      rewrite app_nil_r, nlen_nil, !N.add_0_r. reflexivity.
    - rewrite IH. unfold store_push_label.
      cbn [st_lbits st_obits st_curr st_started st_tot_l st_tot_o].
      rewrite <- app_assoc, nlen_app. f_equal; lia.
  Qed.

  (** what the files will contain once the pending offset is flushed *)
  Record sview := mkView { v_l : bits; v_o : bits; v_tl : N; v_to : N }.

  Definition pending (s : store) : list N := if st_started s then [st_curr s] else [].

  Definition view (s : store) : sview :=
    mkView (st_lbits s) (st_obits s ++ gammas (pending s)) (st_tot_l s)
           (st_tot_o s + nlen (gammas (pending s))).

  Definition view_add (v : sview) (nodes : list (list L)) : sview :=
    mkView (v_l v ++ flat_map F nodes) (v_o v ++ gammas (map nl nodes))
           (v_tl v + nlen (flat_map F nodes)) (v_to v + nlen (gammas (map nl nodes))).

  Lemma view_add_nil v : view_add v [] = v.
  Proof.
    destruct v as [a b c d]. unfold view_add. cbn [flat_map map gammas v_l v_o v_tl v_to].
    rewrite !app_nil_r, nlen_nil, !N.add_0_r. reflexivity.
  Qed.

  Lemma view_add_app v a b : view_add (view_add v a) b = view_add v (a ++ b).
  Proof.
    unfold view_add. cbn [v_l v_o v_tl v_to].
    rewrite map_app, gammas_app, flat_map_app, !nlen_app, <- !app_assoc. f_equal; lia.
  Qed.

  Lemma view_push s ls : view (store_push L lenc s ls) = view_add (view s) [ls].
  Proof.
    unfold store_push. rewrite fold_push_label. unfold store_push_node, view, view_add, pending.
    destruct (st_started s);
      cbn [push_offset st_lbits st_obits st_curr st_started st_tot_l st_tot_o
           v_l v_o v_tl v_to flat_map map gammas];
      rewrite ?app_nil_r, ?nlen_nil, ?N.add_0_r, ?N.add_0_l; reflexivity.
  Qed.

  Lemma view_fold : forall nodes s,
    view (fold_left (store_push L lenc) nodes s) = view_add (view s) nodes.
  Proof.
    induction nodes as [|a nodes IH]; intros s; cbn [fold_left].
    - rewrite view_add_nil. reflexivity.
    - rewrite IH, view_push, view_add_app. reflexivity.
  Qed.

  Lemma view_flush s :
    let s' := store_flush s in
    mkView (st_lbits s') (st_obits s') (st_tot_l s') (st_tot_o s') = view s.
  Proof.
    unfold store_flush, view, pending. destruct (st_started s);
      cbn [push_offset st_lbits st_obits st_curr st_started st_tot_l st_tot_o gammas flat_map];
      rewrite ?app_nil_r, ?nlen_nil, ?N.add_0_r; reflexivity.
  Qed.

  Lemma store_run_view s nodes :
    let s' := store_run L lenc s nodes in
    mkView (st_lbits s') (st_obits s') (st_tot_l s') (st_tot_o s') = view_add (view s) nodes.
  Proof. cbv zeta. unfold store_run. rewrite view_flush, view_fold. reflexivity. Qed.

  (** closed form of the sequential store *)
  Lemma lseq_spec nodes :
    lseq L lenc nodes
    = mkFiles (flat_map F nodes) (gammas (0 :: map nl nodes)) (nlen (flat_map F nodes)).
  Proof.
    unfold lseq.
    pose proof (store_run_view (store_init store_new) nodes) as H. cbv zeta in H.
    set (s' := store_run L lenc (store_init store_new) nodes) in *.
    unfold view_add, view, pending, store_init, store_new in H.
    cbn [push_offset st_lbits st_obits st_curr st_started st_tot_l st_tot_o
         v_l v_o v_tl v_to gammas flat_map app] in H.
    rewrite app_nil_r in H. injection H as H1 H2 H3 H4.
    rewrite H1, H2, H3, N.add_0_l. reflexivity.
  Qed.

  (** ** Concatenation of the parts *)
  Definition files_add (acc : lfiles) (nodes : list (list L)) : lfiles :=
    mkFiles (f_lbits acc ++ flat_map F nodes) (f_obits acc ++ gammas (map nl nodes))
            (f_ltotal acc + nlen (flat_map F nodes)).

  Lemma files_add_nil acc : files_add acc [] = acc.
  Proof.
    destruct acc as [a b c]. unfold files_add. cbn [flat_map map gammas f_lbits f_obits f_ltotal].
    rewrite !app_nil_r, nlen_nil, N.add_0_r. reflexivity.
  Qed.

  Lemma files_add_app acc a b : files_add (files_add acc a) b = files_add acc (a ++ b).
  Proof.
    unfold files_add. cbn [f_lbits f_obits f_ltotal].
    rewrite map_app, gammas_app, flat_map_app, nlen_app, <- !app_assoc. f_equal. lia.
  Qed.

  Definition part_step (acc : lfiles) (o : option lpart) : lfiles :=
    match o with Some pt => concat_part acc pt | None => acc end.

  Lemma lworker_step acc seg pad :
    part_step acc (lworker L lenc seg pad) = files_add acc seg.
  Proof.
    destruct seg as [|a seg]; [cbn [lworker part_step]; rewrite files_add_nil; reflexivity|].
    unfold lworker.
    pose proof (store_run_view store_new (a :: seg)) as H. cbv zeta in H.
    set (s' := store_run L lenc store_new (a :: seg)) in *.
    unfold view_add, view, pending, store_new in H.
    cbn [st_lbits st_obits st_curr st_started st_tot_l st_tot_o
         v_l v_o v_tl v_to gammas flat_map app] in H.
    injection H as H1 H2 H3 H4. rewrite N.add_0_l in H3, H4.
    cbn [part_step]. unfold concat_part, files_add.
    cbn [p_lfile p_lwritten p_ofile p_owritten].
    rewrite H1, H2, H3, H4. rewrite !firstn_nlen_app. reflexivity.
  Qed.

  Lemma lworkers_fold : forall segs pads acc,
    fold_left part_step (lworkers L lenc segs pads) acc = files_add acc (concat segs).
  Proof.
    induction segs as [|s segs IH]; intros pads acc; cbn [lworkers fold_left concat].
    - rewrite files_add_nil. reflexivity.
    - rewrite lworker_step, IH, files_add_app. reflexivity.
  Qed.

  Lemma lworker_none seg pad : lworker L lenc seg pad = None <-> seg = [].
  Proof. destruct seg; cbn [lworker]; split; intros H; try reflexivity; discriminate. Qed.
End StoreFacts.

(** the queue output drives the concatenation: when the jobs come out in id order and a
    job is present exactly when the label part is, every part is concatenated in order *)
Lemma lconcat_inorder : forall (q : list item) lws pre acc,
  map fst q = seq (length pre) (length q) ->
  Forall2 (fun it o => snd it = None <-> o = None) q lws ->
  lconcat q (pre ++ lws) acc = fold_left part_step lws acc.
Proof.
  induction q as [|[id oj] q IH]; intros lws pre acc Hid HF; inversion HF as [|? o ? lws' HR HF']; subst.
  - reflexivity.
  - cbn [map fst length seq] in Hid. injection Hid as Eid Hid. subst id.
    assert (Hn : nth_opt (pre ++ o :: lws') (length pre) = Some o).
    { rewrite nth_opt_error, nth_error_app2 by lia. rewrite Nat.sub_diag. reflexivity. }
    cbn [snd] in HR. cbn [lconcat fold_left].
    replace (pre ++ o :: lws') with ((pre ++ [o]) ++ lws') in * by (rewrite <- app_assoc; reflexivity).
    assert (Hlen : length (pre ++ [o]) = S (length pre)) by (rewrite app_length; cbn [length]; lia).
    destruct oj as [j|].
    + rewrite Hn. destruct o as [pt|].
      * cbn [part_step]. apply IH; [rewrite Hlen; exact Hid|exact HF'].
      * exfalso. destruct HR as [_ HR]. specialize (HR eq_refl). discriminate.
    + destruct HR as [HR _]. specialize (HR eq_refl). subst o. cbn [part_step].
      apply IH; [rewrite Hlen; exact Hid|exact HF'].
Qed.

Lemma workers_lworkers le cs p {L} (lenc : L -> bits) (gf : list (N * L) -> list N) (lf : list (N * L) -> list L) :
  forall (lsegs : list (list (list (N * L)))) cuts sels pads id,
  (length lsegs < length cuts)%nat -> length sels = length lsegs ->
  Forall2 (fun it o => snd it = None <-> o = None)
    (workers le cs p id cuts (map (map gf) lsegs) sels)
    (lworkers L lenc (map (map lf) lsegs) pads).
Proof.
  induction lsegs as [|s lsegs IH]; intros cuts sels pads id Hc Hs;
    destruct cuts as [|c cuts]; destruct sels as [|sl sels]; cbn [length] in *;
    try discriminate; try lia; cbn [map workers lworkers]; constructor.
  - unfold worker. rewrite lworker_none. destruct s; cbn [map snd]; split; intros H;
      try reflexivity; discriminate.
  - apply IH; lia.
Qed.
