(** Parallel compression ([BvCompConf::par_comp_labeled] of comp/impls.rs): workers
    compress contiguous chunks with fresh compressors and report jobs in an arbitrary
    order; the main thread re-sequences them with [TaskQueue] and splices bit streams and
    offset gaps.  Definitions and pinned statements only.

    The model follows the code after the repair of the empty-lender defect: a worker whose
    lender is empty reports [(id, None)]. *)
From WG Require Import Base.Prelude Codes.Codes BV.Model BV.RefSel BV.Bits.
Local Open Scope N_scope.

Record job := mkJob {
  j_first : N; j_last : N; j_bits : bits; j_lens : list N; j_arcs : N }.

Definition item : Type := (nat * option job)%type.

(** * TaskQueue *)
(** [jobs] is the vector of slots, [next] the next id to hand out, [arr] the items still
    to arrive.  One call of [TaskQueue::next]; fuel bounds the inner loop (one iteration
    per arrival). *)
Fixpoint set_slot (jobs : list (option item)) (i : nat) (it : item) : list (option item) :=
  match i, jobs with
  | O, [] => [Some it]
  | O, _ :: js => Some it :: js
  | S i', [] => None :: set_slot [] i' it
  | S i', j :: js => j :: set_slot js i' it
  end.

Fixpoint take_slot (jobs : list (option item)) (i : nat) : option (item * list (option item)) :=
  match i, jobs with
  | O, Some it :: js => Some (it, None :: js)
  | S i', j :: js =>
      match take_slot js i' with Some (it, js') => Some (it, j :: js') | None => None end
  | _, _ => None
  end.

Fixpoint tq_next (fuel : nat) (jobs : list (option item)) (next : nat) (arr : list item)
  : option (item * list (option item) * list item) :=
  match take_slot jobs next with
  | Some (it, jobs') => Some (it, jobs', arr)
  | None =>
    match fuel, arr with
    | S f, it :: arr' => tq_next f (set_slot jobs (fst it) it) next arr'
    | _, _ => None
    end
  end.

(** the sequence of items handed out *)
Fixpoint tq_drain (fuel : nat) (jobs : list (option item)) (next : nat) (arr : list item)
  : list item :=
  match fuel with
  | O => []
  | S f =>
    match tq_next (S (length arr)) jobs next arr with
    | Some (it, jobs', arr') => it :: tq_drain f jobs' (S next) arr'
    | None => []
    end
  end.

Definition task_queue (arr : list item) : list item :=
  tq_drain (S (length arr)) [] O arr.

(** * Workers and splicer *)

(** cut a graph into the segments of a cut sequence [c0; c1; ...] (node ids) *)
Fixpoint segments (cuts : list N) (g : list (list N)) : list (list (list N)) :=
  match cuts with
  | a :: ((b :: _) as rest) =>
      let k := N.to_nat (b - a) in firstn k g :: segments rest (skipn k g)
  | _ => []
  end.

Definition worker (le : bool) (cs : codes) (p : params) (id : nat) (start : N)
  (chunk : list (list N)) (sel : list N) : item :=
  match chunk with
  | [] => (id, None)
  | _ =>
    let recs := encode_graph p start chunk sel in
    (id, Some (mkJob start (start + nlen chunk - 1) (graph_bits le cs recs)
                 (node_bitlens le cs recs) (nsum (map nlen chunk))))
  end.

Fixpoint workers (le : bool) (cs : codes) (p : params) (id : nat) (cuts : list N)
  (segs : list (list (list N))) (sels : list (list N)) : list item :=
  match cuts, segs, sels with
  | c :: cuts', s :: segs', sl :: sels' =>
      worker le cs p id c s sl :: workers le cs p (S id) cuts' segs' sels'
  | _, _, _ => []
  end.

Inductive splice_result :=
| SpliceOk (bits : bits) (lens : list N) (arcs : N) (next_node : N)
| SpliceNonAdjacent (id : nat).

Fixpoint splice (items : list item) (acc_bits : bits) (acc_lens : list N) (arcs next : N)
  : splice_result :=
  match items with
  | [] => SpliceOk acc_bits acc_lens arcs next
  | (id, None) :: rest => splice rest acc_bits acc_lens arcs next
  | (id, Some j) :: rest =>
      if j_first j =? next
      then splice rest (acc_bits ++ j_bits j) (acc_lens ++ j_lens j) (arcs + j_arcs j) (j_last j + 1)
      else SpliceNonAdjacent id
  end.

(** the whole parallel compression for a given arrival order (a list of positions) *)
Definition par_comp (le : bool) (cs : codes) (p : params) (cuts : list N)
  (g : list (list N)) (sels : list (list N)) (arrival : list nat) : splice_result :=
  let ws := workers le cs p O cuts (segments cuts g) sels in
  let arr := flat_map (fun i => match nth_opt ws i with Some it => [it] | None => [] end) arrival in
  splice (task_queue arr) [] [] 0 0.

(** legal cut sequences: non-decreasing, from 0 to the number of nodes *)
Fixpoint nondecreasing (l : list N) : bool :=
  match l with
  | a :: ((b :: _) as rest) => (a <=? b) && nondecreasing rest
  | _ => true
  end.
Definition legal_cuts (cuts : list N) (n : N) : bool :=
  match cuts with
  | [] => false
  | c0 :: _ => (c0 =? 0) && (last cuts 0 =? n) && nondecreasing cuts && (2 <=? length cuts)%nat
  end.

(** * Pinned statements *)

(** the queue hands out every item, in id order, whatever the arrival order *)
Definition S_taskqueue_inorder : Prop := forall (items arr : list item),
  map fst items = seq 0 (length items) ->
  Permutation arr items ->
  task_queue arr = items.

(** per-chunk selections are valid for their chunk *)
Fixpoint valid_sels (p : params) (segs : list (list (list N))) (sels : list (list N)) : bool :=
  match segs, sels with
  | [], [] => true
  | s :: segs', sl :: sels' => valid_sel p [] s sl && valid_sels p segs' sels'
  | _, _ => false
  end.

(** splicing the chunks in any completion order gives exactly the bit stream, the offset
    gaps and the arc count of the sequential encoding of the whole graph with the
    concatenated selections, which is valid for the whole graph — hence (C01) decodes to
    the input graph *)
Definition S_par_comp_eq_seq : Prop :=
  forall le cs p cuts g sels arrival,
  legal_cuts cuts (nlen g) = true ->
  valid_sels p (segments cuts g) sels = true ->
  Permutation arrival (seq 0 (length cuts - 1)) ->
  let recs := encode_graph p 0 g (concat sels) in
  par_comp le cs p cuts g sels arrival
    = SpliceOk (graph_bits le cs recs) (node_bitlens le cs recs) (nsum (map nlen g)) (nlen g)
  /\ valid_sel p [] g (concat sels) = true.

(** no reference crosses a cut: concatenated per-chunk valid selections respect the chunk
    starts *)
Fixpoint chunk_starts (cuts : list N) : list N :=
  match cuts with
  | a :: ((b :: _) as rest) => repeat a (N.to_nat (b - a)) ++ chunk_starts rest
  | _ => []
  end.

Definition S_chunk_refs_local : Prop := forall p cuts g sels,
  legal_cuts cuts (nlen g) = true ->
  valid_sels p (segments cuts g) sels = true ->
  refs_in_chunk 0 (concat sels) (chunk_starts cuts) = true.
