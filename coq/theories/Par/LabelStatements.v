(** Pinned statements of C07 (labelled compression keeps every label attached to its
    arc).  Statements only. *)
From WG Require Import Base.Prelude Codes.Codes Codes.Statements BV.Model BV.RefSel
  BV.Statements BV.Bits BV.BitsFacts Par.Splice Par.LabelStore.
Local Open Scope N_scope.

(** the bits of the labels of one node, in successor order *)
Definition node_bits (le : bool) (sr : ser) (nd : list (N * N)) : bits :=
  flat_map (ser_enc le sr) (map snd nd).

(** The label offsets written by the store: the offsets file holds [n+1] γ codes (whatever
    padding follows), the leading 0 and then the bit length of each node's labels; their
    running sums (what Elias–Fano stores) have [n+1] entries, entry [i] and [i+1] delimit
    exactly the serialized labels of node [i] inside the label stream, the last entry is
    the length of the label stream, which is also the recorded [length]. *)
Definition S_store_offsets : Prop := forall le sr (lg : lgraph) pad,
  let f := lab_seq le sr lg in
  let gaps := map (fun nd => nlen (node_bits le sr nd)) lg in
  let offs := prefix_sums 0 gaps in
  dec_gammas (S (length lg)) (f_obits f ++ pad) = Some (0 :: gaps, pad)
  /\ lab_ef (length lg) (f_obits f ++ pad) = Some offs
  /\ length offs = S (length lg)
  /\ (forall i nd, nth_error lg i = Some nd ->
        exists a b, nth_error offs i = Some a /\ nth_error offs (S i) = Some b /\ a <= b
          /\ firstn (N.to_nat (b - a)) (skipn (N.to_nat a) (f_lbits f)) = node_bits le sr nd)
  /\ last offs 0 = nlen (f_lbits f)
  /\ f_ltotal f = nlen (f_lbits f).

(** Reading the files of the sequential store with [BitStreamLabelingSeq] returns, for
    every node, its labels in successor order — whatever flush padding follows the two
    streams. *)
Definition S_seq_roundtrip : Prop := forall le sr (lg : lgraph) padl pado,
  ser_ok sr = true -> labels_valid sr lg = true ->
  let f := lab_seq le sr lg in
  lab_read_seq le sr (length lg) (f_lbits f ++ padl) (f_obits f ++ pado) = Some (labs lg).

(** Random access equals the sequential read, for ANY label stream and ANY offsets
    stream from which the Elias–Fano list can be built: the sequential reader succeeds iff
    every random access succeeds, and then node by node they return the same labels. *)
Definition S_ra_eq_seq : Prop := forall le sr n all obits offs,
  lab_ef n obits = Some offs ->
  lab_read_seq le sr n all obits = omap (lab_read_ra le sr all offs) (seq 0 n).

(** Parallel labelled compression: for every legal cut sequence (repeated cutpoints, empty
    chunks anywhere), every completion order and every flush padding of the part files,
    the concatenated label stream, label offsets stream and recorded length are those of
    the sequential store, and the graph side is the sequential encoding (C04). *)
Definition S_concat_eq_seq : Prop :=
  forall le cs p sr cuts (lg : lgraph) sels pads arrival,
  legal_cuts cuts (nlen lg) = true ->
  valid_sels p (segments cuts (succs lg)) sels = true ->
  Permutation arrival (seq 0 (length cuts - 1)) ->
  let recs := encode_graph p 0 (succs lg) (concat sels) in
  par_comp_labeled le cs p sr cuts lg sels pads arrival
  = (SpliceOk (graph_bits le cs recs) (node_bitlens le cs recs) (nsum (map nlen (succs lg))) (nlen lg),
     lab_seq le sr lg).

(** Zipped read-back, sequential compression: for every valid reference selection (both
    compressors produce one), every code assignment, both endiannesses, both readers. *)
Definition S_zip_roundtrip_seq : Prop :=
  forall le cs p sr (lg : lgraph) sel restg padl pado,
  codes_ok cs = true -> Forall inc (succs lg) -> valid_sel p [] (succs lg) sel = true ->
  ser_ok sr = true -> labels_valid sr lg = true ->
  match comp_labeled le cs p sr lg sel with
  | (gbits, _, f) =>
    read_zip_seq le cs p sr (length lg) (gbits ++ restg) (f_lbits f ++ padl) (f_obits f ++ pado)
      = Some lg
    /\ read_zip_ra le cs p sr (length lg) (gbits ++ restg) (f_lbits f ++ padl) (f_obits f ++ pado)
      = Some lg
  end.

(** Zipped read-back, parallel compression: every cut sequence, every completion order. *)
Definition S_zip_roundtrip_par : Prop :=
  forall le cs p sr cuts (lg : lgraph) sels pads arrival restg padl pado,
  codes_ok cs = true -> Forall inc (succs lg) ->
  legal_cuts cuts (nlen lg) = true ->
  valid_sels p (segments cuts (succs lg)) sels = true ->
  Permutation arrival (seq 0 (length cuts - 1)) ->
  ser_ok sr = true -> labels_valid sr lg = true ->
  exists gbits lens f,
    par_comp_labeled le cs p sr cuts lg sels pads arrival
      = (SpliceOk gbits lens (nsum (map nlen (succs lg))) (nlen lg), f)
    /\ read_zip_seq le cs p sr (length lg) (gbits ++ restg) (f_lbits f ++ padl) (f_obits f ++ pado)
       = Some lg
    /\ read_zip_ra le cs p sr (length lg) (gbits ++ restg) (f_lbits f ++ padl) (f_obits f ++ pado)
       = Some lg.

(** The state machine writes exactly the closed form: every node's serialized labels in
    node order, and γ(0) followed by γ of every node's bit count. *)
Definition S_store_closed : Prop := forall le sr (lg : lgraph),
  lab_seq le sr lg = lab_closed le sr lg.
