(** Labelled compression (C07): [BitStreamStoreLabels] (labels/bitstream/store.rs) as a
    state machine, the way both compressors drive it ([push_node] then one [push_label]
    per arc, in node order, comp/bvcomp.rs and comp/bvcompz.rs), the concatenation of the
    per-thread parts by [BitStreamStoreLabelsConf::{init_concat,concat_part}] in the order
    in which [TaskQueue] hands out the jobs (comp/impls.rs, [par_comp_labeled]), and the
    two readers of labels/bitstream/labeling.rs ([BitStreamLabelingSeq], which decodes the
    offsets file on the fly, and [BitStreamLabeling], which indexes an Elias–Fano list of
    the cumulated offsets), zipped with the successors as labels/zip.rs does.
    Definitions only. *)
From WG Require Import Base.Prelude Codes.Codes BV.Model BV.RefSel BV.Bits Par.Splice.

Module LabelStoreM.
Local Open Scope N_scope.

(** * Label serializers (traits/bit_serde.rs) *)
(** [FixedW w] is [FixedWidth<T>::with_bits(w)] on an unsigned type: [write_bits(v, w)] /
    [read_bits(w)]; [GammaL] is a γ-coded serializer (variable length, so that the offsets
    are not multiples of a constant). *)
Inductive ser := FixedW (w : N) | GammaL.

Definition ser_enc (le : bool) (s : ser) (v : N) : bits :=
  match s with
  | FixedW w => wbits le v (N.to_nat w)
  | GammaL => enc le Gamma v
  end.

Definition ser_dec (le : bool) (s : ser) (b : bits) : option (N * bits) :=
  match s with
  | FixedW w => rbits le (N.to_nat w) b
  | GammaL => dec le Gamma b
  end.

(** values the serializer can represent / widths for which a label occupies at least one bit *)
Definition ser_valid (s : ser) (v : N) : bool :=
  match s with FixedW w => v <? 2 ^ w | GammaL => true end.
Definition ser_ok (s : ser) : bool :=
  match s with FixedW w => 1 <=? w | GammaL => true end.

(** a γ code in the (big-endian) offsets stream *)
Definition gamma_be (d : N) : bits := enc false Gamma d.

Section Store.
  Variable L : Type.
  Variable lenc : L -> bits.
  Variable ldec : bits -> option (L * bits).

  (** ** The store *)
  Record store := mkStore {
    st_lbits : bits;      (* label bit stream written so far *)
    st_obits : bits;      (* label-offsets bit stream written so far (γ, big-endian) *)
    st_curr : N;          (* bits_for_curr_node *)
    st_started : bool;
    st_tot_l : N;         (* total_label_bits *)
    st_tot_o : N }.       (* total_offsets_bits *)

  Definition store_new : store := mkStore [] [] 0 false 0 0.

  (** [offsets_writer.push(d)], adding the number of bits written to [total_offsets_bits] *)
  Definition push_offset (s : store) (d : N) : store :=
    let c := gamma_be d in
    mkStore (st_lbits s) (st_obits s ++ c) (st_curr s) (st_started s)
            (st_tot_l s) (st_tot_o s + nlen c).

  Definition store_init (s : store) : store := push_offset s 0.

  Definition store_push_node (s : store) : store :=
    let s1 := if st_started s then push_offset s (st_curr s) else s in
    mkStore (st_lbits s1) (st_obits s1) 0 true (st_tot_l s1) (st_tot_o s1).

  Definition store_push_label (s : store) (l : L) : store :=
    let c := lenc l in
    mkStore (st_lbits s ++ c) (st_obits s) (st_curr s + nlen c) (st_started s)
            (st_tot_l s + nlen c) (st_tot_o s).

  Definition store_flush (s : store) : store :=
    if st_started s then push_offset s (st_curr s) else s.

  (** [BvComp::push] / [BvCompZ::push] as seen by the store: [push_node], then one
      [push_label] per arc in successor order *)
  Definition store_push (s : store) (labels : list L) : store :=
    fold_left store_push_label labels (store_push_node s).

  (** a compressor fed with the nodes of a lender, then flushed *)
  Definition store_run (s : store) (nodes : list (list L)) : store :=
    store_flush (fold_left store_push nodes s).

  (** the files of a labelling: label bit stream, offsets bit stream (both before the
      padding of the final flush), and the [length] recorded in the properties *)
  Record lfiles := mkFiles { f_lbits : bits; f_obits : bits; f_ltotal : N }.

  (** sequential compression ([comp_labeled_lender]): [init] writes the leading γ(0) *)
  Definition lseq (nodes : list (list L)) : lfiles :=
    let s := store_run (store_init store_new) nodes in
    mkFiles (st_lbits s) (st_obits s) (st_tot_l s).

  (** ** Parallel compression *)
  (** a per-thread part: the two part files (written stream followed by flush padding)
      and the two bit counts reported in the job *)
  Record lpart := mkPart {
    p_lfile : bits; p_lwritten : N; p_ofile : bits; p_owritten : N }.

  (** a worker does not call [init]; a worker whose lender is empty reports no job, so
      its (empty) part files are never concatenated *)
  Definition lworker (seg : list (list L)) (pad : bits * bits) : option lpart :=
    match seg with
    | [] => None
    | _ => let s := store_run store_new seg in
           Some (mkPart (st_lbits s ++ fst pad) (st_tot_l s) (st_obits s ++ snd pad) (st_tot_o s))
    end.

  Fixpoint lworkers (segs : list (list (list L))) (pads : list (bits * bits))
    : list (option lpart) :=
    match segs with
    | [] => []
    | s :: segs' => lworker s (hd ([], []) pads) :: lworkers segs' (tl pads)
    end.

  (** [init_concat]: empty label stream, γ(0) in the offsets stream *)
  Definition concat_init : lfiles := mkFiles [] (gamma_be 0) 0.

  (** [concat_part]: [copy_from] exactly the reported number of bits of each part *)
  Definition concat_part (acc : lfiles) (pt : lpart) : lfiles :=
    mkFiles (f_lbits acc ++ firstn (N.to_nat (p_lwritten pt)) (p_lfile pt))
            (f_obits acc ++ firstn (N.to_nat (p_owritten pt)) (p_ofile pt))
            (f_ltotal acc + p_lwritten pt).

  (** the main thread: for every job handed out by the task queue, the label part of the
      same worker is concatenated ([Job] carries the graph part and the label part); a
      [None] job is skipped *)
  Fixpoint lconcat (q : list item) (lws : list (option lpart)) (acc : lfiles) : lfiles :=
    match q with
    | [] => acc
    | (id, None) :: rest => lconcat rest lws acc
    | (id, Some _) :: rest =>
        match nth_opt lws id with
        | Some (Some pt) => lconcat rest lws (concat_part acc pt)
        | _ => lconcat rest lws acc
        end
    end.

  (** ** Readers *)
  (** [LabelsSeq]/[Labels]: deserialize while the bit position is before [end_]; [None]
      models the panic of an [unwrap] on a failed read *)
  Fixpoint labels_until (fuel : nat) (s : bits) (pos end_ : N) : option (list L) :=
    if end_ <=? pos then Some []
    else match fuel with
         | O => None
         | S f =>
           '(l, s') <- ldec s ;;
           ls <- labels_until f s' (pos + (nlen s - nlen s')) end_ ;;
           Some (l :: ls)
         end.

  (** [set_bit_pos(pos)] then read up to [end_] *)
  Definition read_at (all : bits) (pos end_ : N) : option (list L) :=
    let s := skipn (N.to_nat pos) all in
    labels_until (S (length s)) s pos end_.

  (** [NodeLabelsSeq::next], [n] times: the end position of a node is the running sum of
      the γ-coded gaps read from the offsets file *)
  Fixpoint seq_nodes (n : nat) (all : bits) (cum : N) (os : bits) : option (list (list L)) :=
    match n with
    | O => Some []
    | S n' =>
      '(d, os') <- dec false Gamma os ;;
      ls <- read_at all cum (cum + d) ;;
      rest <- seq_nodes n' all (cum + d) os' ;;
      Some (ls :: rest)
    end.

  (** [iter_from(0)] reads the first gap, then [n] calls of [next] *)
  Definition read_seq (n : nat) (all obits : bits) : option (list (list L)) :=
    '(c0, os) <- dec false Gamma obits ;; seq_nodes n all (0 + c0) os.

  (** [BitStreamLabeling::labels(x)] over a list of cumulated offsets *)
  Definition read_ra (all : bits) (offs : list N) (x : nat) : option (list L) :=
    match nth_opt offs x, nth_opt offs (S x) with
    | Some a, Some b => read_at all a b
    | _, _ => None
    end.
End Store.

(** the Elias–Fano list built from the offsets file ([build_ef]): the [n+1] running sums
    of the γ-coded gaps (Elias–Fano itself is the identity on monotone sequences) *)
Definition lab_ef (n : nat) (obits : bits) : option (list N) :=
  '(gs, _) <- dec_gammas (S n) obits ;;
  match gs with
  | g0 :: rest => Some (prefix_sums (0 + g0) rest)
  | [] => None
  end.

Fixpoint omap {A B} (f : A -> option B) (l : list A) : option (list B) :=
  match l with
  | [] => Some []
  | a :: l' => b <- f a ;; bs <- omap f l' ;; Some (b :: bs)
  end.

(** * Instances with the two serializers *)
Definition lgraph := list (list (N * N)).   (* per node: (successor, label) *)

Definition succs (lg : lgraph) : list (list N) := map (map fst) lg.
Definition labs (lg : lgraph) : list (list N) := map (map snd) lg.

Definition labels_valid (sr : ser) (lg : lgraph) : bool :=
  forallb (forallb (fun sl => ser_valid sr (snd sl))) lg.

Definition lab_seq (le : bool) (sr : ser) (lg : lgraph) : lfiles :=
  lseq N (ser_enc le sr) (labs lg).

(** closed form of the files (proved equal to [lab_seq], hence to the parallel result):
    per-node label bits concatenated; γ(0) then γ of each node's bit count *)
Definition lab_closed (le : bool) (sr : ser) (lg : lgraph) : lfiles :=
  let nodes := map (fun nd => flat_map (ser_enc le sr) (map snd nd)) lg in
  mkFiles (concat nodes) (flat_map gamma_be (0 :: map nlen nodes)) (nlen (concat nodes)).

(** cut a list into the segments of a cut sequence (as [Splice.segments]) *)
Fixpoint psegments {A} (cuts : list N) (l : list A) : list (list A) :=
  match cuts with
  | a :: ((b :: _) as rest) =>
      let k := N.to_nat (b - a) in firstn k l :: psegments rest (skipn k l)
  | _ => []
  end.

(** sequential labelled compression: graph records, per-node record lengths, label files *)
Definition comp_labeled (le : bool) (cs : codes) (p : params) (sr : ser) (lg : lgraph)
  (sel : list N) : bits * list N * lfiles :=
  let recs := encode_graph p 0 (succs lg) sel in
  (graph_bits le cs recs, node_bitlens le cs recs, lab_seq le sr lg).

(** parallel labelled compression for a given arrival order (a list of positions) and
    given flush paddings of the part files *)
Definition par_comp_labeled (le : bool) (cs : codes) (p : params) (sr : ser) (cuts : list N)
  (lg : lgraph) (sels : list (list N)) (pads : list (bits * bits)) (arrival : list nat)
  : splice_result * lfiles :=
  let ws := workers le cs p O cuts (segments cuts (succs lg)) sels in
  let arr := flat_map (fun i => match nth_opt ws i with Some it => [it] | None => [] end) arrival in
  let q := task_queue arr in
  (splice q [] [] 0 0,
   lconcat q (lworkers N (ser_enc le sr) (psegments cuts (labs lg)) pads) concat_init).

Definition lab_read_seq (le : bool) (sr : ser) (n : nat) (all obits : bits) :=
  read_seq N (ser_dec le sr) n all obits.

Definition lab_read_ra (le : bool) (sr : ser) (all : bits) (offs : list N) (x : nat) :=
  read_ra N (ser_dec le sr) all offs x.

(** all nodes through the random-access path *)
Definition lab_read_ra_all (le : bool) (sr : ser) (n : nat) (all obits : bits) :=
  offs <- lab_ef n obits ;; omap (lab_read_ra le sr all offs) (seq 0 n).

(** [Zip]: per node, [std::iter::zip] of the successors and the labels *)
Definition zip_nodes (g lss : list (list N)) : lgraph :=
  map (fun sl => combine (fst sl) (snd sl)) (combine g lss).

(** [Zip(BvGraphSeq, BitStreamLabelingSeq)] and [Zip(BvGraph, BitStreamLabeling)] read
    from the three bit streams *)
Definition read_zip_seq (le : bool) (cs : codes) (p : params) (sr : ser) (n : nat)
  (gbits lbits obits : bits) : option lgraph :=
  '(g, _) <- decode_graph bits (rd_bits le cs) p n gbits ;;
  lss <- lab_read_seq le sr n lbits obits ;;
  Some (zip_nodes g lss).

Definition read_zip_ra (le : bool) (cs : codes) (p : params) (sr : ser) (n : nat)
  (gbits lbits obits : bits) : option lgraph :=
  '(g, _) <- decode_graph bits (rd_bits le cs) p n gbits ;;
  lss <- lab_read_ra_all le sr n lbits obits ;;
  Some (zip_nodes g lss).


End LabelStoreM.
Export LabelStoreM.
