(** Proofs of the pinned statements of Par/Splice.v: the task queue re-sequences any
    arrival order, splicing the chunks gives the sequential encoding, and no reference
    crosses a cut. *)
From WG Require Import Base.Prelude Codes.Codes BV.Model BV.RefSel BV.Bits BV.ZuckBase
  Par.Splice.
From Coq Require Import ZifyBool ZifyN ZifyNat.
Local Open Scope N_scope.

(** * Small list facts *)

Lemma nth_opt_error {A} (l : list A) : forall n, nth_opt l n = nth_error l n.
Proof.
  induction l as [|a l IH]; intros n; destruct n as [|n]; cbn [nth_opt nth_error];
    try reflexivity.
  apply IH.
Qed.

Lemma ids_nth (items : list item) i it :
  map fst items = seq 0 (length items) ->
  nth_error items i = Some it -> fst it = i.
Proof.
  intros Hid H.
  assert (Hlt : (i < length items)%nat).
  { apply nth_error_Some. rewrite H. discriminate. }
  pose proof (map_nth_error fst i items H) as Hm.
  rewrite Hid in Hm. apply (nth_error_nth _ _ O) in Hm.
  rewrite seq_nth in Hm by exact Hlt. cbn [Nat.add] in Hm. symmetry. exact Hm.
Qed.

(** * TaskQueue *)

Definition slot (jobs : list (option item)) (i : nat) : option item := nth i jobs None.

Lemma slot_nil i : slot [] i = None.
Proof. unfold slot. destruct i; reflexivity. Qed.

Lemma set_slot_slot it : forall i jobs j,
  slot (set_slot jobs i it) j = if Nat.eqb j i then Some it else slot jobs j.
Proof.
  unfold slot.
  induction i as [|i IH]; intros jobs j; destruct jobs as [|a jobs]; cbn [set_slot].
  - destruct j as [|j]; cbn [nth Nat.eqb]; [reflexivity|]. destruct j; reflexivity.
  - destruct j as [|j]; cbn [nth Nat.eqb]; reflexivity.
  - destruct j as [|j]; cbn [nth Nat.eqb]; [reflexivity|].
    rewrite IH. destruct (Nat.eqb j i); [reflexivity|]. destruct j; reflexivity.
  - destruct j as [|j]; cbn [nth Nat.eqb]; [reflexivity|]. apply IH.
Qed.

Lemma take_slot_None : forall i jobs, slot jobs i = None -> take_slot jobs i = None.
Proof.
  unfold slot.
  induction i as [|i IH]; intros jobs H; destruct jobs as [|a jobs]; cbn [take_slot nth] in *;
    try reflexivity.
  - subst a. reflexivity.
  - rewrite (IH jobs H). reflexivity.
Qed.

Lemma take_slot_Some it : forall i jobs, slot jobs i = Some it ->
  exists jobs', take_slot jobs i = Some (it, jobs')
    /\ forall j, slot jobs' j = if Nat.eqb j i then None else slot jobs j.
Proof.
  unfold slot.
  induction i as [|i IH]; intros jobs H; destruct jobs as [|a jobs]; cbn [take_slot nth] in *;
    try discriminate.
  - subst a. eexists. split; [reflexivity|].
    intros j. destruct j as [|j]; cbn [nth Nat.eqb]; reflexivity.
  - destruct (IH jobs H) as (jobs' & E & Hj). rewrite E.
    eexists. split; [reflexivity|].
    intros j. destruct j as [|j]; cbn [nth Nat.eqb]; [reflexivity|]. apply Hj.
Qed.

Section Queue.
  Variable items : list item.
  Hypothesis Hids : map fst items = seq 0 (length items).

  Record Inv (jobs : list (option item)) (next : nat) (arr : list item) : Prop := {
    inv_slot : forall i it, slot jobs i = Some it ->
                 nth_error items i = Some it /\ (next <= i)%nat;
    inv_arr : forall it, In it arr ->
                 nth_error items (fst it) = Some it /\ (next <= fst it)%nat
                 /\ slot jobs (fst it) = None;
    inv_nodup : NoDup (map fst arr);
    inv_cov : forall i it, (next <= i)%nat -> nth_error items i = Some it ->
                 slot jobs i = Some it \/ In it arr }.

  Lemma tq_next_ok next it : forall arr fuel jobs,
    (length arr < fuel)%nat ->
    Inv jobs next arr ->
    nth_error items next = Some it ->
    exists jobs' arr', tq_next fuel jobs next arr = Some (it, jobs', arr')
      /\ Inv jobs' (S next) arr'.
  Proof.
    induction arr as [|a arr IH]; intros fuel jobs Hf I Hit;
      (destruct fuel as [|fuel]; [cbn [length] in Hf; lia|]); cbn [tq_next].
    - (* nothing left to arrive: the item is in its slot *)
      destruct (inv_cov _ _ _ I next it (le_n _) Hit) as [Hs|[]].
      destruct (take_slot_Some it next jobs Hs) as (jobs' & E & Hj). rewrite E.
      exists jobs', []. split; [reflexivity|]. constructor.
      + intros i it' H. rewrite Hj in H. destruct (Nat.eqb i next) eqn:En; [discriminate|].
        apply Nat.eqb_neq in En. destruct (inv_slot _ _ _ I i it' H) as [H1 H2].
        split; [exact H1|lia].
      + intros it' [].
      + constructor.
      + intros i it' Hi H. left. rewrite Hj.
        destruct (Nat.eqb i next) eqn:En; [apply Nat.eqb_eq in En; lia|].
        destruct (inv_cov _ _ _ I i it' ltac:(lia) H) as [Hs'|[]]. exact Hs'.
    - destruct (slot jobs next) as [it0|] eqn:Hs.
      + (* already in its slot *)
        destruct (inv_slot _ _ _ I next it0 Hs) as [H0 _].
        rewrite Hit in H0. injection H0 as <-.
        destruct (take_slot_Some it next jobs Hs) as (jobs' & E & Hj). rewrite E.
        exists jobs', (a :: arr). split; [reflexivity|]. constructor.
        * intros i it' H. rewrite Hj in H. destruct (Nat.eqb i next) eqn:En; [discriminate|].
          apply Nat.eqb_neq in En. destruct (inv_slot _ _ _ I i it' H) as [H1 H2].
          split; [exact H1|lia].
        * intros it' Hin. destruct (inv_arr _ _ _ I it' Hin) as (H1 & H2 & H3).
          assert (fst it' <> next) by (intros En; rewrite En in H3; rewrite Hs in H3; discriminate).
          split; [exact H1|]. split; [lia|]. rewrite Hj.
          destruct (Nat.eqb (fst it') next); [reflexivity|exact H3].
        * exact (inv_nodup _ _ _ I).
        * intros i it' Hi H. destruct (inv_cov _ _ _ I i it' ltac:(lia) H) as [Hs'|Hin].
          -- left. rewrite Hj.
             destruct (Nat.eqb i next) eqn:En; [apply Nat.eqb_eq in En; lia|exact Hs'].
          -- right. exact Hin.
      + (* pull one arrival *)
        rewrite (take_slot_None next jobs Hs).
        apply IH; [cbn [length] in Hf; lia| |exact Hit].
        pose proof (inv_nodup _ _ _ I) as Hnd. cbn [map] in Hnd.
        apply NoDup_cons_iff in Hnd. destruct Hnd as [Hnin Hnd].
        destruct (inv_arr _ _ _ I a (or_introl eq_refl)) as (Ha1 & Ha2 & Ha3).
        constructor.
        * intros i it' H. rewrite set_slot_slot in H.
          destruct (Nat.eqb i (fst a)) eqn:En.
          -- apply Nat.eqb_eq in En. subst i. injection H as <-. split; assumption.
          -- exact (inv_slot _ _ _ I i it' H).
        * intros it' Hin. destruct (inv_arr _ _ _ I it' (or_intror Hin)) as (H1 & H2 & H3).
          split; [exact H1|]. split; [exact H2|]. rewrite set_slot_slot.
          destruct (Nat.eqb (fst it') (fst a)) eqn:En; [|exact H3].
          apply Nat.eqb_eq in En. exfalso. apply Hnin. rewrite <- En.
          apply in_map. exact Hin.
        * exact Hnd.
        * intros i it' Hi H. rewrite set_slot_slot.
          destruct (inv_cov _ _ _ I i it' Hi H) as [Hs'|[Hin|Hin]].
          -- left. destruct (Nat.eqb i (fst a)) eqn:En; [|exact Hs'].
             apply Nat.eqb_eq in En. subst i. rewrite Hs' in Ha3. discriminate.
          -- subst it'. left.
             assert (fst a = i) by (eapply ids_nth; eassumption). subst i.
             rewrite Nat.eqb_refl. reflexivity.
          -- right. exact Hin.
  Qed.

  Lemma tq_next_done fuel jobs arr :
    Inv jobs (length items) arr -> tq_next fuel jobs (length items) arr = None.
  Proof.
    intros I.
    assert (Hs : slot jobs (length items) = None).
    { destruct (slot jobs (length items)) as [it|] eqn:Hs; [|reflexivity].
      destruct (inv_slot _ _ _ I _ _ Hs) as [H _].
      assert (nth_error items (length items) <> None) by (rewrite H; discriminate).
      apply nth_error_Some in H0. lia. }
    assert (Ha : arr = []).
    { destruct arr as [|a arr]; [reflexivity|].
      destruct (inv_arr _ _ _ I a (or_introl eq_refl)) as (H1 & H2 & _).
      assert (nth_error items (fst a) <> None) by (rewrite H1; discriminate).
      apply nth_error_Some in H. lia. }
    subst arr. destruct fuel; cbn [tq_next]; rewrite (take_slot_None _ _ Hs); reflexivity.
  Qed.

  Lemma tq_drain_ok : forall fuel next jobs arr,
    (next <= length items)%nat -> (length items - next < fuel)%nat ->
    Inv jobs next arr ->
    tq_drain fuel jobs next arr = skipn next items.
  Proof.
    induction fuel as [|fuel IH]; intros next jobs arr Hn Hf I; [lia|].
    cbn [tq_drain].
    destruct (nth_error items next) as [it|] eqn:Hit.
    - assert (Hlt : (next < length items)%nat).
      { apply nth_error_Some. rewrite Hit. discriminate. }
      destruct (tq_next_ok next it arr (S (length arr)) jobs (Nat.lt_succ_diag_r _) I Hit)
        as (jobs' & arr' & E & I').
      rewrite E. rewrite (IH (S next) jobs' arr') by (try exact I'; lia).
      clear - Hit. revert next Hit.
      induction items as [|a l IHl]; intros next Hit; destruct next as [|n];
        cbn [nth_error] in Hit; try discriminate.
      + injection Hit as ->. reflexivity.
      + cbn [skipn]. apply (IHl n Hit).
    - apply nth_error_None in Hit. assert (next = length items) by lia. subst next.
      rewrite tq_next_done by exact I. rewrite skipn_all. reflexivity.
  Qed.
End Queue.

Theorem taskqueue_inorder : S_taskqueue_inorder.
Proof.
  intros items arr Hids Hperm. unfold task_queue.
  rewrite (tq_drain_ok items Hids).
  - reflexivity.
  - lia.
  - rewrite (Permutation_length Hperm). lia.
  - constructor.
    + intros i it H. rewrite slot_nil in H. discriminate.
    + intros it Hin. apply (Permutation_in _ Hperm) in Hin.
      destruct (In_nth_error _ _ Hin) as [i Hi].
      pose proof (ids_nth items i it Hids Hi) as Ei. rewrite Ei.
      split; [exact Hi|]. split; [lia|apply slot_nil].
    + apply (Permutation_NoDup (l := seq 0 (length items))); [|apply seq_NoDup].
      rewrite <- Hids. apply Permutation_map. symmetry. exact Hperm.
    + intros i it _ H. right. apply nth_error_In in H.
      apply (Permutation_in _ (Permutation_sym Hperm)). exact H.
Qed.

(** * Segments *)

Lemma nsum_app a b : nsum (a ++ b) = nsum a + nsum b.
Proof. induction a as [|x a IH]; cbn [app nsum]; [lia|]. rewrite IH. lia. Qed.

Lemma nlen_app' {A} (a b : list A) : nlen (a ++ b) = nlen a + nlen b.
Proof. unfold nlen. rewrite app_length. lia. Qed.

Lemma nondecreasing_last : forall l c, nondecreasing (c :: l) = true -> c <= last (c :: l) 0.
Proof.
  induction l as [|b l IH]; intros c H.
  - cbn [last]. lia.
  - cbn [nondecreasing] in H. apply andb_prop in H. destruct H as [H1 H2].
    apply N.leb_le in H1. specialize (IH b H2).
    change (last (c :: b :: l) 0) with (last (b :: l) 0). lia.
Qed.

(** the chunk [s] starting at [c] ends at the next cut *)
Fixpoint fits (c : N) (cuts : list N) (segs : list (list (list N))) : Prop :=
  match cuts, segs with
  | b :: cuts', s :: segs' => c + nlen s = b /\ fits b cuts' segs'
  | _, _ => True
  end.

Lemma segments_spec : forall cuts c g,
  nondecreasing (c :: cuts) = true ->
  c + nlen g = last (c :: cuts) 0 ->
  cuts <> [] ->
  length (segments (c :: cuts) g) = length cuts
  /\ fits c cuts (segments (c :: cuts) g)
  /\ concat (segments (c :: cuts) g) = g.
Proof.
  induction cuts as [|b cuts IH]; intros c g Hnd Hlast Hne; [contradiction|].
  pose proof Hnd as Hnd0.
  cbn [nondecreasing] in Hnd. apply andb_prop in Hnd. destruct Hnd as [Hcb Hnd].
  apply N.leb_le in Hcb.
  change (last (c :: b :: cuts) 0) with (last (b :: cuts) 0) in Hlast.
  pose proof (nondecreasing_last cuts b Hnd) as Hbl.
  assert (Hk : (N.to_nat (b - c) <= length g)%nat) by (unfold nlen in Hlast; lia).
  change (segments (c :: b :: cuts) g)
    with (firstn (N.to_nat (b - c)) g :: segments (b :: cuts) (skipn (N.to_nat (b - c)) g)).
  destruct cuts as [|b' cuts].
  - cbn [segments length fits concat last] in *. rewrite app_nil_r.
    assert (E : N.to_nat (b - c) = length g) by (unfold nlen in Hlast; lia).
    rewrite E, firstn_all. repeat split. unfold nlen. lia.
  - destruct (IH b (skipn (N.to_nat (b - c)) g) Hnd) as (H1 & H2 & H3).
    + unfold nlen in *. rewrite skipn_length. lia.
    + discriminate.
    + cbn [length fits concat]. rewrite H1, H3. split; [reflexivity|]. split.
      * split; [|exact H2]. unfold nlen. rewrite firstn_length. lia.
      * apply firstn_skipn.
Qed.

Lemma legal_cuts_inv cuts n : legal_cuts cuts n = true ->
  exists cuts', cuts = 0 :: cuts' /\ cuts' <> [] /\ nondecreasing cuts = true
    /\ last cuts 0 = n.
Proof.
  unfold legal_cuts. destruct cuts as [|c0 cuts']; [discriminate|]. intros H.
  apply andb_prop in H. destruct H as [H H4].
  apply andb_prop in H. destruct H as [H H3].
  apply andb_prop in H. destruct H as [H1 H2].
  apply N.eqb_eq in H1. apply N.eqb_eq in H2. subst c0.
  exists cuts'. split; [reflexivity|]. split.
  - destruct cuts'; [cbn in H4; discriminate|discriminate].
  - split; assumption.
Qed.

Lemma valid_sels_length p : forall segs sels,
  valid_sels p segs sels = true -> length sels = length segs.
Proof.
  induction segs as [|s segs IH]; intros sels H; destruct sels as [|sl sels];
    cbn [valid_sels] in H; try discriminate; [reflexivity|].
  apply andb_prop in H. destruct H as [_ H]. cbn [length]. rewrite (IH sels H). reflexivity.
Qed.

(** * Encoding chunk by chunk *)

Lemma node_fields_noref p x cur rl rl' : node_fields p x cur 0 rl = node_fields p x cur 0 rl'.
Proof. unfold node_fields. rewrite N.eqb_refl. reflexivity. Qed.

Lemma encode_nodes_local p : forall s x loc older sl,
  valid_sel p loc s sl = true ->
  encode_nodes p x (loc ++ older) s sl = encode_nodes p x loc s sl.
Proof.
  induction s as [|cur s IH]; intros x loc older sl H; [reflexivity|].
  destruct sl as [|d sl]; [cbn [valid_sel] in H; discriminate|].
  cbn [valid_sel] in H. apply andb_prop in H. destruct H as [H1 H2].
  cbn [encode_nodes hd tl]. f_equal.
  - destruct (d =? 0) eqn:E0.
    + apply N.eqb_eq in E0. subst d. apply node_fields_noref.
    + cbn [orb] in H1. apply andb_prop in H1. destruct H1 as [H1 _].
      apply andb_prop in H1. destruct H1 as [_ H1]. apply N.leb_le in H1.
      rewrite nth_opt_app1 by (unfold nlen in H1; lia). reflexivity.
  - change (cur :: loc ++ older) with ((cur :: loc) ++ older). apply IH. exact H2.
Qed.

Lemma encode_nodes_app p : forall g1 x prev g2 s1 s2,
  length s1 = length g1 ->
  encode_nodes p x prev (g1 ++ g2) (s1 ++ s2)
  = encode_nodes p x prev g1 s1 ++ encode_nodes p (x + nlen g1) (rev g1 ++ prev) g2 s2.
Proof.
  induction g1 as [|cur g1 IH]; intros x prev g2 s1 s2 Hl.
  - destruct s1; [|discriminate]. cbn [app encode_nodes rev]. f_equal.
    unfold nlen. cbn [length]. lia.
  - destruct s1 as [|d s1]; [discriminate|]. cbn [length] in Hl.
    cbn [app encode_nodes hd tl]. f_equal.
    rewrite IH by lia. f_equal. cbn [rev]. rewrite <- app_assoc. cbn [app].
    f_equal. unfold nlen. cbn [length]. lia.
Qed.

Fixpoint chunk_recs (p : params) (c : N) (segs : list (list (list N))) (sels : list (list N))
  : list (list field) :=
  match segs, sels with
  | s :: segs', sl :: sels' => encode_graph p c s sl ++ chunk_recs p (c + nlen s) segs' sels'
  | _, _ => []
  end.

Lemma chunk_recs_eq p : forall segs sels c prev,
  valid_sels p segs sels = true ->
  chunk_recs p c segs sels = encode_nodes p c prev (concat segs) (concat sels).
Proof.
  induction segs as [|s segs IH]; intros sels c prev H; destruct sels as [|sl sels];
    cbn [valid_sels] in H; try discriminate; [reflexivity|].
  apply andb_prop in H. destruct H as [H1 H2].
  cbn [chunk_recs concat]. rewrite encode_nodes_app by (eapply valid_sel_length; exact H1).
  f_equal.
  - unfold encode_graph. symmetry. apply (encode_nodes_local p s c [] prev sl H1).
  - apply IH. exact H2.
Qed.

Lemma valid_sels_concat p : forall segs sels prev,
  valid_sels p segs sels = true ->
  valid_sel p prev (concat segs) (concat sels) = true.
Proof.
  induction segs as [|s segs IH]; intros sels prev H; destruct sels as [|sl sels];
    cbn [valid_sels] in H; try discriminate; [reflexivity|].
  apply andb_prop in H. destruct H as [H1 H2]. cbn [concat].
  apply valid_sel_app.
  - apply (valid_sel_weaken p s [] prev sl H1).
  - apply IH. exact H2.
Qed.

Lemma graph_bits_app le cs a b :
  graph_bits le cs (a ++ b) = graph_bits le cs a ++ graph_bits le cs b.
Proof. unfold graph_bits. apply flat_map_app. Qed.

Lemma node_bitlens_app le cs a b :
  node_bitlens le cs (a ++ b) = node_bitlens le cs a ++ node_bitlens le cs b.
Proof. unfold node_bitlens. apply map_app. Qed.

(** * Splicing the workers' jobs in id order *)

Lemma workers_ids le cs p : forall segs cuts sels id,
  (length segs < length cuts)%nat -> length sels = length segs ->
  map fst (workers le cs p id cuts segs sels) = seq id (length segs).
Proof.
  induction segs as [|s segs IH]; intros cuts sels id Hc Hs;
    destruct cuts as [|c cuts]; destruct sels as [|sl sels]; cbn [length] in *;
    try discriminate; try lia; cbn [workers map seq]; try reflexivity.
  f_equal.
  - unfold worker. destruct s; reflexivity.
  - apply IH; lia.
Qed.

Lemma splice_worker_step le cs p id c s sl rest ab al arcs :
  splice (worker le cs p id c s sl :: rest) ab al arcs c
  = splice rest (ab ++ graph_bits le cs (encode_graph p c s sl))
                (al ++ node_bitlens le cs (encode_graph p c s sl))
                (arcs + nsum (map nlen s)) (c + nlen s).
Proof.
  destruct s as [|n0 s].
  - cbn [worker splice encode_graph encode_nodes graph_bits node_bitlens flat_map map nsum].
    rewrite !app_nil_r. f_equal; unfold nlen; cbn [length]; lia.
  - unfold worker. cbn [splice j_first j_last j_bits j_lens j_arcs].
    rewrite N.eqb_refl. f_equal. unfold nlen. cbn [length]. lia.
Qed.

Lemma splice_workers le cs p : forall segs cuts sels id c ab al arcs,
  length cuts = length segs -> length sels = length segs ->
  fits c cuts segs ->
  splice (workers le cs p id (c :: cuts) segs sels) ab al arcs c
  = SpliceOk (ab ++ graph_bits le cs (chunk_recs p c segs sels))
             (al ++ node_bitlens le cs (chunk_recs p c segs sels))
             (arcs + nsum (map nlen (concat segs)))
             (last (c :: cuts) 0).
Proof.
  induction segs as [|s segs IH]; intros cuts sels id c ab al arcs Hc Hs Hf;
    destruct cuts as [|b cuts]; destruct sels as [|sl sels]; cbn [length] in *;
    try discriminate.
  - cbn [workers splice chunk_recs graph_bits node_bitlens flat_map map concat nsum last].
    rewrite !app_nil_r. f_equal. lia.
  - cbn [fits] in Hf. destruct Hf as [Hb Hf]. subst b.
    change (last (c :: c + nlen s :: cuts) 0) with (last (c + nlen s :: cuts) 0).
    change (workers le cs p id (c :: c + nlen s :: cuts) (s :: segs) (sl :: sels))
      with (worker le cs p id c s sl
              :: workers le cs p (S id) (c + nlen s :: cuts) segs sels).
    rewrite splice_worker_step. rewrite IH by (try exact Hf; lia).
    cbn [chunk_recs concat].
    rewrite map_app, nsum_app, graph_bits_app, node_bitlens_app, !app_assoc.
    f_equal. lia.
Qed.

Lemma flat_map_nth_seq {A} : forall (ws : list A),
  flat_map (fun i => match nth_opt ws i with Some it => [it] | None => [] end)
           (seq 0 (length ws)) = ws.
Proof.
  induction ws as [|w ws IH]; [reflexivity|].
  cbn [length seq flat_map nth_opt app]. f_equal.
  rewrite <- seq_shift. rewrite flat_map_concat_map, map_map, <- flat_map_concat_map.
  cbn [nth_opt]. exact IH.
Qed.

Theorem par_comp_eq_seq : S_par_comp_eq_seq.
Proof.
  intros le cs p cuts g sels arrival Hlegal Hvs Harr recs.
  destruct (legal_cuts_inv _ _ Hlegal) as (cuts' & -> & Hne & Hnd & Hlast).
  destruct (segments_spec cuts' 0 g Hnd) as (Hlen & Hfit & Hcat); [lia|exact Hne|].
  pose proof (valid_sels_length _ _ _ Hvs) as Hsl.
  set (segs := segments (0 :: cuts') g) in *.
  split.
  - unfold par_comp. fold segs.
    set (ws := workers le cs p O (0 :: cuts') segs sels).
    assert (Hmf : map fst ws = seq 0 (length segs)).
    { unfold ws. apply workers_ids; cbn [length]; lia. }
    assert (Hwl : length ws = length segs).
    { pose proof (f_equal (@length nat) Hmf) as HH.
      rewrite map_length, seq_length in HH. exact HH. }
    assert (Hids : map fst ws = seq 0 (length ws)).
    { rewrite Hwl. exact Hmf. }
    rewrite (taskqueue_inorder ws _ Hids).
    + unfold ws. rewrite splice_workers by (try exact Hfit; lia).
      rewrite (chunk_recs_eq p segs sels 0 [] Hvs), Hcat, Hlast.
      cbn [app]. rewrite N.add_0_l. reflexivity.
    + assert (Hp : Permutation arrival (seq 0 (length ws))).
      { rewrite Hwl, Hlen.
        replace (length (0%N :: cuts') - 1)%nat with (length cuts') in Harr
          by (cbn [length]; lia).
        exact Harr. }
      eapply perm_trans; [apply Permutation_flat_map; exact Hp|].
      rewrite (flat_map_nth_seq ws). apply Permutation_refl.
  - rewrite <- Hcat. apply valid_sels_concat. exact Hvs.
Qed.

(** * References stay inside their chunk *)

Lemma refs_in_chunk_seg p st : forall s prev sl x sels2 starts2,
  valid_sel p prev s sl = true ->
  x = st + nlen prev ->
  refs_in_chunk (x + nlen s) sels2 starts2 = true ->
  refs_in_chunk x (sl ++ sels2) (repeat st (length s) ++ starts2) = true.
Proof.
  induction s as [|cur s IH]; intros prev sl x sels2 starts2 Hv Hx H;
    destruct sl as [|d sl]; cbn [valid_sel] in Hv; try discriminate.
  - cbn [app length repeat]. replace (x + nlen []) with x in H; [exact H|].
    unfold nlen. cbn [length]. lia.
  - apply andb_prop in Hv. destruct Hv as [H1 H2].
    cbn [app length repeat refs_in_chunk].
    rewrite (IH (cur :: prev) sl (x + 1) sels2 starts2 H2).
    + assert (d <= nlen prev).
      { destruct (d =? 0) eqn:E0; [apply N.eqb_eq in E0; lia|].
        cbn [orb] in H1. apply andb_prop in H1. destruct H1 as [H1 _].
        apply andb_prop in H1. destruct H1 as [_ H1]. apply N.leb_le in H1. exact H1. }
      assert (E1 : d <=? x - st = true) by (apply N.leb_le; lia).
      assert (E2 : st <=? x = true) by (apply N.leb_le; lia).
      rewrite E1, E2. reflexivity.
    + unfold nlen in *. cbn [length]. lia.
    + rewrite <- H. f_equal. unfold nlen. cbn [length]. lia.
Qed.

Lemma refs_in_chunk_segs p : forall segs sels cuts c,
  length cuts = length segs -> fits c cuts segs ->
  valid_sels p segs sels = true ->
  refs_in_chunk c (concat sels) (chunk_starts (c :: cuts)) = true.
Proof.
  induction segs as [|s segs IH]; intros sels cuts c Hc Hf Hv;
    destruct sels as [|sl sels]; cbn [valid_sels] in Hv; try discriminate;
    destruct cuts as [|b cuts]; cbn [length] in Hc; try discriminate.
  - reflexivity.
  - apply andb_prop in Hv. destruct Hv as [H1 H2].
    cbn [fits] in Hf. destruct Hf as [Hb Hf].
    change (chunk_starts (c :: b :: cuts))
      with (repeat c (N.to_nat (b - c)) ++ chunk_starts (b :: cuts)).
    cbn [concat].
    replace (N.to_nat (b - c)) with (length s) by (unfold nlen in Hb; lia).
    apply (refs_in_chunk_seg p c s [] sl c _ _ H1).
    + unfold nlen. cbn [length]. lia.
    + rewrite Hb. apply IH; [lia|exact Hf|exact H2].
Qed.

Theorem chunk_refs_local : S_chunk_refs_local.
Proof.
  intros p cuts g sels Hlegal Hvs.
  destruct (legal_cuts_inv _ _ Hlegal) as (cuts' & -> & Hne & Hnd & Hlast).
  destruct (segments_spec cuts' 0 g Hnd) as (Hlen & Hfit & Hcat); [lia|exact Hne|].
  apply (refs_in_chunk_segs p (segments (0 :: cuts') g)); [lia|exact Hfit|exact Hvs].
Qed.

Print Assumptions taskqueue_inorder.
Print Assumptions par_comp_eq_seq.
Print Assumptions chunk_refs_local.
