(** Pinned statements for the depth-first visits, [top_sort] and [is_acyclic] (C14).
    Statements and specification-side definitions only. *)
From WG Require Import Base.Prelude Visits.Dfs.
From Coq Require Import Relations.
Local Open Scope N_scope.

(** * Graph-theoretic vocabulary *)
Definition arc (g : graph) (u v : N) : Prop := In v (succs g u).
(** a directed walk with at least one arc *)
Definition tpath (g : graph) : N -> N -> Prop := clos_trans_1n N (arc g).
(** a directed walk with zero or more arcs *)
Definition rpath (g : graph) : N -> N -> Prop := clos_refl_trans_1n N (arc g).
(** no directed cycle; a self-loop is a cycle *)
Definition acyclic (g : graph) : Prop := forall u, ~ tpath g u u.
(** every arc goes from an earlier to a strictly later position *)
Definition topo_order (g : graph) (order : list N) : Prop :=
  forall l1 u l2, order = l1 ++ u :: l2 -> forall v, arc g u v -> In v l2.

(** the visit path after a sequence of events: previsited, not yet postvisited (top first) *)
Definition path_upd (st : list N) (e : event) : list N :=
  match e with
  | EPre v _ _ _ => v :: st
  | EPost _ _ _ _ => tl st
  | _ => st
  end.
Definition path_after (evs : list event) : list N := fold_left path_upd evs [].
(** [l] (top first) is a path of the graph read from the bottom *)
Fixpoint chain (g : graph) (l : list N) : Prop :=
  match l with
  | a :: ((b :: _) as t) => arc g b a /\ chain g t
  | _ => True
  end.

Definition track_of (fl : flavour) : bool := match fl with Path => true | _ => false end.

Definition map_result (f : list event -> list event) (r : dfs_result) : dfs_result :=
  match r with
  | DfsOk evs c => DfsOk (f evs) c
  | DfsOutOfFuel => DfsOutOfFuel
  | DfsOutOfRange evs => DfsOutOfRange (f evs)
  end.

(** * The machine *)

(** the fuel never runs out — whatever the graph, the filter, the roots (repetitions
    included) and the marks left by earlier visits; on a well-formed graph with roots in
    range the visit completes with an empty stack *)
Definition S_fuel_suffices : Prop := forall fl g flt roots known onst,
  dfs fl g flt roots known onst <> DfsOutOfFuel
  /\ (gwf g = true -> (forall r, In r roots -> r < nlen g) ->
      exists evs cf, dfs fl g flt roots known onst = DfsOk evs cf
                     /\ c_stack cf = [] /\ c_roots cf = []).

(** [SeqPred] and [SeqNoPred] show exactly the erasure of the [SeqPath] events *)
Definition S_flavours_erasure : Prop := forall fl g flt roots known onst,
  dfs fl g flt roots known onst
  = map_result (flat_map (ev_erase fl)) (dfs Path g flt roots known onst).

(** the events of a complete visit are accepted by the replay automaton: Init/Done bracket
    each tree, previsits and postvisits are properly nested, a node is previsited only if
    it was not known, [parent] is the node below on the path (the root for the root),
    [depth] is the height of the path, [root] the root of the tree, every previsit/revisit
    travels an arc of the graph from the top of the path, and — for [SeqPath] — a revisit
    is flagged exactly when its target is on the path ([SeqPred]: never).  The marks after
    the visit are the old ones plus the previsited nodes, and no on-stack mark is left. *)
Definition S_events_nested : Prop := forall fl g flt roots known evs cf,
  fl <> NoPred ->
  dfs fl g flt roots known [] = DfsOk evs cf ->
  wf_events (track_of fl) g known evs = true
  /\ c_known cf = rev (pre_nodes evs) ++ known /\ c_onst cf = [].

(** what an accepted event says, relative to the visit path [st] before it (top first):
    depth = height of the path, parent/pred = top of the path, root = bottom of the path,
    the arc travelled is an arc of the graph, a previsited node is not on the path, the
    on-stack flag of a revisit tells whether the target is on the path *)
Definition ev_spec (track : bool) (g : graph) (st : list N) (e : event) : Prop :=
  match e with
  | EInit r => st = []
  | EDone r => st = []
  | EPre v p r d =>
      d = nlen st /\ ~ In v st /\ v < nlen g
      /\ match st with [] => p = v /\ r = v | u :: _ => p = u /\ arc g u v /\ r = last st u end
  | ERev v p r d os =>
      d = nlen st /\ (os = true <-> track = true /\ In v st)
      /\ match st with [] => False | u :: _ => p = u /\ arc g u v /\ r = last st u end
  | EPost v p r d =>
      match st with
      | [] => False
      | u :: st' => v = u /\ d = nlen st' /\ p = hd u st' /\ r = last st u
      end
  end.

(** what acceptance by the replay automaton means (soundness of the checker): no node is
    previsited twice or when already marked, every previsit is matched by a postvisit, the
    path is empty at the end, and at every event the path is a duplicate-free path of the
    graph and the event's fields are as [ev_spec] says *)
Definition S_wf_events_sound : Prop := forall track g seen evs,
  NoDup seen -> wf_events track g seen evs = true ->
  NoDup (pre_nodes evs)
  /\ (forall v, In v (pre_nodes evs) -> ~ In v seen /\ v < nlen g)
  /\ Permutation (post_nodes evs) (pre_nodes evs)
  /\ path_after evs = []
  /\ (forall pre e post, evs = pre ++ e :: post ->
      let st := path_after pre in chain g st /\ NoDup st /\ ev_spec track g st e).

(** the visit path is a path of tree arcs, and a [Revisit] of [SeqPath] is flagged
    [on_stack] exactly when its target is an ancestor on that path (or the current node
    itself: a self-loop) *)
Definition S_on_stack_iff_ancestor : Prop := forall g flt roots known evs cf pre v p r d os post,
  dfs Path g flt roots known [] = DfsOk evs cf ->
  evs = pre ++ ERev v p r d os :: post ->
  chain g (path_after pre) /\ hd_error (path_after pre) = Some p
  /\ (os = true <-> In v (path_after pre)).

(** without filter, from fresh marks: the previsited nodes are exactly the nodes reachable
    from the roots, each once *)
Definition S_spanning : Prop := forall fl g roots evs cf,
  dfs fl g no_filter roots [] [] = DfsOk evs cf ->
  NoDup (pre_nodes evs)
  /\ forall v, In v (pre_nodes evs) <-> exists r, In r roots /\ rpath g r v.

(** * Algorithms *)

(** [top_sort] fills all n cells: its result is a permutation of the nodes *)
Definition S_top_sort_perm : Prop := forall g,
  gwf g = true -> exists l, top_sort g = Some l /\ Permutation l (nodes g).

(** [is_acyclic] answers true exactly on graphs without directed cycles *)
Definition S_acyclic_sound : Prop := forall g,
  gwf g = true -> is_acyclic g = Some true -> acyclic g.
Definition S_acyclic_complete : Prop := forall g,
  gwf g = true -> is_acyclic g = Some false -> exists u, tpath g u u.
Definition S_acyclic_iff : Prop := forall g,
  gwf g = true -> exists b, is_acyclic g = Some b /\ (b = true <-> acyclic g).

(** on acyclic graphs the result of [top_sort] is a topological order *)
Definition S_top_sort_valid : Prop := forall g,
  gwf g = true -> acyclic g ->
  exists l, top_sort g = Some l /\ Permutation l (nodes g) /\ topo_order g l.

(** * Checkers used as oracles *)
Definition S_check_topsort_spec : Prop := forall g order,
  check_topsort g order = true <-> Permutation order (nodes g) /\ topo_order g order.

(** a topological order certifies acyclicity *)
Definition S_topo_order_acyclic : Prop := forall g order,
  Permutation order (nodes g) -> topo_order g order -> acyclic g.

Definition S_reach_plus_spec : Prop := forall g u s,
  reach_plus g u = Some s -> forall v, In v s <-> tpath g u v.

Definition S_reach_star_spec : Prop := forall g us s,
  reach_star g us = Some s -> forall v, In v s <-> exists u, In u us /\ rpath g u v.

Definition S_has_cycle_brute_spec : Prop := forall g b,
  has_cycle_brute g = Some b -> (b = true <-> exists u, tpath g u u).
