(** Soundness and completeness of the executable checkers used as oracles:
    [check_topsort], [reach_plus], [reach_star], [has_cycle_brute]. *)
From WG Require Import Base.Prelude Visits.Dfs Visits.DfsStatements Visits.DfsFacts.
From Coq Require Import ZifyBool ZifyN ZifyNat Relations.
Local Open Scope N_scope.

(** * Topological order checker *)
Lemma arcs_forward_spec g order : arcs_forward g order = true <-> topo_order g order.
Proof.
  induction order as [|u0 rest IH]; cbn [arcs_forward].
  - split; [|reflexivity]. intros _ l1 u l2 He. destruct l1; discriminate.
  - rewrite andb_true_iff, forallb_forall, IH. split.
    + intros [Hh Ht] l1 u l2 He v Hv. destruct l1 as [|x l1]; cbn [app] in He; inversion He; subst.
      * apply memb_In. apply Hh. exact Hv.
      * apply (Ht l1 u l2 eq_refl v Hv).
    + intros H. split.
      * intros v Hv. apply memb_In. apply (H [] u0 rest eq_refl v Hv).
      * intros l1 u l2 He v Hv. apply (H (u0 :: l1) u l2); [rewrite He; reflexivity|exact Hv].
Qed.

Lemma is_perm_nodes_spec g order : is_perm_nodes g order = true <-> Permutation order (nodes g).
Proof.
  unfold is_perm_nodes. rewrite andb_true_iff, Nat.eqb_eq, forallb_forall. split.
  - intros [Hl Hin]. apply Permutation_sym. apply NoDup_Permutation_bis.
    + apply nodes_NoDup.
    + rewrite nodes_len. lia.
    + intros v Hv. apply memb_In. apply Hin. exact Hv.
  - intros Hp. split.
    + rewrite (Permutation_length Hp). apply nodes_len.
    + intros v Hv. apply memb_In. apply Permutation_in with (nodes g); [apply Permutation_sym; exact Hp|exact Hv].
Qed.

Theorem check_topsort_spec : S_check_topsort_spec.
Proof.
  intros g order. unfold check_topsort.
  rewrite andb_true_iff, is_perm_nodes_spec, arcs_forward_spec. tauto.
Qed.

(** * Saturation *)
Lemma add_all_In xs : forall acc v, In v (add_all xs acc) <-> In v xs \/ In v acc.
Proof.
  induction xs as [|x xs IH]; intros acc v; cbn [add_all In]; [tauto|].
  destruct (memb x acc) eqn:Hm; rewrite IH; cbn [In].
  - apply memb_In in Hm. split; [tauto|]. intros [[H|H]|H]; subst; tauto.
  - tauto.
Qed.

Lemma add_all_len xs : forall acc, (length acc <= length (add_all xs acc))%nat.
Proof.
  induction xs as [|x xs IH]; intros acc; cbn [add_all]; [lia|].
  destruct (memb x acc); [apply IH|]. specialize (IH (x :: acc)). cbn [length] in IH. lia.
Qed.

Lemma add_all_fix xs : forall acc,
  length (add_all xs acc) = length acc -> forall x, In x xs -> In x acc.
Proof.
  induction xs as [|x xs IH]; intros acc Hl y Hy; [destruct Hy|].
  cbn [add_all] in Hl. destruct (memb x acc) eqn:Hm.
  - destruct Hy as [Hy|Hy]; [subst; apply memb_In; exact Hm|apply IH; assumption].
  - exfalso. pose proof (add_all_len xs (x :: acc)) as H. cbn [length] in H. lia.
Qed.

Definition closed (g : graph) (s : list N) : Prop := forall u v, In u s -> arc g u v -> In v s.

Lemma rpath_snoc g a b c : rpath g a b -> arc g b c -> rpath g a c.
Proof.
  unfold rpath. intros H. induction H as [x|x y z Hxy Hyz IH]; intros Hc.
  - apply Relation_Operators.rt1n_trans with (y := c); [exact Hc|apply rt1n_refl].
  - apply Relation_Operators.rt1n_trans with (y := y); [exact Hxy|apply IH; exact Hc].
Qed.

Lemma closure_spec g fuel : forall s s',
  closure g fuel s = Some s' ->
  incl s s' /\ (forall v, In v s' -> exists u, In u s /\ rpath g u v) /\ closed g s'.
Proof.
  induction fuel as [|f IH]; intros s s' H; [discriminate|].
  cbn [closure] in H. destruct (length (expand g s) =? length s)%nat eqn:Hl.
  - inversion H; subst. apply Nat.eqb_eq in Hl. split; [apply incl_refl|]. split.
    + intros v Hv. exists v. split; [exact Hv|apply rt1n_refl].
    + intros u v Hu Huv. apply (add_all_fix _ _ Hl). apply in_flat_map. exists u. split; assumption.
  - destruct (IH _ _ H) as [Hi [Hs Hc]]. split; [|split; [|exact Hc]].
    + intros v Hv. apply Hi. unfold expand. apply add_all_In. right. exact Hv.
    + intros v Hv. destruct (Hs v Hv) as [u [Hu Hp]]. unfold expand in Hu.
      apply add_all_In in Hu. destruct Hu as [Hu|Hu]; [|exists u; split; assumption].
      apply in_flat_map in Hu. destruct Hu as [w [Hw Hwu]]. exists w. split; [exact Hw|].
      apply Relation_Operators.rt1n_trans with (y := u); assumption.
Qed.

Lemma closed_rpath g s u v : closed g s -> rpath g u v -> In u s -> In v s.
Proof.
  intros Hc H. induction H as [x|x y z Hxy Hyz IH]; intros Hu; [exact Hu|].
  apply IH. apply (Hc x y Hu Hxy).
Qed.

Lemma closed_tpath g s u v : closed g s -> tpath g u v -> In u s -> In v s.
Proof.
  intros Hc H. induction H as [x y Hxy|x y z Hxy Hyz IH]; intros Hu.
  - apply (Hc x y Hu Hxy).
  - apply IH. apply (Hc x y Hu Hxy).
Qed.

Lemma arc_rpath_tpath g u w v : arc g u w -> rpath g w v -> tpath g u v.
Proof.
  intros Hu H. revert u Hu. induction H as [x|x y z Hxy Hyz IH]; intros u Hu.
  - apply t1n_step. exact Hu.
  - apply Relation_Operators.t1n_trans with (y := x); [exact Hu|]. apply IH. exact Hxy.
Qed.

Theorem reach_star_spec : S_reach_star_spec.
Proof.
  intros g us s H v. unfold reach_star in H.
  destruct (closure_spec _ _ _ _ H) as [Hi [Hs Hc]]. split.
  - intros Hv. destruct (Hs v Hv) as [u [Hu Hp]]. exists u. split; [|exact Hp].
    apply add_all_In in Hu. destruct Hu as [Hu|[]]. exact Hu.
  - intros [u [Hu Hp]]. apply (closed_rpath g s u v Hc Hp). apply Hi. apply add_all_In. left. exact Hu.
Qed.

Theorem reach_plus_spec : S_reach_plus_spec.
Proof.
  intros g u s H v. unfold reach_plus in H.
  destruct (closure_spec _ _ _ _ H) as [Hi [Hs Hc]]. split.
  - intros Hv. destruct (Hs v Hv) as [w [Hw Hp]].
    apply add_all_In in Hw. destruct Hw as [Hw|[]]. apply (arc_rpath_tpath g u w v Hw Hp).
  - intros Hp. unfold tpath in Hp. inversion Hp as [y Huy|y z Huy Hyz]; subst.
    + apply Hi. apply add_all_In. left. exact Huy.
    + apply (closed_tpath g s y v Hc Hyz). apply Hi. apply add_all_In. left. exact Huy.
Qed.

(** * Brute-force cycle test *)
Lemma any_opt_false f l : any_opt f l = Some false -> forall x, In x l -> f x = Some false.
Proof.
  induction l as [|y l IH]; intros H x Hx; [destruct Hx|].
  cbn [any_opt] in H. destruct (f y) as [[|]|] eqn:Hy; try discriminate.
  destruct Hx as [Hx|Hx]; [subst; exact Hy|apply IH; assumption].
Qed.

Lemma any_opt_true f l : any_opt f l = Some true -> exists x, In x l /\ f x = Some true.
Proof.
  induction l as [|y l IH]; intros H; [discriminate|].
  cbn [any_opt] in H. destruct (f y) as [[|]|] eqn:Hy; try discriminate.
  - exists y. split; [left; reflexivity|exact Hy].
  - destruct (IH H) as [x [Hx Hfx]]. exists x. split; [right; exact Hx|exact Hfx].
Qed.

Theorem has_cycle_brute_spec : S_has_cycle_brute_spec.
Proof.
  intros g b H. unfold has_cycle_brute in H. split.
  - intros Hb. subst b. destruct (any_opt_true _ _ H) as [u [_ Hu]].
    unfold on_cycle in Hu. destruct (reach_plus g u) as [s|] eqn:Hr; [|discriminate].
    inversion Hu as [Hm]. apply memb_In in Hm. exists u. apply (reach_plus_spec g u s Hr u). exact Hm.
  - intros [u Hu]. destruct b; [reflexivity|]. exfalso.
    assert (Hlt : u < nlen g).
    { unfold tpath in Hu. inversion Hu as [y Huy|y z Huy Hyz]; subst; eapply succs_lt; exact Huy. }
    pose proof (any_opt_false _ _ H u (proj2 (nodes_In g u) Hlt)) as Hf.
    unfold on_cycle in Hf. destruct (reach_plus g u) as [s|] eqn:Hr; [|discriminate].
    inversion Hf as [Hm]. apply memb_false in Hm. apply Hm.
    apply (reach_plus_spec g u s Hr u). exact Hu.
Qed.
