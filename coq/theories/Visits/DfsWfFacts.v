(** The machine's events are accepted by the replay automaton (simulation), and what
    acceptance means (soundness of the automaton as a checker). *)
From WG Require Import Base.Prelude Visits.Dfs Visits.DfsStatements Visits.DfsFacts.
From Coq Require Import ZifyBool ZifyN ZifyNat.
Local Open Scope N_scope.

Ltac if_true :=
  match goal with
  | |- context [if ?b then _ else _] =>
    let H := fresh in assert (H : b = true); [|rewrite H; clear H]
  end.

(** * State invariant of the machine *)
Definition stack_nodes (c : cfg) : list N := map fst (c_stack c).

Record sinv (g : graph) (c : cfg) : Prop := mkSinv {
  si_known : forall v, In v (stack_nodes c) -> In v (c_known c);
  si_nodup : NoDup (stack_nodes c);
  si_onst : forall v, In v (c_onst c) <-> In v (stack_nodes c);
  si_rem : Forall (fun f => incl (snd f) (succs g (fst f))) (c_stack c);
  si_chain : chain g (stack_nodes c) }.

Lemma chain_tl g a l : chain g (a :: l) -> chain g l.
Proof. destruct l as [|b l]; cbn [chain]; [tauto|]. intros [_ H]. exact H. Qed.

Lemma sinv_init g roots known : sinv g (init_cfg roots known []).
Proof.
  constructor; unfold stack_nodes, init_cfg; cbn [c_stack c_known c_onst map].
  - intros v [].
  - constructor.
  - intros v. tauto.
  - constructor.
  - exact I.
Qed.

Lemma sinv_step g flt c c' evs : sinv g c -> stepR g flt c c' evs -> sinv g c'.
Proof.
  intros [Hk Hn Ho Hr Hc] H.
  destruct H as [r rs root known onst Hr0 Hkn | r rs root known onst Hr0 Hkn Hf
                | roots root u v rem below known onst Hv Hkn
                | roots root u v rem below known onst Hv Hkn Hf
                | roots root u v rem below known onst Hv Hkn Hf
                | roots root u below known onst];
    unfold stack_nodes in *; cbn [c_stack c_known c_onst map fst] in *.
  - constructor; unfold stack_nodes; cbn [c_stack c_known c_onst map fst]; assumption.
  - constructor; unfold stack_nodes; cbn [c_stack c_known c_onst map fst].
    + intros v [Hv|[]]. left. exact Hv.
    + constructor; [intros []|constructor].
    + intros v. cbn [In]. rewrite Ho. cbn [In]. tauto.
    + constructor; [apply incl_refl|constructor].
    + exact I.
  - constructor; unfold stack_nodes; cbn [c_stack c_known c_onst map fst]; try assumption.
    inversion Hr as [|f l Hf Hl]; subst. cbn [fst snd] in Hf.
    constructor; [|exact Hl]. intros x Hx. apply Hf. right. exact Hx.
  - inversion Hr as [|f l Hf0 Hl]; subst. cbn [fst snd] in Hf0.
    assert (Hnv : ~ In v (u :: map fst below)).
    { intro Hin. apply Hk in Hin. apply memb_false in Hkn. contradiction. }
    constructor; unfold stack_nodes; cbn [c_stack c_known c_onst map fst].
    + intros x [Hx|Hx]; [left; exact Hx|right; apply Hk; exact Hx].
    + constructor; assumption.
    + intros x. cbn [In]. rewrite Ho. cbn [In]. tauto.
    + constructor; [apply incl_refl|]. constructor; [|exact Hl].
      intros x Hx. apply Hf0. right. exact Hx.
    + cbn [chain]. split; [|exact Hc]. unfold arc. apply Hf0. left. reflexivity.
  - constructor; unfold stack_nodes; cbn [c_stack c_known c_onst map fst]; try assumption.
    inversion Hr as [|f l Hf0 Hl]; subst. cbn [fst snd] in Hf0.
    constructor; [|exact Hl]. intros x Hx. apply Hf0. right. exact Hx.
  - inversion Hr as [|f l Hf0 Hl]; subst. inversion Hn as [|a l Hna Hnl]; subst.
    constructor; unfold stack_nodes; cbn [c_stack c_known c_onst map fst].
    + intros x Hx. apply Hk. right. exact Hx.
    + exact Hnl.
    + intros x. split.
      * intros Hx. apply in_remove in Hx. destruct Hx as [Hx Hne].
        apply Ho in Hx. destruct Hx as [Hx|Hx]; [congruence|exact Hx].
      * intros Hx. apply in_in_remove.
        -- intro He. subst x. contradiction.
        -- apply Ho. right. exact Hx.
    + exact Hl.
    + apply chain_tl in Hc. exact Hc.
Qed.

(** * Simulation by the replay automaton *)
Definition abs (c : cfg) : chk :=
  mkChk (match c_stack c with [] => Idle | _ => Inside (c_root c) end) (stack_nodes c) (c_known c).

Lemma nlen_map_fst (A B : Type) (l : list (A * B)) : nlen (map fst l) = nlen l.
Proof. unfold nlen. now rewrite map_length. Qed.

Lemma eqb_reflx b : Bool.eqb b b = true.
Proof. destruct b; reflexivity. Qed.

Lemma sim_step fl g flt c c' evs :
  fl <> NoPred -> sinv g c -> stepR g flt c c' evs ->
  chk_run (track_of fl) g (abs c) (flat_map (ev_erase fl) evs) = Some (abs c').
Proof.
  intros Hfl [Hk Hn Ho Hr Hc] H.
  destruct H as [r rs root known onst Hr0 Hkn | r rs root known onst Hr0 Hkn Hf
                | roots root u v rem below known onst Hv Hkn
                | roots root u v rem below known onst Hv Hkn Hf
                | roots root u v rem below known onst Hv Hkn Hf
                | roots root u below known onst];
    unfold abs, stack_nodes in *; cbn [c_stack c_known c_onst c_root map fst] in *.
  - reflexivity.
  - assert (Hlt : (r <? nlen g) = true) by (apply N.ltb_lt; exact Hr0).
    destruct fl; [contradiction| |];
      cbn [flat_map ev_erase app chk_run chk_step k_phase k_stack k_seen];
      rewrite Hkn, Hlt; cbn [negb andb chk_run chk_step k_phase k_stack k_seen];
      rewrite !N.eqb_refl, ?Hkn, ?Hlt; cbn [negb andb]; reflexivity.
  - inversion Hr as [|f l Hf Hl]; subst. cbn [fst snd] in Hf.
    assert (Harc : hasarc g u v = true).
    { unfold hasarc. apply memb_In. apply Hf. left. reflexivity. }
    assert (Hd : (nlen ((u, v :: rem) :: below) =? nlen (u :: map fst below)) = true).
    { apply N.eqb_eq. unfold nlen. cbn [length]. now rewrite map_length. }
    assert (Hos : memb v onst = memb v (u :: map fst below)).
    { apply memb_ext. apply Ho. }
    destruct fl; [contradiction| |];
      cbn [flat_map ev_erase app chk_run chk_step k_phase k_stack k_seen track_of];
      rewrite !N.eqb_refl, Hd, Harc, Hkn; cbn [andb].
    + reflexivity.
    + rewrite Hos, eqb_reflx. reflexivity.
  - inversion Hr as [|f l Hf0 Hl]; subst. cbn [fst snd] in Hf0.
    assert (Harc : hasarc g u v = true).
    { unfold hasarc. apply memb_In. apply Hf0. left. reflexivity. }
    assert (Hd : (nlen ((u, v :: rem) :: below) =? nlen (u :: map fst below)) = true).
    { apply N.eqb_eq. unfold nlen. cbn [length]. now rewrite map_length. }
    assert (Hlt : (v <? nlen g) = true) by (apply N.ltb_lt; exact Hv).
    destruct fl; [contradiction| |];
      cbn [flat_map ev_erase app chk_run chk_step k_phase k_stack k_seen track_of];
      rewrite !N.eqb_refl, Hd, Harc, Hkn, Hlt; cbn [andb negb]; reflexivity.
  - reflexivity.
  - assert (Hp : ((match below with [] => u | (p, _) :: _ => p end)
                  =? (match map fst below with [] => u | w :: _ => w end)) = true).
    { destruct below as [|[p rm] below']; cbn [map fst]; apply N.eqb_refl. }
    assert (Hd : (nlen ((u, @nil N) :: below) - 1 =? nlen (map fst below)) = true).
    { apply N.eqb_eq. unfold nlen. cbn [length]. rewrite map_length. lia. }
    destruct below as [|[p rm] below'].
    + destruct fl; [contradiction| |];
        cbn [flat_map ev_erase app chk_run chk_step k_phase k_stack k_seen track_of];
        rewrite !N.eqb_refl, ?Hd; cbn [andb];
        cbn [chk_run chk_step k_phase k_stack k_seen]; rewrite N.eqb_refl; reflexivity.
    + destruct fl; [contradiction| |];
        cbn [flat_map ev_erase app chk_run chk_step k_phase k_stack k_seen track_of];
        rewrite !N.eqb_refl, ?Hp, ?Hd; cbn [andb]; reflexivity.
Qed.

Lemma chk_run_app track g s a b :
  chk_run track g s (a ++ b)
  = match chk_run track g s a with Some s' => chk_run track g s' b | None => None end.
Proof.
  revert s. induction a as [|e a IH]; intros s; cbn [app chk_run]; [reflexivity|].
  destruct (chk_step track g s e); [apply IH|reflexivity].
Qed.

(** the machine's run is accepted, from any reachable configuration *)
Lemma run_sim fl g flt fuel c acc evs cf s0 :
  fl <> NoPred -> sinv g c ->
  chk_run (track_of fl) g s0 acc = Some (abs c) ->
  run fl g flt fuel c acc = DfsOk evs cf ->
  sinv g cf /\ chk_run (track_of fl) g s0 evs = Some (abs cf)
  /\ c_stack cf = [] /\ c_roots cf = [].
Proof.
  intros Hfl Hs Hc Hrun.
  pose proof (run_inv fl g flt
    (fun c acc => sinv g c /\ chk_run (track_of fl) g s0 acc = Some (abs c))) as Hinv.
  destruct (Hinv ltac:(
    intros c1 acc1 c2 e [Hs1 Hc1] Hst; split;
      [apply (sinv_step _ _ _ _ _ Hs1 Hst)
      |rewrite chk_run_app, Hc1; apply (sim_step fl g flt c1 c2 e); assumption])
    fuel c acc evs cf (conj Hs Hc) Hrun) as [[Hsf Hcf] [He Hr]].
  split; [exact Hsf|]. split; [exact Hcf|]. split; assumption.
Qed.

(** * Soundness of the replay automaton *)
Record kinv (g : graph) (s : chk) : Prop := mkKinv {
  ki_sub : forall v, In v (k_stack s) -> In v (k_seen s);
  ki_nodup : NoDup (k_stack s);
  ki_chain : chain g (k_stack s);
  ki_root : match k_phase s with
            | Inside r0 => last (k_stack s) r0 = r0
            | _ => k_stack s = []
            end }.

Lemma last_default (A : Type) (a : A) l d d' : last (a :: l) d = last (a :: l) d'.
Proof.
  revert a. induction l as [|b l IH]; intros a; [reflexivity|].
  change (last (a :: b :: l) d) with (last (b :: l) d).
  change (last (a :: b :: l) d') with (last (b :: l) d'). apply IH.
Qed.

Ltac decomp_bools :=
  repeat match goal with
  | H : _ && _ = true |- _ => apply andb_prop in H; destruct H
  | H : (_ =? _) = true |- _ => apply N.eqb_eq in H
  | H : (_ <? _) = true |- _ => apply N.ltb_lt in H
  | H : negb _ = true |- _ => apply negb_true_iff in H
  | H : memb _ _ = false |- _ => apply memb_false in H
  | H : memb _ _ = true |- _ => apply memb_In in H
  | H : hasarc _ _ _ = true |- _ => unfold hasarc in H
  | H : Bool.eqb _ _ = true |- _ => apply eqb_prop in H
  end.

Lemma chk_step_spec track g s e s' :
  kinv g s -> chk_step track g s e = Some s' ->
  kinv g s'
  /\ k_stack s' = path_upd (k_stack s) e
  /\ k_seen s' = rev (pre_nodes [e]) ++ k_seen s
  /\ Permutation (k_stack s ++ pre_nodes [e]) (post_nodes [e] ++ k_stack s')
  /\ ev_spec track g (k_stack s) e.
Proof.
  destruct s as [ph st seen]. intros [Hsub Hnd Hch Hroot].
  unfold chk_step. cbn [k_phase k_stack k_seen] in *.
  destruct e as [r|v p r d|v p r d os|v p r d|r]; destruct ph as [|r0|r0]; destruct st as [|u st];
    try discriminate;
    match goal with |- context [if ?b then _ else _] => destruct b eqn:Hb end; try discriminate;
    intros H; inversion H; subst; clear H; decomp_bools; subst;
    cbn [k_stack k_seen k_phase path_upd pre_nodes post_nodes flat_map app rev tl ev_spec].
  - (* Init *)
    split; [constructor; cbn [k_stack k_seen k_phase]; try assumption; reflexivity|].
    repeat split; try reflexivity; try apply Permutation_refl.
  - (* Pre, root *)
    split.
    { constructor; cbn [k_stack k_seen k_phase].
      - intros x [Hx|[]]. left. exact Hx.
      - constructor; [intros []|constructor].
      - exact I.
      - reflexivity. }
    repeat split; try reflexivity; try assumption; try apply Permutation_refl.
    intros [].
  - (* Pre, inside *)
    assert (Hnv : ~ In v (u :: st)).
    { intro Hin. apply Hsub in Hin. contradiction. }
    split.
    { constructor; cbn [k_stack k_seen k_phase].
      - intros x [Hx|Hx]; [left; exact Hx|right; apply Hsub; exact Hx].
      - constructor; assumption.
      - cbn [chain]. split; [assumption|exact Hch].
      - change (last (v :: u :: st) r0) with (last (u :: st) r0). exact Hroot. }
    repeat split; try reflexivity; try assumption.
    + apply Permutation_sym. apply Permutation_cons_append.
    + rewrite (last_default _ u st u r0). symmetry. exact Hroot.
  - (* Rev *)
    split; [constructor; assumption|].
    split; [reflexivity|]. split; [reflexivity|].
    split; [rewrite app_nil_r; apply Permutation_refl|].
    split; [reflexivity|]. split.
    + rewrite andb_true_iff, memb_In. tauto.
    + split; [reflexivity|]. split; [assumption|].
      rewrite (last_default _ u st u r0). symmetry. exact Hroot.
  - (* Post *)
    inversion Hnd as [|a l Hna Hnl]; subst.
    split.
    { constructor; cbn [k_stack k_seen k_phase].
      - intros x Hx. apply Hsub. right. exact Hx.
      - assumption.
      - apply chain_tl in Hch. exact Hch.
      - destruct st as [|w st']; [reflexivity|].
        change (last (u :: w :: st') r0) with (last (w :: st') r0) in Hroot. exact Hroot. }
    split; [reflexivity|]. split; [reflexivity|].
    split; [rewrite app_nil_r; apply Permutation_refl|].
    split; [reflexivity|]. split; [reflexivity|]. split; [destruct st; reflexivity|].
    rewrite (last_default _ u st u r0). symmetry. exact Hroot.
  - (* Done *)
    split; [constructor; cbn [k_stack k_seen k_phase]; try assumption; reflexivity|].
    repeat split; try reflexivity; try apply Permutation_refl.
Qed.

Lemma chk_step_fresh track g s e s' :
  chk_step track g s e = Some s' -> forall v, In v (pre_nodes [e]) -> ~ In v (k_seen s).
Proof.
  destruct s as [ph st seen]. unfold chk_step. cbn [k_phase k_stack k_seen].
  destruct e as [r|v p r d|v p r d os|v p r d|r]; destruct ph as [|r0|r0]; destruct st as [|u st];
    try discriminate;
    match goal with |- context [if ?b then _ else _] => destruct b eqn:Hb end; try discriminate;
    intros H w Hw; cbn [pre_nodes flat_map app In] in Hw; try (destruct Hw; fail);
    destruct Hw as [Hw|[]]; subst w; decomp_bools; assumption.
Qed.

Lemma pre_nodes_app a b : pre_nodes (a ++ b) = pre_nodes a ++ pre_nodes b.
Proof. apply flat_map_app. Qed.
Lemma post_nodes_app a b : post_nodes (a ++ b) = post_nodes a ++ post_nodes b.
Proof. apply flat_map_app. Qed.

Lemma chk_run_spec track g evs : forall s s',
  kinv g s -> chk_run track g s evs = Some s' ->
  kinv g s'
  /\ k_stack s' = fold_left path_upd evs (k_stack s)
  /\ k_seen s' = rev (pre_nodes evs) ++ k_seen s
  /\ (NoDup (k_seen s) -> NoDup (k_seen s'))
  /\ Permutation (k_stack s ++ pre_nodes evs) (post_nodes evs ++ k_stack s')
  /\ (forall pre e post, evs = pre ++ e :: post ->
      let st := fold_left path_upd pre (k_stack s) in
      chain g st /\ NoDup st /\ ev_spec track g st e).
Proof.
  induction evs as [|e evs IH]; intros s s' Hk Hrun.
  - cbn [chk_run] in Hrun. inversion Hrun; subst.
    split; [exact Hk|]. split; [reflexivity|]. split; [reflexivity|]. split; [tauto|].
    split; [cbn [pre_nodes post_nodes flat_map app]; rewrite app_nil_r; apply Permutation_refl|].
    intros pre e post H. destruct pre; discriminate.
  - cbn [chk_run] in Hrun. destruct (chk_step track g s e) as [s1|] eqn:Hs; [|discriminate].
    destruct (chk_step_spec _ _ _ _ _ Hk Hs) as [Hk1 [Hst1 [Hseen1 [Hperm1 Hev]]]].
    pose proof (chk_step_fresh _ _ _ _ _ Hs) as Hfresh.
    destruct (IH s1 s' Hk1 Hrun) as [Hk' [Hst' [Hseen' [Hnd' [Hperm' Hall]]]]].
    split; [exact Hk'|].
    split; [cbn [fold_left]; rewrite <- Hst1; exact Hst'|].
    split.
    { rewrite Hseen', Hseen1. change (e :: evs) with ([e] ++ evs).
      rewrite pre_nodes_app, rev_app_distr, app_assoc. reflexivity. }
    split.
    { intros Hnd. apply Hnd'. rewrite Hseen1.
      destruct (pre_nodes [e]) as [|a [|b l]] eqn:Hp.
      - exact Hnd.
      - cbn [rev app]. constructor; [apply Hfresh; left; reflexivity|exact Hnd].
      - exfalso. destruct e; cbn [pre_nodes flat_map app] in Hp; discriminate. }
    split.
    { change (e :: evs) with ([e] ++ evs). rewrite pre_nodes_app, post_nodes_app.
      rewrite app_assoc. rewrite <- app_assoc with (l := post_nodes [e]).
      apply perm_trans with ((post_nodes [e] ++ k_stack s1) ++ pre_nodes evs).
      - apply Permutation_app_tail. exact Hperm1.
      - rewrite <- app_assoc. apply Permutation_app_head. exact Hperm'. }
    intros pre e0 post H. destruct pre as [|e1 pre].
    + cbn [app] in H. inversion H; subst. cbn [fold_left].
      split; [apply (ki_chain g s Hk)|]. split; [apply (ki_nodup g s Hk)|exact Hev].
    + cbn [app] in H. inversion H; subst. cbn [fold_left]. rewrite <- Hst1.
      apply (Hall pre e0 post eq_refl).
Qed.

Lemma kinv_init g seen : kinv g (mkChk Idle [] seen).
Proof.
  constructor; cbn [k_stack k_seen k_phase].
  - intros v [].
  - constructor.
  - exact I.
  - reflexivity.
Qed.

Lemma NoDup_app_disj (A : Type) (a b : list A) x : NoDup (a ++ b) -> In x a -> ~ In x b.
Proof.
  induction a as [|y a IH]; intros Hnd Hin; [destruct Hin|].
  cbn [app] in Hnd. inversion Hnd as [|z l Hz Hl]; subst. destruct Hin as [He|Hin].
  - subst y. intro Hb. apply Hz. apply in_or_app. right. exact Hb.
  - apply IH; assumption.
Qed.

Lemma NoDup_app_l (A : Type) (a b : list A) : NoDup (a ++ b) -> NoDup a.
Proof.
  induction a as [|y a IH]; intros Hnd; [constructor|].
  cbn [app] in Hnd. inversion Hnd as [|z l Hz Hl]; subst. constructor.
  - intro Hin. apply Hz. apply in_or_app. left. exact Hin.
  - apply IH. exact Hl.
Qed.

Lemma in_pre_nodes_split v evs :
  In v (pre_nodes evs) -> exists pre p r d post, evs = pre ++ EPre v p r d :: post.
Proof.
  induction evs as [|e evs IH]; intros H; [destruct H|].
  change (e :: evs) with ([e] ++ evs) in H. rewrite pre_nodes_app in H.
  apply in_app_or in H. destruct H as [H|H].
  - destruct e; cbn [pre_nodes flat_map app In] in H; try (destruct H; fail).
    destruct H as [H|[]]. subst. exists [], parent, root, depth, evs. reflexivity.
  - destruct (IH H) as [pre [p [r [d [post He]]]]]. subst evs.
    exists (e :: pre), p, r, d, post. reflexivity.
Qed.

Theorem wf_events_sound : S_wf_events_sound.
Proof.
  intros track g seen evs Hnd Hwf. unfold wf_events in Hwf.
  destruct (chk_run track g (mkChk Idle [] seen) evs) as [[ph st sn]|] eqn:Hrun; [|discriminate].
  destruct ph; try discriminate. destruct st; try discriminate.
  destruct (chk_run_spec track g evs _ _ (kinv_init g seen) Hrun)
    as [Hk [Hst [Hseen [Hndf [Hperm Hall]]]]].
  cbn [k_stack k_seen] in *. specialize (Hndf Hnd). rewrite Hseen in Hndf.
  split.
  { apply NoDup_app_l in Hndf. apply NoDup_rev in Hndf. rewrite rev_involutive in Hndf. exact Hndf. }
  split.
  { intros v Hv. split.
    - apply (NoDup_app_disj _ _ _ v Hndf). apply in_rev in Hv. exact Hv.
    - destruct (in_pre_nodes_split v evs Hv) as [pre [p [r [d [post He]]]]].
      destruct (Hall pre _ post He) as [_ [_ Hspec]]. cbn [ev_spec] in Hspec. tauto. }
  split.
  { rewrite app_nil_r in Hperm. apply Permutation_sym. exact Hperm. }
  split; [symmetry; exact Hst|].
  exact Hall.
Qed.

Lemma chk_run_seen track g evs : forall s s',
  chk_run track g s evs = Some s' -> k_seen s' = rev (pre_nodes evs) ++ k_seen s.
Proof.
  induction evs as [|e evs IH]; intros s s' Hrun.
  - cbn [chk_run] in Hrun. inversion Hrun; reflexivity.
  - cbn [chk_run] in Hrun. destruct (chk_step track g s e) as [s1|] eqn:Hs; [|discriminate].
    rewrite (IH _ _ Hrun). change (e :: evs) with ([e] ++ evs).
    rewrite pre_nodes_app, rev_app_distr, <- app_assoc. f_equal.
    clear IH Hrun. destruct s as [ph st seen]. unfold chk_step in Hs. cbn [k_phase k_stack k_seen] in *.
    destruct e as [r|v p r d|v p r d os|v p r d|r]; destruct ph as [|r0|r0]; destruct st as [|u st];
      try discriminate;
      match type of Hs with context [if ?b then _ else _] => destruct b end; try discriminate;
      inversion Hs; subst; reflexivity.
Qed.

Theorem events_nested : S_events_nested.
Proof.
  intros fl g flt roots known evs cf Hfl Hrun. unfold dfs in Hrun.
  destruct (run_sim fl g flt _ _ [] evs cf (mkChk Idle [] known) Hfl (sinv_init g roots known)
                    eq_refl Hrun) as [Hs [Hc [He Hr]]].
  assert (Habs : abs cf = mkChk Idle [] (c_known cf)).
  { unfold abs, stack_nodes. rewrite He. reflexivity. }
  rewrite Habs in Hc.
  split; [unfold wf_events; rewrite Hc; reflexivity|].
  split.
  - apply chk_run_seen in Hc. exact Hc.
  - pose proof (si_onst g cf Hs) as Ho. unfold stack_nodes in Ho. rewrite He in Ho.
    destruct (c_onst cf) as [|x l]; [reflexivity|]. exfalso. apply (Ho x). left. reflexivity.
Qed.

Lemma path_after_app a b : path_after (a ++ b) = fold_left path_upd b (path_after a).
Proof. unfold path_after. apply fold_left_app. Qed.

Theorem on_stack_iff_ancestor : S_on_stack_iff_ancestor.
Proof.
  intros g flt roots known evs cf pre v p r d os post Hrun He.
  destruct (events_nested Path g flt roots known evs cf ltac:(discriminate) Hrun) as [Hwf _].
  unfold wf_events in Hwf. cbn [track_of] in Hwf.
  destruct (chk_run true g (mkChk Idle [] known) evs) as [sf|] eqn:Hc; [|discriminate].
  destruct (chk_run_spec true g evs _ _ (kinv_init g known) Hc) as [_ [_ [_ [_ [_ Hall]]]]].
  destruct (Hall pre _ post He) as [Hch [_ Hspec]]. cbn [k_stack] in *.
  fold (path_after pre) in *. cbn [ev_spec] in Hspec.
  destruct Hspec as [_ [Hos Hst]].
  split; [exact Hch|].
  destruct (path_after pre) as [|u st]; [destruct Hst|].
  destruct Hst as [Hp _]. subst p. split; [reflexivity|].
  rewrite Hos. tauto.
Qed.
