(** Proofs of the pinned statements of C13. *)
From WG Require Import Base.Prelude Visits.Bfs Visits.BfsStatements.
Require Import ZifyBool ZifyN ZifyNat.
Local Open Scope N_scope.

(** * Membership *)
Lemma memb_In : forall x V, memb x V = true <-> In x V.
Proof.
  intros x V. unfold memb. rewrite existsb_exists. split.
  - intros [y [Hy He]]. apply N.eqb_eq in He. subst. exact Hy.
  - intros H. exists x. split; [exact H | apply N.eqb_refl].
Qed.

Lemma memb_false : forall x V, memb x V = false <-> ~ In x V.
Proof.
  intros x V. rewrite <- memb_In. destruct (memb x V); split; intros H; try discriminate; auto.
  exfalso. apply H. reflexivity.
Qed.

(** * The discovery rule *)
Lemma scan_V : forall f d cand V, fst (scan f d cand V) = rev (snd (scan f d cand V)) ++ V.
Proof.
  intros f d cand. induction cand as [|s c IH]; intros V; cbn [scan].
  - reflexivity.
  - destruct (memb s V) eqn:Hm; [apply IH|].
    destruct (f s d) eqn:Hf; [|apply IH].
    specialize (IH (s :: V)). destruct (scan f d c (s :: V)) as [V' nw]. cbn [fst snd] in *.
    rewrite IH. cbn [rev]. rewrite <- app_assoc. reflexivity.
Qed.

Lemma scan_In : forall f d cand V x,
  In x (snd (scan f d cand V)) <-> In x cand /\ ~ In x V /\ f x d = true.
Proof.
  intros f d cand. induction cand as [|s c IH]; intros V x; cbn [scan].
  - cbn. tauto.
  - destruct (memb s V) eqn:Hm.
    + rewrite IH. apply memb_In in Hm. cbn [In]. split; [tauto|].
      intros [[He|Hc] [Hn Hf]]; [subst; contradiction | tauto].
    + apply memb_false in Hm. destruct (f s d) eqn:Hf.
      * specialize (IH (s :: V) x). destruct (scan f d c (s :: V)) as [V' nw]. cbn [snd] in *.
        cbn [In]. rewrite IH. cbn [In]. split.
        -- intros [He|[Hc [Hn Hf']]]; [subst; tauto | tauto].
        -- intros [[He|Hc] [Hn Hf']]; [left; exact He|].
           destruct (N.eq_dec s x) as [E|E]; [left; exact E | right; tauto].
      * rewrite IH. cbn [In]. split; [tauto|].
        intros [[He|Hc] [Hn Hf']]; [subst; congruence | tauto].
Qed.

Lemma scan_NoDup : forall f d cand V, NoDup (snd (scan f d cand V)).
Proof.
  intros f d cand. induction cand as [|s c IH]; intros V; cbn [scan].
  - constructor.
  - destruct (memb s V) eqn:Hm; [apply IH|].
    destruct (f s d) eqn:Hf; [|apply IH].
    pose proof (IH (s :: V)) as Hnd. pose proof (scan_In f d c (s :: V) s) as Hin.
    destruct (scan f d c (s :: V)) as [V' nw]. cbn [snd] in *.
    constructor; [|exact Hnd]. rewrite Hin. cbn [In]. tauto.
Qed.

Lemma scan_app : forall f d a b V,
  scan f d (a ++ b) V =
  (fst (scan f d b (fst (scan f d a V))),
   snd (scan f d a V) ++ snd (scan f d b (fst (scan f d a V)))).
Proof.
  intros f d a. induction a as [|s c IH]; intros b V; cbn [scan app].
  - cbn [fst snd app]. destruct (scan f d b V); reflexivity.
  - destruct (memb s V) eqn:Hm; [apply IH|].
    destruct (f s d) eqn:Hf; [|apply IH].
    rewrite IH. destruct (scan f d c (s :: V)) as [V' nw]. cbn [fst snd].
    reflexivity.
Qed.

Lemma scan_V_In : forall f d cand V x,
  In x (fst (scan f d cand V)) <-> In x (snd (scan f d cand V)) \/ In x V.
Proof.
  intros. rewrite scan_V, in_app_iff, <- in_rev. tauto.
Qed.

(** * Projections of event sequences *)
Lemma visits_app : forall a b, visits (a ++ b) = visits a ++ visits b.
Proof. intros. unfold visits. apply flat_map_app. Qed.
Lemma fronts_app : forall a b, fronts (a ++ b) = fronts a ++ fronts b.
Proof. intros. unfold fronts. apply flat_map_app. Qed.

(** * The sequential inner loop *)
Lemma scan_ev_spec : forall f d p ss V,
  let r := scan_ev f d p ss V in
  (fst (fst r), snd (fst r)) = scan f d ss V
  /\ visits (snd r) = map (fun s => (s, p, d)) (snd (fst r))
  /\ fronts (snd r) = [].
Proof.
  intros f d p ss. induction ss as [|s c IH]; intros V; cbn [scan_ev scan].
  - cbn. auto.
  - destruct (memb s V) eqn:Hm.
    + specialize (IH V). destruct (scan_ev f d p c V) as [[V' nw] ev]. cbn [fst snd] in *.
      destruct IH as (H1 & H2 & H3). repeat split; auto.
    + destruct (f s d) eqn:Hf; [|apply IH].
      specialize (IH (s :: V)). destruct (scan_ev f d p c (s :: V)) as [[V' nw] ev].
      cbn [fst snd] in *. destruct IH as (H1 & H2 & H3). rewrite <- H1. repeat split.
      * cbn [visits flat_map app map]. f_equal. exact H2.
      * exact H3.
Qed.

(** all the nodes of a frontier, in order *)
Fixpoint expand (g : graph) (f : filt) (d : N) (fr : list N) (V : list N)
  : list N * list N * list event :=
  match fr with
  | [] => (V, [], [])
  | v :: fr' =>
    let '(V1, n1, e1) := scan_ev f d v (succs g v) V in
    let '(V2, n2, e2) := expand g f d fr' V1 in
    (V2, n1 ++ n2, e1 ++ e2)
  end.

Lemma expand_spec : forall g f d fr V,
  let r := expand g f d fr V in
  (fst (fst r), snd (fst r)) = scan f d (flat_map (succs g) fr) V
  /\ map node_dist (visits (snd r)) = map (fun s => (s, d)) (snd (fst r))
  /\ fronts (snd r) = []
  /\ (forall v p dd, In (v, p, dd) (visits (snd r)) -> dd = d /\ In p fr /\ In v (succs g p)).
Proof.
  intros g f d fr. induction fr as [|v fr' IH]; intros V; cbn [expand flat_map].
  - cbn. repeat split; auto; contradiction.
  - pose proof (scan_ev_spec f d v (succs g v) V) as Hs. cbv zeta in Hs.
    pose proof (scan_In f d (succs g v) V) as Hin.
    destruct (scan_ev f d v (succs g v) V) as [[V1 n1] e1]. cbn [fst snd] in Hs.
    destruct Hs as (Hs1 & Hs2 & Hs3).
    specialize (IH V1). cbv zeta in IH. destruct (expand g f d fr' V1) as [[V2 n2] e2].
    cbn [fst snd] in *. destruct IH as (I1 & I2 & I3 & I4).
    rewrite scan_app. rewrite <- Hs1. cbn [fst snd]. rewrite <- I1. cbn [fst snd].
    repeat split.
    + rewrite visits_app, !map_app, I2, Hs2, map_map. reflexivity.
    + rewrite fronts_app, Hs3, I3. reflexivity.
    + rewrite visits_app, in_app_iff in H. destruct H as [H|H].
      * rewrite Hs2 in H. apply in_map_iff in H. destruct H as (s & He & _). congruence.
      * apply I4 in H. tauto.
    + rewrite visits_app, in_app_iff in H. destruct H as [H|H].
      * rewrite Hs2 in H. apply in_map_iff in H. destruct H as (s & He & _).
        left. congruence.
      * apply I4 in H. right. tauto.
    + rewrite visits_app, in_app_iff in H. destruct H as [H|H].
      * rewrite Hs2 in H. apply in_map_iff in H. destruct H as (s & He & Hs).
        rewrite <- Hs1 in Hin. cbn [snd] in Hin. apply Hin in Hs.
        inversion He; subst. tauto.
      * apply I4 in H. tauto.
Qed.

(** the queue loop consumes the rest [cur] of the current level *)
Lemma seq_loop_cur : forall g f d cur fuel nxt V,
  (length cur < fuel)%nat ->
  seq_loop fuel g f d (map Some cur ++ None :: map Some nxt) V =
  let '(V', nw, ev) := expand g f d cur V in
  match nxt ++ nw with
  | [] => (V', ev ++ [EDone])
  | _ => let '(V'', ev') := seq_loop (fuel - length cur - 1) g f (d + 1)
                                   (map Some (nxt ++ nw) ++ [None]) V' in
         (V'', ev ++ EFrontier d (nlen (nxt ++ nw)) :: ev')
  end.
Proof.
  intros g f d cur. induction cur as [|v c IH]; intros fuel nxt V Hf.
  - destruct fuel as [|fu]; [cbn in Hf; lia|].
    cbn [map app expand seq_loop length]. rewrite app_nil_r.
    replace (S fu - 0 - 1)%nat with fu by lia.
    destruct nxt as [|a nxt']; [reflexivity|].
    cbn [map app]. unfold nlen. cbn [length]. rewrite map_length. reflexivity.
  - destruct fuel as [|fu]; [cbn in Hf; lia|].
    cbn [map app expand seq_loop length].
    destruct (scan_ev f d v (succs g v) V) as [[V1 n1] e1].
    rewrite <- app_assoc. cbn [app]. rewrite <- map_app.
    rewrite IH by (cbn in Hf; lia).
    destruct (expand g f d c V1) as [[V2 n2] e2].
    rewrite <- app_assoc.
    replace (S fu - S (length c) - 1)%nat with (fu - length c - 1)%nat by lia.
    destruct ((nxt ++ n1) ++ n2) as [|a l] eqn:He.
    + rewrite <- app_assoc in He. rewrite He. rewrite <- app_assoc. reflexivity.
    + rewrite <- app_assoc in He. rewrite He.
      destruct (seq_loop (fu - length c - 1) g f (d + 1) (map Some (a :: l) ++ [None]) V2)
        as [V3 e3].
      rewrite <- app_assoc. reflexivity.
Qed.

(** * A potential: candidates that are not yet visited *)
Definition unv (U V : list N) : nat := length (filter (fun x => negb (memb x V)) U).

Lemma memb_cons : forall x s V, memb x (s :: V) = N.eqb x s || memb x V.
Proof. reflexivity. Qed.

Lemma unv_le_length : forall U V, (unv U V <= length U)%nat.
Proof.
  intros U V. unfold unv. induction U as [|a U IH]; cbn [filter length]; [lia|].
  destruct (negb (memb a V)); cbn [length]; lia.
Qed.

Lemma unv_cons_le : forall U s V, (unv U (s :: V) <= unv U V)%nat.
Proof.
  intros U s V. unfold unv. induction U as [|a U IH]; cbn [filter length]; [lia|].
  rewrite memb_cons. destruct (N.eqb a s); destruct (memb a V); cbn [orb negb length]; lia.
Qed.

Lemma unv_cons_lt : forall U s V, In s U -> ~ In s V -> (unv U (s :: V) < unv U V)%nat.
Proof.
  intros U s V. unfold unv. induction U as [|a U IH]; intros Hin Hn; [contradiction|].
  cbn [filter]. rewrite memb_cons. destruct Hin as [He|Hin].
  - subst a. rewrite N.eqb_refl. apply memb_false in Hn. rewrite Hn. cbn [orb negb length].
    pose proof (unv_cons_le U s V) as Hle. unfold unv in Hle. lia.
  - specialize (IH Hin Hn).
    destruct (N.eqb a s); destruct (memb a V); cbn [orb negb length]; try lia.
    all: pose proof (unv_cons_le U s V) as Hle; unfold unv in Hle; lia.
Qed.

Lemma unv_scan : forall U f d cand V, incl cand U ->
  (unv U (fst (scan f d cand V)) + length (snd (scan f d cand V)) <= unv U V)%nat.
Proof.
  intros U f d cand. induction cand as [|s c IH]; intros V Hi; cbn [scan].
  - cbn. lia.
  - assert (Hc : incl c U) by (intros x Hx; apply Hi; right; exact Hx).
    destruct (memb s V) eqn:Hm; [apply IH; exact Hc|].
    destruct (f s d) eqn:Hf; [|apply IH; exact Hc].
    specialize (IH (s :: V) Hc). destruct (scan f d c (s :: V)) as [V' nw].
    cbn [fst snd length] in *.
    apply memb_false in Hm.
    pose proof (unv_cons_lt U s V (Hi s (or_introl eq_refl)) Hm). lia.
Qed.

Lemma succs_incl : forall g L, incl (flat_map (succs g) L) (concat g).
Proof.
  intros g L x Hx. apply in_flat_map in Hx. destruct Hx as (v & _ & Hx).
  unfold succs in Hx. destruct (nth_in_or_default (N.to_nat v) g []) as [Hin|He].
  - apply in_concat. eauto.
  - rewrite He in Hx. contradiction.
Qed.

(** * Levels *)
Lemma levels_from_nil : forall fu g f d V, levels_from fu g f d [] V = [].
Proof. intros [|fu]; reflexivity. Qed.

Lemma levels_from_S : forall fu g f d L V, L <> [] ->
  levels_from (S fu) g f d L V =
  L :: levels_from fu g f (d + 1) (snd (scan f (d + 1) (flat_map (succs g) L) V))
                                  (fst (scan f (d + 1) (flat_map (succs g) L) V)).
Proof.
  intros fu g f d L V Hn. destruct L as [|a l]; [congruence|].
  cbn [levels_from]. destruct (scan f (d + 1) (flat_map (succs g) (a :: l)) V). reflexivity.
Qed.

(** the queue loop, level after level *)
Lemma seq_loop_levels : forall n g f d L V fuel fu,
  (unv (concat g) V < n)%nat -> L <> [] ->
  (length L + 2 * unv (concat g) V + 2 <= fuel)%nat ->
  (unv (concat g) V + 1 <= fu)%nat ->
  let r := seq_loop fuel g f (d + 1) (map Some L ++ [None]) V in
  let Ls := levels_from fu g f d L V in
  map node_dist (visits (snd r)) = tag_levels (d + 1) (tl Ls)
  /\ fronts (snd r) = level_sizes (d + 1) (tl Ls)
  /\ (forall v p dd, In (v, p, dd) (visits (snd r)) ->
        exists d', dd = d' + 1 /\ In (p, d') (tag_levels d Ls) /\ In v (succs g p))
  /\ (forall x, In x (fst r) <-> In x (concat (tl Ls)) \/ In x V).
Proof.
  induction n as [|n IH]; intros g f d L V fuel fu Hn HL Hfuel Hfu; cbv zeta; [lia|].
  change (map Some L ++ [None]) with (map Some L ++ None :: map Some []).
  rewrite seq_loop_cur by lia.
  pose proof (expand_spec g f (d + 1) L V) as He; cbv zeta in He.
  pose proof (unv_scan (concat g) f (d + 1) (flat_map (succs g) L) V (succs_incl g L)) as Hu.
  pose proof (scan_V_In f (d + 1) (flat_map (succs g) L) V) as HV.
  destruct fu as [|fu]; [lia|].
  rewrite levels_from_S by exact HL.
  destruct (expand g f (d + 1) L V) as [[V' nw] ev]; cbn [fst snd] in He.
  destruct He as (E1 & E2 & E3 & E4).
  rewrite <- E1 in *; cbn [fst snd] in *.
  cbn [app tl].
  destruct nw as [|a nw'] eqn:Hnw.
  - rewrite levels_from_nil. cbn [fst snd tag_levels level_sizes concat].
    rewrite visits_app, fronts_app, map_app, E2, E3. cbn [map app visits fronts flat_map].
    split; [reflexivity|]. split; [reflexivity|]. split.
    + intros v p dd H. rewrite app_nil_r in H. apply E4 in H. destruct H as (-> & Hp & Hs).
      exists d. split; [reflexivity|]. split; [|exact Hs].
      rewrite app_nil_r. apply in_map_iff. exists p. auto.
    + intros x. rewrite HV. cbn [In]. tauto.
  - rewrite <- Hnw in *. assert (Hne : nw <> []) by (rewrite Hnw; discriminate).
    assert (Hlen : (1 <= length nw)%nat) by (rewrite Hnw; cbn; lia).
    specialize (IH g f (d + 1) nw V' (fuel - length L - 1)%nat fu).
    cbv zeta in IH.
    destruct IH as (I1 & I2 & I3 & I4); try lia; try exact Hne.
    destruct fu as [|fu']; [lia|].
    rewrite levels_from_S in * by exact Hne.
    set (Ls' := levels_from fu' g f (d + 1 + 1)
                  (snd (scan f (d + 1 + 1) (flat_map (succs g) nw) V'))
                  (fst (scan f (d + 1 + 1) (flat_map (succs g) nw) V'))) in *.
    cbn [tl] in *.
    destruct (seq_loop (fuel - length L - 1) g f (d + 1 + 1) (map Some nw ++ [None]) V')
      as [V'' ev'].
    cbn [fst snd] in *.
    rewrite visits_app, fronts_app, map_app, E2, E3.
    cbn [visits fronts flat_map app tag_levels level_sizes concat map].
    fold (visits ev') (fronts ev').
    split; [rewrite I1; reflexivity|]. split; [rewrite I2; reflexivity|]. split.
    + intros v p dd H. apply in_app_iff in H. destruct H as [H|H].
      * apply E4 in H. destruct H as (-> & Hp & Hs). exists d. repeat split; auto.
        apply in_app_iff. left. apply in_map_iff. exists p. auto.
      * apply I3 in H. destruct H as (d' & Hd & Hin & Hs). exists d'. repeat split; auto.
        apply in_app_iff. right. exact Hin.
    + intros x. rewrite I4, in_app_iff, HV. tauto.
Qed.

Lemma visits_roots : forall L, visits (map (fun r => EVisit r r 0) L) = map (fun r => (r, r, 0)) L.
Proof. induction L as [|a L IH]; [reflexivity|]. cbn [map visits flat_map app] in *. f_equal. exact IH. Qed.
Lemma fronts_roots : forall L, fronts (map (fun r => EVisit r r 0) L) = [].
Proof. induction L as [|a L IH]; [reflexivity|]. cbn [map fronts flat_map app] in *. exact IH. Qed.

Lemma scan_length : forall f d cand V, (length (snd (scan f d cand V)) <= length cand)%nat.
Proof.
  intros. apply NoDup_incl_length; [apply scan_NoDup|].
  intros x Hx. apply scan_In in Hx. tauto.
Qed.

(** * C13_seq_levels *)
Theorem seq_levels : S_seq_levels.
Proof.
  intros g f roots V. cbv zeta. unfold bfs_seq, bfs_levels.
  pose proof (scan_In f 0 roots V) as Hin.
  pose proof (scan_V_In f 0 roots V) as HV.
  pose proof (scan_length f 0 roots V) as Hlen.
  destruct (scan f 0 roots V) as [V1 L0]. cbn [fst snd] in *.
  destruct L0 as [|a l] eqn:HL0.
  - rewrite levels_from_nil. cbn [fst snd visits fronts flat_map map tag_levels level_sizes].
    split; [reflexivity|]. split; [reflexivity|]. split; [intros v p d []|].
    intros v. unfold visited_after. cbn [concat app]. rewrite HV. cbn [In]. tauto.
  - rewrite <- HL0 in *. assert (Hne : L0 <> []) by (rewrite HL0; discriminate).
    pose proof (unv_le_length (concat g) V1) as Hul.
    pose proof (seq_loop_levels (S (unv (concat g) V1)) g f 0 L0 V1 (seq_fuel g roots)
                  (level_fuel g roots)) as HM.
    cbv zeta in HM. change (0 + 1) with 1 in HM.
    unfold seq_fuel, level_fuel in *.
    destruct HM as (M1 & M2 & M3 & M4); try lia; try exact Hne.
    rewrite levels_from_S in * by exact Hne. change (0 + 1) with 1 in *.
    set (Ls' := levels_from (length roots + length (concat g)) g f 1
                  (snd (scan f 1 (flat_map (succs g) L0) V1))
                  (fst (scan f 1 (flat_map (succs g) L0) V1))) in *.
    cbn [tl] in *.
    destruct (seq_loop (2 * (length roots + length (concat g)) + 3) g f 1
                (map Some L0 ++ [None]) V1) as [V2 ev].
    cbn [fst snd] in *.
    change (EInit :: map (fun r => EVisit r r 0) L0 ++ EFrontier 0 (nlen L0) :: ev)
      with ([EInit] ++ map (fun r => EVisit r r 0) L0 ++ [EFrontier 0 (nlen L0)] ++ ev).
    rewrite !visits_app, !fronts_app, visits_roots, fronts_roots.
    cbn [visits fronts flat_map app tag_levels level_sizes]. fold (visits ev) (fronts ev).
    change (0 + 1) with 1.
    split; [rewrite map_app, M1, map_map; reflexivity|].
    split; [rewrite M2; reflexivity|]. split.
    + intros v p d H. apply in_app_iff in H. destruct H as [H|H].
      * left. apply in_map_iff in H. destruct H as (r & He & Hr). inversion He; subst.
        apply Hin in Hr. tauto.
      * right. apply M3 in H. exact H.
    + intros v. unfold visited_after. cbn [concat]. rewrite M4, !in_app_iff, HV. tauto.
Qed.

(** * C13_levels_once *)
Lemma NoDup_app_intro : forall (a b : list N),
  NoDup a -> NoDup b -> (forall x, In x a -> ~ In x b) -> NoDup (a ++ b).
Proof.
  induction a as [|x a IH]; intros b Ha Hb Hd; [exact Hb|].
  inversion Ha as [|? ? Hx Ha']; subst. cbn [app]. constructor.
  - rewrite in_app_iff. intros [H|H]; [contradiction|]. apply (Hd x); [left; reflexivity|exact H].
  - apply IH; auto. intros y Hy. apply Hd. right. exact Hy.
Qed.

Lemma levels_from_once : forall fu g f d L V,
  NoDup L -> incl L V ->
  let Ls := levels_from fu g f d L V in
  NoDup (concat Ls) /\ (forall v, In v (concat Ls) -> In v L \/ ~ In v V) /\ ~ In [] Ls.
Proof.
  induction fu as [|fu IH]; intros g f d L V HL Hi; cbv zeta.
  - cbn. repeat split; auto; constructor.
  - destruct L as [|a l] eqn:HLe.
    + cbn. repeat split; auto; constructor.
    + rewrite <- HLe in *. assert (Hne : L <> []) by (rewrite HLe; discriminate).
      rewrite levels_from_S by exact Hne.
      pose proof (scan_In f (d + 1) (flat_map (succs g) L) V) as Hin.
      pose proof (scan_V_In f (d + 1) (flat_map (succs g) L) V) as HV.
      pose proof (scan_NoDup f (d + 1) (flat_map (succs g) L) V) as Hnd.
      set (L' := snd (scan f (d + 1) (flat_map (succs g) L) V)) in *.
      set (V' := fst (scan f (d + 1) (flat_map (succs g) L) V)) in *.
      specialize (IH g f (d + 1) L' V' Hnd).
      cbv zeta in IH. destruct IH as (I1 & I2 & I3).
      { intros x Hx. apply HV. left. exact Hx. }
      cbn [concat]. split; [|split].
      * apply NoDup_app_intro; auto. intros x Hx Hc. apply I2 in Hc.
        destruct Hc as [Hc|Hc].
        -- apply Hin in Hc. apply Hc. apply Hi. exact Hx.
        -- apply Hc. apply HV. right. apply Hi. exact Hx.
      * intros v Hv. apply in_app_iff in Hv. destruct Hv as [Hv|Hv]; [left; exact Hv|].
        right. apply I2 in Hv. destruct Hv as [Hv|Hv].
        -- apply Hin in Hv. tauto.
        -- intros Hc. apply Hv. apply HV. right. exact Hc.
      * intros [He|Hc]; [congruence | contradiction].
Qed.

Theorem levels_once : S_levels_once.
Proof.
  intros g f roots V. cbv zeta. unfold bfs_levels.
  pose proof (scan_In f 0 roots V) as Hin.
  pose proof (scan_V_In f 0 roots V) as HV.
  pose proof (scan_NoDup f 0 roots V) as Hnd.
  destruct (scan f 0 roots V) as [V1 L0]. cbn [fst snd] in *.
  pose proof (levels_from_once (level_fuel g roots) g f 0 L0 V1 Hnd) as H.
  cbv zeta in H. destruct H as (H1 & H2 & H3).
  { intros x Hx. apply HV. left. exact Hx. }
  split; [exact H1|]. split; [|exact H3].
  intros v Hv. apply H2 in Hv. destruct Hv as [Hv|Hv].
  - apply Hin in Hv. tauto.
  - intros Hc. apply Hv. apply HV. right. exact Hc.
Qed.

Lemma tag_levels_fst : forall Ls d, map fst (tag_levels d Ls) = concat Ls.
Proof.
  induction Ls as [|L r IH]; intros d; [reflexivity|].
  cbn [tag_levels concat]. rewrite map_app, map_map, IH. cbn [fst]. rewrite map_id. reflexivity.
Qed.

(** * C13_no_revisit *)
Theorem no_revisit : S_no_revisit.
Proof.
  intros g f1 f2 r1 r2 V.
  pose proof (seq_levels g f1 r1 V) as H1. cbv zeta in H1.
  destruct (bfs_seq g f1 r1 V) as [V1 ev1]. cbn [fst snd] in H1.
  pose proof (seq_levels g f2 r2 V1) as H2. cbv zeta in H2.
  pose proof (levels_once g f2 r2 V1) as O2. cbv zeta in O2.
  destruct (bfs_seq g f2 r2 V1) as [V2 ev2]. cbn [fst snd] in H2.
  destruct H1 as (A1 & _ & _ & A4). destruct H2 as (B1 & _).
  destruct O2 as (_ & O2 & _).
  intros v Hv. rewrite B1, tag_levels_fst. intros Hc. apply O2 in Hc. apply Hc.
  apply A4. unfold visited_after. rewrite in_app_iff. destruct Hv as [Hv|Hv]; [right; exact Hv|].
  left. rewrite A1, tag_levels_fst in Hv. exact Hv.
Qed.

(** * C13_from_roots_once *)
Lemma from_roots_seq : forall g roots items,
  bfs_from_roots g roots = Some items ->
  items = map (fun '(v, p, d) => (p, v, d)) (visits (snd (bfs_seq g no_filter roots []))).
Proof.
  intros g roots items. unfold bfs_from_roots, bfs_seq.
  destruct roots as [|r0 rs] eqn:Hr; [discriminate|]. rewrite <- Hr. clear Hr.
  destruct (scan no_filter 0 roots []) as [V1 L0].
  destruct L0 as [|a l] eqn:HL0.
  - unfold seq_fuel. replace (2 * (length roots + length (concat g)) + 3)%nat
      with (S (2 * (length roots + length (concat g)) + 2)) by lia.
    cbn [map app seq_loop]. intros H. inversion H. reflexivity.
  - rewrite <- HL0. destruct (seq_loop (seq_fuel g roots) g no_filter 1 (map Some L0 ++ [None]) V1)
      as [V2 ev].
    intros H. inversion H. cbn [snd].
    change (EInit :: map (fun r => EVisit r r 0) L0 ++ EFrontier 0 (nlen L0) :: ev)
      with ([EInit] ++ map (fun r => EVisit r r 0) L0 ++ [EFrontier 0 (nlen L0)] ++ ev).
    rewrite !visits_app, visits_roots. cbn [visits flat_map app]. fold (visits ev).
    rewrite map_app, map_map. reflexivity.
Qed.

Theorem from_roots_once : S_from_roots_once.
Proof.
  intros g roots items H. cbv zeta. apply from_roots_seq in H.
  pose proof (seq_levels g no_filter roots []) as HS. cbv zeta in HS.
  pose proof (levels_once g no_filter roots []) as HO. cbv zeta in HO.
  destruct HS as (S1 & _ & S3 & _). destruct HO as (O1 & _).
  set (vs := visits (snd (bfs_seq g no_filter roots []))) in *.
  assert (E : map (fun '(_, v, d) => (v, d)) items = tag_levels 0 (bfs_levels g no_filter roots [])).
  { rewrite <- S1, H, map_map. apply map_ext. intros [[v p] d]. reflexivity. }
  split; [|split].
  - replace (map (fun '(_, v, _) => v) items) with (map fst (map (fun '(_, v, d) => (v, d)) items)).
    + rewrite E, tag_levels_fst. exact O1.
    + rewrite map_map. apply map_ext. intros [[p v] d]. reflexivity.
  - exact E.
  - intros p v d Hin. apply S3. rewrite H in Hin. apply in_map_iff in Hin.
    destruct Hin as ([[v' p'] d'] & He & Hin). inversion He; subst. exact Hin.
Qed.
