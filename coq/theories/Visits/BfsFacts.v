(** Proofs of the pinned statements of C13. *)
From WG Require Import Base.Prelude Visits.Bfs Visits.BfsStatements.
Require Import ZifyBool ZifyN ZifyNat.
Local Open Scope N_scope.

(** * Membership *)
Lemma memb_In : forall x V, memb x V = true <-> In x V.
Proof.
  intros x V. unfold memb. rewrite existsb_exists. split.
  - intros [y [Hy He]]. apply N.eqb_eq in He. subst. exact Hy.
  - intros H. exists x. split; [exact H | apply N.eqb_refl].
Qed.

Lemma memb_false : forall x V, memb x V = false <-> ~ In x V.
Proof.
  intros x V. rewrite <- memb_In. destruct (memb x V); split; intros H; try discriminate; auto.
  exfalso. apply H. reflexivity.
Qed.

(** * The discovery rule *)
Lemma scan_V : forall f d cand V, fst (scan f d cand V) = rev (snd (scan f d cand V)) ++ V.
Proof.
  intros f d cand. induction cand as [|s c IH]; intros V; cbn [scan].
  - reflexivity.
  - destruct (memb s V) eqn:Hm; [apply IH|].
    destruct (f s d) eqn:Hf; [|apply IH].
    specialize (IH (s :: V)). destruct (scan f d c (s :: V)) as [V' nw]. cbn [fst snd] in *.
    rewrite IH. cbn [rev]. rewrite <- app_assoc. reflexivity.
Qed.

Lemma scan_In : forall f d cand V x,
  In x (snd (scan f d cand V)) <-> In x cand /\ ~ In x V /\ f x d = true.
Proof.
  intros f d cand. induction cand as [|s c IH]; intros V x; cbn [scan].
  - cbn. tauto.
  - destruct (memb s V) eqn:Hm.
    + rewrite IH. apply memb_In in Hm. cbn [In]. split; [tauto|].
      intros [[He|Hc] [Hn Hf]]; [subst; contradiction | tauto].
    + apply memb_false in Hm. destruct (f s d) eqn:Hf.
      * specialize (IH (s :: V) x). destruct (scan f d c (s :: V)) as [V' nw]. cbn [snd] in *.
        cbn [In]. rewrite IH. cbn [In]. split.
        -- intros [He|[Hc [Hn Hf']]]; [subst; tauto | tauto].
        -- intros [[He|Hc] [Hn Hf']]; [left; exact He|].
           destruct (N.eq_dec s x) as [E|E]; [left; exact E | right; tauto].
      * rewrite IH. cbn [In]. split; [tauto|].
        intros [[He|Hc] [Hn Hf']]; [subst; congruence | tauto].
Qed.

Lemma scan_NoDup : forall f d cand V, NoDup (snd (scan f d cand V)).
Proof.
  intros f d cand. induction cand as [|s c IH]; intros V; cbn [scan].
  - constructor.
  - destruct (memb s V) eqn:Hm; [apply IH|].
    destruct (f s d) eqn:Hf; [|apply IH].
    pose proof (IH (s :: V)) as Hnd. pose proof (scan_In f d c (s :: V) s) as Hin.
    destruct (scan f d c (s :: V)) as [V' nw]. cbn [snd] in *.
    constructor; [|exact Hnd]. rewrite Hin. cbn [In]. tauto.
Qed.

Lemma scan_app : forall f d a b V,
  scan f d (a ++ b) V =
  (fst (scan f d b (fst (scan f d a V))),
   snd (scan f d a V) ++ snd (scan f d b (fst (scan f d a V)))).
Proof.
  intros f d a. induction a as [|s c IH]; intros b V; cbn [scan app].
  - cbn [fst snd app]. destruct (scan f d b V); reflexivity.
  - destruct (memb s V) eqn:Hm; [apply IH|].
    destruct (f s d) eqn:Hf; [|apply IH].
    rewrite IH. destruct (scan f d c (s :: V)) as [V' nw]. cbn [fst snd].
    reflexivity.
Qed.

Lemma scan_V_In : forall f d cand V x,
  In x (fst (scan f d cand V)) <-> In x (snd (scan f d cand V)) \/ In x V.
Proof.
  intros. rewrite scan_V, in_app_iff, <- in_rev. tauto.
Qed.

(** * Projections of event sequences *)
Lemma visits_app : forall a b, visits (a ++ b) = visits a ++ visits b.
Proof. intros. unfold visits. apply flat_map_app. Qed.
Lemma fronts_app : forall a b, fronts (a ++ b) = fronts a ++ fronts b.
Proof. intros. unfold fronts. apply flat_map_app. Qed.

(** * The sequential inner loop *)
Lemma scan_ev_spec : forall f d p ss V,
  let r := scan_ev f d p ss V in
  (fst (fst r), snd (fst r)) = scan f d ss V
  /\ visits (snd r) = map (fun s => (s, p, d)) (snd (fst r))
  /\ fronts (snd r) = [].
Proof.
  intros f d p ss. induction ss as [|s c IH]; intros V; cbn [scan_ev scan].
  - cbn. auto.
  - destruct (memb s V) eqn:Hm.
    + specialize (IH V). destruct (scan_ev f d p c V) as [[V' nw] ev]. cbn [fst snd] in *.
      destruct IH as (H1 & H2 & H3). repeat split; auto.
    + destruct (f s d) eqn:Hf; [|apply IH].
      specialize (IH (s :: V)). destruct (scan_ev f d p c (s :: V)) as [[V' nw] ev].
      cbn [fst snd] in *. destruct IH as (H1 & H2 & H3). rewrite <- H1. repeat split.
      * cbn [visits flat_map app map]. f_equal. exact H2.
      * exact H3.
Qed.

(** all the nodes of a frontier, in order *)
Fixpoint expand (g : graph) (f : filt) (d : N) (fr : list N) (V : list N)
  : list N * list N * list event :=
  match fr with
  | [] => (V, [], [])
  | v :: fr' =>
    let '(V1, n1, e1) := scan_ev f d v (succs g v) V in
    let '(V2, n2, e2) := expand g f d fr' V1 in
    (V2, n1 ++ n2, e1 ++ e2)
  end.

Lemma expand_spec : forall g f d fr V,
  let r := expand g f d fr V in
  (fst (fst r), snd (fst r)) = scan f d (flat_map (succs g) fr) V
  /\ map node_dist (visits (snd r)) = map (fun s => (s, d)) (snd (fst r))
  /\ fronts (snd r) = []
  /\ (forall v p dd, In (v, p, dd) (visits (snd r)) -> dd = d /\ In p fr /\ In v (succs g p)).
Proof.
  intros g f d fr. induction fr as [|v fr' IH]; intros V; cbn [expand flat_map].
  - cbn. repeat split; auto; contradiction.
  - pose proof (scan_ev_spec f d v (succs g v) V) as Hs. cbv zeta in Hs.
    pose proof (scan_In f d (succs g v) V) as Hin.
    destruct (scan_ev f d v (succs g v) V) as [[V1 n1] e1]. cbn [fst snd] in Hs.
    destruct Hs as (Hs1 & Hs2 & Hs3).
    specialize (IH V1). cbv zeta in IH. destruct (expand g f d fr' V1) as [[V2 n2] e2].
    cbn [fst snd] in *. destruct IH as (I1 & I2 & I3 & I4).
    rewrite scan_app. rewrite <- Hs1. cbn [fst snd]. rewrite <- I1. cbn [fst snd].
    repeat split.
    + rewrite visits_app, !map_app, I2, Hs2, map_map. reflexivity.
    + rewrite fronts_app, Hs3, I3. reflexivity.
    + rewrite visits_app, in_app_iff in H. destruct H as [H|H].
      * rewrite Hs2 in H. apply in_map_iff in H. destruct H as (s & He & _). congruence.
      * apply I4 in H. tauto.
    + rewrite visits_app, in_app_iff in H. destruct H as [H|H].
      * rewrite Hs2 in H. apply in_map_iff in H. destruct H as (s & He & _).
        left. congruence.
      * apply I4 in H. right. tauto.
    + rewrite visits_app, in_app_iff in H. destruct H as [H|H].
      * rewrite Hs2 in H. apply in_map_iff in H. destruct H as (s & He & Hs).
        rewrite <- Hs1 in Hin. cbn [snd] in Hin. apply Hin in Hs.
        inversion He; subst. tauto.
      * apply I4 in H. tauto.
Qed.

(** the queue loop consumes the rest [cur] of the current level *)
Lemma seq_loop_cur : forall g f d cur fuel nxt V,
  (length cur < fuel)%nat ->
  seq_loop fuel g f d (map Some cur ++ None :: map Some nxt) V =
  let '(V', nw, ev) := expand g f d cur V in
  match nxt ++ nw with
  | [] => (V', ev ++ [EDone])
  | _ => let '(V'', ev') := seq_loop (fuel - length cur - 1) g f (d + 1)
                                   (map Some (nxt ++ nw) ++ [None]) V' in
         (V'', ev ++ EFrontier d (nlen (nxt ++ nw)) :: ev')
  end.
Proof.
  intros g f d cur. induction cur as [|v c IH]; intros fuel nxt V Hf.
  - destruct fuel as [|fu]; [cbn in Hf; lia|].
    cbn [map app expand seq_loop length]. rewrite app_nil_r.
    replace (S fu - 0 - 1)%nat with fu by lia.
    destruct nxt as [|a nxt']; [reflexivity|].
    cbn [map app]. unfold nlen. cbn [length]. rewrite map_length. reflexivity.
  - destruct fuel as [|fu]; [cbn in Hf; lia|].
    cbn [map app expand seq_loop length].
    destruct (scan_ev f d v (succs g v) V) as [[V1 n1] e1].
    rewrite <- app_assoc. cbn [app]. rewrite <- map_app.
    rewrite IH by (cbn in Hf; lia).
    destruct (expand g f d c V1) as [[V2 n2] e2].
    rewrite <- app_assoc.
    replace (S fu - S (length c) - 1)%nat with (fu - length c - 1)%nat by lia.
    destruct ((nxt ++ n1) ++ n2) as [|a l] eqn:He.
    + rewrite <- app_assoc in He. rewrite He. rewrite <- app_assoc. reflexivity.
    + rewrite <- app_assoc in He. rewrite He.
      destruct (seq_loop (fu - length c - 1) g f (d + 1) (map Some (a :: l) ++ [None]) V2)
        as [V3 e3].
      rewrite <- app_assoc. reflexivity.
Qed.

(** * A potential: candidates that are not yet visited *)
Definition unv (U V : list N) : nat := length (filter (fun x => negb (memb x V)) U).

Lemma memb_cons : forall x s V, memb x (s :: V) = N.eqb x s || memb x V.
Proof. reflexivity. Qed.

Lemma unv_le_length : forall U V, (unv U V <= length U)%nat.
Proof.
  intros U V. unfold unv. induction U as [|a U IH]; cbn [filter length]; [lia|].
  destruct (negb (memb a V)); cbn [length]; lia.
Qed.

Lemma unv_cons_le : forall U s V, (unv U (s :: V) <= unv U V)%nat.
Proof.
  intros U s V. unfold unv. induction U as [|a U IH]; cbn [filter length]; [lia|].
  rewrite memb_cons. destruct (N.eqb a s); destruct (memb a V); cbn [orb negb length]; lia.
Qed.

Lemma unv_cons_lt : forall U s V, In s U -> ~ In s V -> (unv U (s :: V) < unv U V)%nat.
Proof.
  intros U s V. unfold unv. induction U as [|a U IH]; intros Hin Hn; [contradiction|].
  cbn [filter]. rewrite memb_cons. destruct Hin as [He|Hin].
  - subst a. rewrite N.eqb_refl. apply memb_false in Hn. rewrite Hn. cbn [orb negb length].
    pose proof (unv_cons_le U s V) as Hle. unfold unv in Hle. lia.
  - specialize (IH Hin Hn).
    destruct (N.eqb a s); destruct (memb a V); cbn [orb negb length]; try lia.
    all: pose proof (unv_cons_le U s V) as Hle; unfold unv in Hle; lia.
Qed.

Lemma unv_scan : forall U f d cand V, incl cand U ->
  (unv U (fst (scan f d cand V)) + length (snd (scan f d cand V)) <= unv U V)%nat.
Proof.
  intros U f d cand. induction cand as [|s c IH]; intros V Hi; cbn [scan].
  - cbn. lia.
  - assert (Hc : incl c U) by (intros x Hx; apply Hi; right; exact Hx).
    destruct (memb s V) eqn:Hm; [apply IH; exact Hc|].
    destruct (f s d) eqn:Hf; [|apply IH; exact Hc].
    specialize (IH (s :: V) Hc). destruct (scan f d c (s :: V)) as [V' nw].
    cbn [fst snd length] in *.
    apply memb_false in Hm.
    pose proof (unv_cons_lt U s V (Hi s (or_introl eq_refl)) Hm). lia.
Qed.

Lemma succs_incl : forall g L, incl (flat_map (succs g) L) (concat g).
Proof.
  intros g L x Hx. apply in_flat_map in Hx. destruct Hx as (v & _ & Hx).
  unfold succs in Hx. destruct (nth_in_or_default (N.to_nat v) g []) as [Hin|He].
  - apply in_concat. eauto.
  - rewrite He in Hx. contradiction.
Qed.

(** * Levels *)
Lemma levels_from_nil : forall fu g f d V, levels_from fu g f d [] V = [].
Proof. intros [|fu]; reflexivity. Qed.

Lemma levels_from_S : forall fu g f d L V, L <> [] ->
  levels_from (S fu) g f d L V =
  L :: levels_from fu g f (d + 1) (snd (scan f (d + 1) (flat_map (succs g) L) V))
                                  (fst (scan f (d + 1) (flat_map (succs g) L) V)).
Proof.
  intros fu g f d L V Hn. destruct L as [|a l]; [congruence|].
  cbn [levels_from]. destruct (scan f (d + 1) (flat_map (succs g) (a :: l)) V). reflexivity.
Qed.

(** the queue loop, level after level *)
Lemma seq_loop_levels : forall n g f d L V fuel fu,
  (unv (concat g) V < n)%nat -> L <> [] ->
  (length L + 2 * unv (concat g) V + 2 <= fuel)%nat ->
  (unv (concat g) V + 1 <= fu)%nat ->
  let r := seq_loop fuel g f (d + 1) (map Some L ++ [None]) V in
  let Ls := levels_from fu g f d L V in
  map node_dist (visits (snd r)) = tag_levels (d + 1) (tl Ls)
  /\ fronts (snd r) = level_sizes (d + 1) (tl Ls)
  /\ (forall v p dd, In (v, p, dd) (visits (snd r)) ->
        exists d', dd = d' + 1 /\ In (p, d') (tag_levels d Ls) /\ In v (succs g p))
  /\ (forall x, In x (fst r) <-> In x (concat (tl Ls)) \/ In x V).
Proof.
  induction n as [|n IH]; intros g f d L V fuel fu Hn HL Hfuel Hfu; cbv zeta; [lia|].
  change (map Some L ++ [None]) with (map Some L ++ None :: map Some []).
  rewrite seq_loop_cur by lia.
  pose proof (expand_spec g f (d + 1) L V) as He; cbv zeta in He.
  pose proof (unv_scan (concat g) f (d + 1) (flat_map (succs g) L) V (succs_incl g L)) as Hu.
  pose proof (scan_V_In f (d + 1) (flat_map (succs g) L) V) as HV.
  destruct fu as [|fu]; [lia|].
  rewrite levels_from_S by exact HL.
  destruct (expand g f (d + 1) L V) as [[V' nw] ev]; cbn [fst snd] in He.
  destruct He as (E1 & E2 & E3 & E4).
  rewrite <- E1 in *; cbn [fst snd] in *.
  cbn [app tl].
  destruct nw as [|a nw'] eqn:Hnw.
  - rewrite levels_from_nil. cbn [fst snd tag_levels level_sizes concat].
    rewrite visits_app, fronts_app, map_app, E2, E3. cbn [map app visits fronts flat_map].
    split; [reflexivity|]. split; [reflexivity|]. split.
    + intros v p dd H. rewrite app_nil_r in H. apply E4 in H. destruct H as (-> & Hp & Hs).
      exists d. split; [reflexivity|]. split; [|exact Hs].
      rewrite app_nil_r. apply in_map_iff. exists p. auto.
    + intros x. rewrite HV. cbn [In]. tauto.
  - rewrite <- Hnw in *. assert (Hne : nw <> []) by (rewrite Hnw; discriminate).
    assert (Hlen : (1 <= length nw)%nat) by (rewrite Hnw; cbn; lia).
    specialize (IH g f (d + 1) nw V' (fuel - length L - 1)%nat fu).
    cbv zeta in IH.
    destruct IH as (I1 & I2 & I3 & I4); try lia; try exact Hne.
    destruct fu as [|fu']; [lia|].
    rewrite levels_from_S in * by exact Hne.
    set (Ls' := levels_from fu' g f (d + 1 + 1)
                  (snd (scan f (d + 1 + 1) (flat_map (succs g) nw) V'))
                  (fst (scan f (d + 1 + 1) (flat_map (succs g) nw) V'))) in *.
    cbn [tl] in *.
    destruct (seq_loop (fuel - length L - 1) g f (d + 1 + 1) (map Some nw ++ [None]) V')
      as [V'' ev'].
    cbn [fst snd] in *.
    rewrite visits_app, fronts_app, map_app, E2, E3.
    cbn [visits fronts flat_map app tag_levels level_sizes concat map].
    fold (visits ev') (fronts ev').
    split; [rewrite I1; reflexivity|]. split; [rewrite I2; reflexivity|]. split.
    + intros v p dd H. apply in_app_iff in H. destruct H as [H|H].
      * apply E4 in H. destruct H as (-> & Hp & Hs). exists d. repeat split; auto.
        apply in_app_iff. left. apply in_map_iff. exists p. auto.
      * apply I3 in H. destruct H as (d' & Hd & Hin & Hs). exists d'. repeat split; auto.
        apply in_app_iff. right. exact Hin.
    + intros x. rewrite I4, in_app_iff, HV. tauto.
Qed.

Lemma visits_roots : forall L, visits (map (fun r => EVisit r r 0) L) = map (fun r => (r, r, 0)) L.
Proof. induction L as [|a L IH]; [reflexivity|]. cbn [map visits flat_map app] in *. f_equal. exact IH. Qed.
Lemma fronts_roots : forall L, fronts (map (fun r => EVisit r r 0) L) = [].
Proof. induction L as [|a L IH]; [reflexivity|]. cbn [map fronts flat_map app] in *. exact IH. Qed.

Lemma scan_length : forall f d cand V, (length (snd (scan f d cand V)) <= length cand)%nat.
Proof.
  intros. apply NoDup_incl_length; [apply scan_NoDup|].
  intros x Hx. apply scan_In in Hx. tauto.
Qed.

(** * C13_seq_levels *)
Theorem seq_levels : S_seq_levels.
Proof.
  intros g f roots V. cbv zeta. unfold bfs_seq, bfs_levels.
  pose proof (scan_In f 0 roots V) as Hin.
  pose proof (scan_V_In f 0 roots V) as HV.
  pose proof (scan_length f 0 roots V) as Hlen.
  destruct (scan f 0 roots V) as [V1 L0]. cbn [fst snd] in *.
  destruct L0 as [|a l] eqn:HL0.
  - rewrite levels_from_nil. cbn [fst snd visits fronts flat_map map tag_levels level_sizes].
    split; [reflexivity|]. split; [reflexivity|]. split; [intros v p d []|].
    intros v. unfold visited_after. cbn [concat app]. rewrite HV. cbn [In]. tauto.
  - rewrite <- HL0 in *. assert (Hne : L0 <> []) by (rewrite HL0; discriminate).
    pose proof (unv_le_length (concat g) V1) as Hul.
    pose proof (seq_loop_levels (S (unv (concat g) V1)) g f 0 L0 V1 (seq_fuel g roots)
                  (level_fuel g roots)) as HM.
    cbv zeta in HM. change (0 + 1) with 1 in HM.
    unfold seq_fuel, level_fuel in *.
    destruct HM as (M1 & M2 & M3 & M4); try lia; try exact Hne.
    rewrite levels_from_S in * by exact Hne. change (0 + 1) with 1 in *.
    set (Ls' := levels_from (length roots + length (concat g)) g f 1
                  (snd (scan f 1 (flat_map (succs g) L0) V1))
                  (fst (scan f 1 (flat_map (succs g) L0) V1))) in *.
    cbn [tl] in *.
    destruct (seq_loop (2 * (length roots + length (concat g)) + 3) g f 1
                (map Some L0 ++ [None]) V1) as [V2 ev].
    cbn [fst snd] in *.
    change (EInit :: map (fun r => EVisit r r 0) L0 ++ EFrontier 0 (nlen L0) :: ev)
      with ([EInit] ++ map (fun r => EVisit r r 0) L0 ++ [EFrontier 0 (nlen L0)] ++ ev).
    rewrite !visits_app, !fronts_app, visits_roots, fronts_roots.
    cbn [visits fronts flat_map app tag_levels level_sizes]. fold (visits ev) (fronts ev).
    change (0 + 1) with 1.
    split; [rewrite map_app, M1, map_map; reflexivity|].
    split; [rewrite M2; reflexivity|]. split.
    + intros v p d H. apply in_app_iff in H. destruct H as [H|H].
      * left. apply in_map_iff in H. destruct H as (r & He & Hr). inversion He; subst.
        apply Hin in Hr. tauto.
      * right. apply M3 in H. exact H.
    + intros v. unfold visited_after. cbn [concat]. rewrite M4, !in_app_iff, HV. tauto.
Qed.

(** * C13_levels_once *)
Lemma NoDup_app_intro : forall (a b : list N),
  NoDup a -> NoDup b -> (forall x, In x a -> ~ In x b) -> NoDup (a ++ b).
Proof.
  induction a as [|x a IH]; intros b Ha Hb Hd; [exact Hb|].
  inversion Ha as [|? ? Hx Ha']; subst. cbn [app]. constructor.
  - rewrite in_app_iff. intros [H|H]; [contradiction|]. apply (Hd x); [left; reflexivity|exact H].
  - apply IH; auto. intros y Hy. apply Hd. right. exact Hy.
Qed.

Lemma levels_from_once : forall fu g f d L V,
  NoDup L -> incl L V ->
  let Ls := levels_from fu g f d L V in
  NoDup (concat Ls) /\ (forall v, In v (concat Ls) -> In v L \/ ~ In v V) /\ ~ In [] Ls.
Proof.
  induction fu as [|fu IH]; intros g f d L V HL Hi; cbv zeta.
  - cbn. repeat split; auto; constructor.
  - destruct L as [|a l] eqn:HLe.
    + cbn. repeat split; auto; constructor.
    + rewrite <- HLe in *. assert (Hne : L <> []) by (rewrite HLe; discriminate).
      rewrite levels_from_S by exact Hne.
      pose proof (scan_In f (d + 1) (flat_map (succs g) L) V) as Hin.
      pose proof (scan_V_In f (d + 1) (flat_map (succs g) L) V) as HV.
      pose proof (scan_NoDup f (d + 1) (flat_map (succs g) L) V) as Hnd.
      set (L' := snd (scan f (d + 1) (flat_map (succs g) L) V)) in *.
      set (V' := fst (scan f (d + 1) (flat_map (succs g) L) V)) in *.
      specialize (IH g f (d + 1) L' V' Hnd).
      cbv zeta in IH. destruct IH as (I1 & I2 & I3).
      { intros x Hx. apply HV. left. exact Hx. }
      cbn [concat]. split; [|split].
      * apply NoDup_app_intro; auto. intros x Hx Hc. apply I2 in Hc.
        destruct Hc as [Hc|Hc].
        -- apply Hin in Hc. apply Hc. apply Hi. exact Hx.
        -- apply Hc. apply HV. right. apply Hi. exact Hx.
      * intros v Hv. apply in_app_iff in Hv. destruct Hv as [Hv|Hv]; [left; exact Hv|].
        right. apply I2 in Hv. destruct Hv as [Hv|Hv].
        -- apply Hin in Hv. tauto.
        -- intros Hc. apply Hv. apply HV. right. exact Hc.
      * intros [He|Hc]; [congruence | contradiction].
Qed.

Theorem levels_once : S_levels_once.
Proof.
  intros g f roots V. cbv zeta. unfold bfs_levels.
  pose proof (scan_In f 0 roots V) as Hin.
  pose proof (scan_V_In f 0 roots V) as HV.
  pose proof (scan_NoDup f 0 roots V) as Hnd.
  destruct (scan f 0 roots V) as [V1 L0]. cbn [fst snd] in *.
  pose proof (levels_from_once (level_fuel g roots) g f 0 L0 V1 Hnd) as H.
  cbv zeta in H. destruct H as (H1 & H2 & H3).
  { intros x Hx. apply HV. left. exact Hx. }
  split; [exact H1|]. split; [|exact H3].
  intros v Hv. apply H2 in Hv. destruct Hv as [Hv|Hv].
  - apply Hin in Hv. tauto.
  - intros Hc. apply Hv. apply HV. right. exact Hc.
Qed.

Lemma tag_levels_fst : forall Ls d, map fst (tag_levels d Ls) = concat Ls.
Proof.
  induction Ls as [|L r IH]; intros d; [reflexivity|].
  cbn [tag_levels concat]. rewrite map_app, map_map, IH. cbn [fst]. rewrite map_id. reflexivity.
Qed.

(** * C13_no_revisit *)
Theorem no_revisit : S_no_revisit.
Proof.
  intros g f1 f2 r1 r2 V.
  pose proof (seq_levels g f1 r1 V) as H1. cbv zeta in H1.
  destruct (bfs_seq g f1 r1 V) as [V1 ev1]. cbn [fst snd] in H1.
  pose proof (seq_levels g f2 r2 V1) as H2. cbv zeta in H2.
  pose proof (levels_once g f2 r2 V1) as O2. cbv zeta in O2.
  destruct (bfs_seq g f2 r2 V1) as [V2 ev2]. cbn [fst snd] in H2.
  destruct H1 as (A1 & _ & _ & A4). destruct H2 as (B1 & _).
  destruct O2 as (_ & O2 & _).
  intros v Hv. rewrite B1, tag_levels_fst. intros Hc. apply O2 in Hc. apply Hc.
  apply A4. unfold visited_after. rewrite in_app_iff. destruct Hv as [Hv|Hv]; [right; exact Hv|].
  left. rewrite A1, tag_levels_fst in Hv. exact Hv.
Qed.

(** * C13_from_roots_once *)
Lemma from_roots_seq : forall g roots items,
  bfs_from_roots g roots = Some items ->
  items = map (fun '(v, p, d) => (p, v, d)) (visits (snd (bfs_seq g no_filter roots []))).
Proof.
  intros g roots items. unfold bfs_from_roots, bfs_seq.
  destruct roots as [|r0 rs] eqn:Hr; [discriminate|]. rewrite <- Hr. clear Hr.
  destruct (scan no_filter 0 roots []) as [V1 L0].
  destruct L0 as [|a l] eqn:HL0.
  - unfold seq_fuel. replace (2 * (length roots + length (concat g)) + 3)%nat
      with (S (2 * (length roots + length (concat g)) + 2)) by lia.
    cbn [map app seq_loop]. intros H. inversion H. reflexivity.
  - rewrite <- HL0. destruct (seq_loop (seq_fuel g roots) g no_filter 1 (map Some L0 ++ [None]) V1)
      as [V2 ev].
    intros H. inversion H. cbn [snd].
    change (EInit :: map (fun r => EVisit r r 0) L0 ++ EFrontier 0 (nlen L0) :: ev)
      with ([EInit] ++ map (fun r => EVisit r r 0) L0 ++ [EFrontier 0 (nlen L0)] ++ ev).
    rewrite !visits_app, visits_roots. cbn [visits flat_map app]. fold (visits ev).
    rewrite map_app, map_map. reflexivity.
Qed.

Theorem from_roots_once : S_from_roots_once.
Proof.
  intros g roots items H. cbv zeta. apply from_roots_seq in H.
  pose proof (seq_levels g no_filter roots []) as HS. cbv zeta in HS.
  pose proof (levels_once g no_filter roots []) as HO. cbv zeta in HO.
  destruct HS as (S1 & _ & S3 & _). destruct HO as (O1 & _).
  set (vs := visits (snd (bfs_seq g no_filter roots []))) in *.
  assert (E : map (fun '(_, v, d) => (v, d)) items = tag_levels 0 (bfs_levels g no_filter roots [])).
  { rewrite <- S1, H, map_map. apply map_ext. intros [[v p] d]. reflexivity. }
  split; [|split].
  - replace (map (fun '(_, v, _) => v) items) with (map fst (map (fun '(_, v, d) => (v, d)) items)).
    + rewrite E, tag_levels_fst. exact O1.
    + rewrite map_map. apply map_ext. intros [[p v] d]. reflexivity.
  - exact E.
  - intros p v d Hin. apply S3. rewrite H in Hin. apply in_map_iff in Hin.
    destruct Hin as ([[v' p'] d'] & He & Hin). inversion He; subst. exact Hin.
Qed.

(** * Parallel visits: one level under an arbitrary interleaving *)
Section ParFold.
  Variables (f : filt) (d : N).

  Lemma swap_fold_nodes : forall sched V nx x,
    In x (map fst (snd (fold_left (swap_step f d) sched (V, nx)))) <->
    In x (map fst nx) \/ (In x (map snd sched) /\ ~ In x V /\ f x d = true).
  Proof.
    induction sched as [|[p s] sched IH]; intros V nx x; cbn [fold_left map snd fst].
    - cbn [In]. tauto.
    - unfold swap_step at 2. destruct (f s d) eqn:Hf.
      + destruct (memb s V) eqn:Hm.
        * apply memb_In in Hm. rewrite IH. cbn [In]. split; [tauto|].
          intros [H|[[He|H] [Hn Hx]]]; [tauto | subst; contradiction | tauto].
        * apply memb_false in Hm. rewrite IH. cbn [map fst In].
          destruct (N.eq_dec s x) as [E|E]; [subst; tauto | tauto].
      + rewrite IH. cbn [In]. split; [tauto|].
        intros [H|[[He|H] [Hn Hx]]]; [tauto | subst; congruence | tauto].
  Qed.

  Lemma swap_fold_visited : forall sched V nx x,
    In x (fst (fold_left (swap_step f d) sched (V, nx))) <->
    In x V \/ (In x (map snd sched) /\ f x d = true).
  Proof.
    induction sched as [|[p s] sched IH]; intros V nx x; cbn [fold_left map snd fst].
    - cbn [In]. tauto.
    - unfold swap_step at 2. destruct (f s d) eqn:Hf.
      + destruct (memb s V) eqn:Hm.
        * apply memb_In in Hm. rewrite IH. cbn [In]. split; [tauto|].
          intros [H|[[He|H] Hx]]; [tauto | subst; tauto | tauto].
        * rewrite IH. cbn [In]. split; [|tauto].
          intros [[He|H]|H]; [subst; tauto | tauto | tauto].
      + rewrite IH. cbn [In]. split; [tauto|].
        intros [H|[[He|H] Hx]]; [tauto | subst; congruence | tauto].
  Qed.

  Lemma swap_fold_NoDup : forall sched V nx,
    NoDup (map fst nx) -> (forall x, In x (map fst nx) -> In x V) ->
    NoDup (map fst (snd (fold_left (swap_step f d) sched (V, nx)))).
  Proof.
    induction sched as [|[p s] sched IH]; intros V nx Hnd Hi; cbn [fold_left snd]; [exact Hnd|].
    unfold swap_step at 2. destruct (f s d) eqn:Hf; [|apply IH; assumption].
    destruct (memb s V) eqn:Hm; [apply IH; assumption|].
    apply memb_false in Hm. apply IH.
    - cbn [map fst]. constructor; [|exact Hnd]. intros Hc. apply Hm. apply Hi. exact Hc.
    - cbn [map fst]. intros x [He|Hx]; [left; exact He | right; apply Hi; exact Hx].
  Qed.

  Lemma swap_fold_preds : forall sched V nx s p,
    In (s, p) (snd (fold_left (swap_step f d) sched (V, nx))) ->
    In (s, p) nx \/ In (p, s) sched.
  Proof.
    induction sched as [|[p0 s0] sched IH]; intros V nx s p H; cbn [fold_left snd] in H; [tauto|].
    unfold swap_step at 2 in H. destruct (f s0 d) eqn:Hf.
    - destruct (memb s0 V) eqn:Hm.
      + apply IH in H. cbn [In]. tauto.
      + apply IH in H. cbn [In] in *. destruct H as [[He|H]|H]; [|tauto|tauto].
        inversion He; subst. tauto.
    - apply IH in H. cbn [In]. tauto.
  Qed.
End ParFold.

Lemma steps_snd : forall g L, map snd (steps g L) = flat_map (succs g) L.
Proof.
  intros g L. unfold steps. induction L as [|p L IH]; [reflexivity|].
  cbn [flat_map]. rewrite map_app, IH, map_map. cbn [snd]. rewrite map_id. reflexivity.
Qed.

Lemma steps_In : forall g L p s, In (p, s) (steps g L) <-> In p L /\ In s (succs g p).
Proof.
  intros g L p s. unfold steps. rewrite in_flat_map. split.
  - intros (q & Hq & H). apply in_map_iff in H. destruct H as (s' & He & Hs).
    inversion He; subst. tauto.
  - intros [Hp Hs]. exists p. split; [exact Hp|]. apply in_map_iff. exists s. tauto.
Qed.

Theorem par_step_levels : S_par_step.
Proof.
  intros g f d L V sched Hperm. cbv zeta. unfold par_step.
  assert (Hmem : forall x, In x (map snd sched) <-> In x (flat_map (succs g) L)).
  { intros x. rewrite <- steps_snd. split; apply Permutation_in; apply Permutation_map;
      [exact Hperm | apply Permutation_sym; exact Hperm]. }
  assert (Hnd : NoDup (map fst (snd (fold_left (swap_step f d) sched (V, []))))).
  { apply swap_fold_NoDup; [constructor | intros x []]. }
  split; [exact Hnd|]. split; [|split].
  - apply NoDup_Permutation; [exact Hnd | apply scan_NoDup|].
    intros x. rewrite swap_fold_nodes, scan_In, Hmem. cbn [map In]. tauto.
  - intros s p H. apply swap_fold_preds in H. destruct H as [[]|H].
    apply (Permutation_in _ Hperm) in H. apply steps_In in H. exact H.
  - intros x. rewrite swap_fold_visited, scan_V_In, scan_In, Hmem.
    destruct (in_dec N.eq_dec x V); tauto.
Qed.

(** * The whole parallel visit *)
Lemma par_from_nil : forall fu g f sch d V, par_from fu g f sch d [] V = [].
Proof. intros [|fu]; reflexivity. Qed.

Lemma par_from_S : forall fu g f sch d P V, P <> [] ->
  par_from (S fu) g f sch d P V =
  P :: par_from fu g f sch (d + 1)
         (snd (par_step f (d + 1) (sch d (steps g (map fst P))) V))
         (fst (par_step f (d + 1) (sch d (steps g (map fst P))) V)).
Proof.
  intros fu g f sch d P V Hn. destruct P as [|a l]; [congruence|].
  cbn [par_from]. destruct (par_step f (d + 1) (sch d (steps g (map fst (a :: l)))) V). reflexivity.
Qed.

Lemma flat_map_perm_In : forall (g : graph) A B x,
  Permutation A B -> In x (flat_map (succs g) A) -> In x (flat_map (succs g) B).
Proof.
  intros g A B x HP H. apply in_flat_map in H. destruct H as (u & Hu & Hx).
  apply in_flat_map. exists u. split; [|exact Hx]. apply (Permutation_in _ HP). exact Hu.
Qed.

Lemma par_from_levels : forall fu g f sch d P L VP V,
  (forall d l, Permutation (sch d l) l) ->
  NoDup (map fst P) -> Permutation (map fst P) L -> (forall x, In x VP <-> In x V) ->
  Forall2 (fun Pk Lk => NoDup (map fst Pk) /\ Permutation (map fst Pk) Lk)
          (par_from fu g f sch d P VP) (levels_from fu g f d L V)
  /\ par_preds_ok g (map fst P) (tl (par_from fu g f sch d P VP)).
Proof.
  induction fu as [|fu IH]; intros g f sch d P L VP V Hsch Hnd HP HV.
  - cbn. split; constructor.
  - destruct P as [|a P0] eqn:HPe.
    + cbn [map] in HP. apply Permutation_nil in HP. subst L. cbn. split; constructor.
    + rewrite <- HPe in *. assert (HPn : P <> []) by (rewrite HPe; discriminate).
      assert (HLn : L <> []).
      { intros ->. apply Permutation_sym, Permutation_nil in HP. rewrite HPe in HP. discriminate. }
      rewrite par_from_S by exact HPn. rewrite levels_from_S by exact HLn.
      pose proof (par_step_levels g f (d + 1) (map fst P) VP (sch d (steps g (map fst P)))
                    (Hsch d _)) as HS. cbv zeta in HS.
      set (PS := par_step f (d + 1) (sch d (steps g (map fst P))) VP) in *.
      destruct HS as (S1 & S2 & S3 & S4).
      pose proof (scan_In f (d + 1) (flat_map (succs g) (map fst P)) VP) as HinP.
      pose proof (scan_In f (d + 1) (flat_map (succs g) L) V) as HinL.
      pose proof (scan_V_In f (d + 1) (flat_map (succs g) (map fst P)) VP) as HVP.
      pose proof (scan_V_In f (d + 1) (flat_map (succs g) L) V) as HVL.
      assert (Hsame : forall x, In x (snd (scan f (d + 1) (flat_map (succs g) (map fst P)) VP))
                               <-> In x (snd (scan f (d + 1) (flat_map (succs g) L) V))).
      { intros x. rewrite HinP, HinL, HV. split; intros (A & B & C); repeat split; auto.
        - apply (flat_map_perm_In g _ _ x HP A).
        - apply (flat_map_perm_In g _ _ x (Permutation_sym HP) A). }
      assert (HP' : Permutation (map fst (snd PS)) (snd (scan f (d + 1) (flat_map (succs g) L) V))).
      { apply NoDup_Permutation; [exact S1 | apply scan_NoDup|].
        intros x. rewrite <- Hsame. split; apply Permutation_in;
          [exact S2 | apply Permutation_sym; exact S2]. }
      assert (HV' : forall x, In x (fst PS) <-> In x (fst (scan f (d + 1) (flat_map (succs g) L) V))).
      { intros x. rewrite S4, HVP, HVL, Hsame, HV. tauto. }
      specialize (IH g f sch (d + 1) (snd PS) _ (fst PS) _ Hsch S1 HP' HV').
      destruct IH as (I1 & I2).
      split.
      * constructor; [split; assumption | exact I1].
      * cbn [tl].
        destruct (snd PS) as [|b Q] eqn:HQ.
        -- rewrite par_from_nil. exact I.
        -- rewrite <- HQ in *. assert (HQn : snd PS <> []) by (rewrite HQ; discriminate).
           destruct fu as [|fu']; [cbn; exact I|].
           rewrite par_from_S in * by exact HQn. cbn [tl] in I2.
           cbn [par_preds_ok]. split; [|exact I2].
           intros s p Hin. apply S3. exact Hin.
Qed.

Theorem par_levels_spec : S_par_levels.
Proof.
  intros g f roots V sch Hsch. cbv zeta. unfold par_levels, bfs_levels.
  pose proof (scan_NoDup f 0 roots V) as Hnd.
  destruct (scan f 0 roots V) as [V1 L0]. cbn [snd] in Hnd.
  assert (Hm : map fst (map (fun r : N => (r, r)) L0) = L0).
  { rewrite map_map. cbn [fst]. apply map_id. }
  pose proof (par_from_levels (level_fuel g roots) g f sch 0 (map (fun r => (r, r)) L0) L0 V1 V1 Hsch)
    as H.
  rewrite Hm in H. destruct H as (H1 & H2); auto; [reflexivity|].
  split; [exact H1|].
  unfold level_fuel in *.
  destruct L0 as [|a l] eqn:HL0; [reflexivity|]. rewrite <- HL0 in *.
  assert (Hne : map (fun r : N => (r, r)) L0 <> []) by (rewrite HL0; discriminate).
  rewrite par_from_S in * by exact Hne. cbn [tl] in H2. split.
  - intros s p Hin. apply in_map_iff in Hin. destruct Hin as (r & He & _). congruence.
  - rewrite Hm. rewrite Hm in H2. exact H2.
Qed.

(** * Levels are shortest-path distances (filters that ignore the distance) *)
Fixpoint lv_iter (g : graph) (f : filt) (j : nat) (d : N) (V L : list N) : list N * list N :=
  match j with
  | O => (V, L)
  | S j' => lv_iter g f j' (d + 1) (fst (scan f (d + 1) (flat_map (succs g) L) V))
                                   (snd (scan f (d + 1) (flat_map (succs g) L) V))
  end.

Lemma lv_iter_nil : forall g f j d V, snd (lv_iter g f j d V []) = [].
Proof. intros g f j. induction j as [|j IH]; intros d V; [reflexivity|]. cbn. apply IH. Qed.

Lemma nth_levels_from : forall fu g f j d L V,
  (unv (concat g) V < fu)%nat ->
  nth j (levels_from fu g f d L V) [] = snd (lv_iter g f j d V L).
Proof.
  induction fu as [|fu IH]; intros g f j d L V Hf; [lia|].
  destruct L as [|a l] eqn:HL.
  - cbn [levels_from]. rewrite lv_iter_nil. destruct j; reflexivity.
  - rewrite <- HL in *. assert (Hne : L <> []) by (rewrite HL; discriminate).
    rewrite levels_from_S by exact Hne.
    destruct j as [|j]; [reflexivity|]. cbn [nth lv_iter].
    pose proof (unv_scan (concat g) f (d + 1) (flat_map (succs g) L) V (succs_incl g L)) as Hu.
    destruct (snd (scan f (d + 1) (flat_map (succs g) L) V)) as [|b L'] eqn:HL'.
    + rewrite levels_from_nil, lv_iter_nil. destruct j; reflexivity.
    + rewrite <- HL' in *. apply IH. rewrite HL' in Hu. cbn [length] in Hu. lia.
Qed.

Lemma scan_ext : forall f f' d d' cand V,
  (forall x, f x d = f' x d') -> scan f d cand V = scan f' d' cand V.
Proof.
  intros f f' d d' cand. induction cand as [|s c IH]; intros V He; [reflexivity|].
  cbn [scan]. rewrite <- He. destruct (memb s V); [apply IH; exact He|].
  destruct (f s d); [rewrite (IH _ He); reflexivity | apply IH; exact He].
Qed.

Definition stepn (g : graph) (fn : N -> bool) (st : list N * list N) : list N * list N :=
  scan (fun x _ => fn x) 0 (flat_map (succs g) (snd st)) (fst st).
Fixpoint lvn (g : graph) (fn : N -> bool) (k : nat) (st : list N * list N) : list N * list N :=
  match k with O => st | S k' => stepn g fn (lvn g fn k' st) end.

Lemma lvn_shift : forall g fn k st, lvn g fn (S k) st = lvn g fn k (stepn g fn st).
Proof.
  intros g fn k. induction k as [|k IH]; intros st; [reflexivity|].
  cbn [lvn] in *. rewrite IH. reflexivity.
Qed.

Lemma lv_iter_lvn : forall g fn j d V L,
  lv_iter g (fun x _ => fn x) j d V L = lvn g fn j (V, L).
Proof.
  intros g fn j. induction j as [|j IH]; intros d V L; [reflexivity|].
  rewrite lvn_shift. cbn [lv_iter]. rewrite IH. unfold stepn. cbn [fst snd].
  rewrite (scan_ext (fun x _ => fn x) (fun x _ => fn x) (d + 1) 0) by reflexivity.
  destruct (scan (fun x _ => fn x) 0 (flat_map (succs g) L) V). reflexivity.
Qed.

Section Dist.
  Variables (g : graph) (fn : N -> bool) (roots V : list N).
  Let f : filt := fun x _ => fn x.
  Let ok : N -> bool := fun x => fn x && negb (memb x V).
  Let st0 := scan f 0 roots V.
  Let Lk (k : nat) := snd (lvn g fn k st0).
  Let Vk (k : nat) := fst (lvn g fn k st0).

  Lemma ok_spec : forall x, ok x = true <-> fn x = true /\ ~ In x V.
  Proof.
    intros x. unfold ok. rewrite andb_true_iff, negb_true_iff, memb_false. tauto.
  Qed.

  Lemma L0_spec : forall x, In x (Lk 0) <-> In x roots /\ ~ In x V /\ fn x = true.
  Proof. intros x. unfold Lk, st0. cbn [lvn]. apply scan_In. Qed.

  Lemma LS_spec : forall k x,
    In x (Lk (S k)) <-> In x (flat_map (succs g) (Lk k)) /\ ~ In x (Vk k) /\ fn x = true.
  Proof. intros k x. unfold Lk, Vk. cbn [lvn]. unfold stepn. apply scan_In. Qed.

  Lemma Vk_spec : forall k x, In x (Vk k) <-> In x V \/ exists j, (j <= k)%nat /\ In x (Lk j).
  Proof.
    induction k as [|k IH]; intros x.
    - unfold Vk, Lk, st0. cbn [lvn]. rewrite scan_V_In. split.
      + intros [H|H]; [right; exists O; split; [lia|exact H] | left; exact H].
      + intros [H|(j & Hj & H)]; [right; exact H|]. assert (j = O) by lia. subst. left. exact H.
    - assert (E : In x (Vk (S k)) <-> In x (Lk (S k)) \/ In x (Vk k)).
      { unfold Vk, Lk. cbn [lvn]. unfold stepn. apply scan_V_In. }
      rewrite E, IH. split.
      + intros [H|[H|(j & Hj & H)]].
        * right. exists (S k). split; [lia|exact H].
        * left. exact H.
        * right. exists j. split; [lia|exact H].
      + intros [H|(j & Hj & H)]; [tauto|].
        destruct (Nat.eq_dec j (S k)) as [->|Hne]; [left; exact H|].
        right. right. exists j. split; [lia|exact H].
  Qed.

  Lemma level_sound : forall k x, In x (Lk k) -> reach g ok roots k x.
  Proof.
    induction k as [|k IH]; intros x H.
    - apply L0_spec in H. apply reach_root; [tauto|]. apply ok_spec. tauto.
    - apply LS_spec in H. destruct H as (Hs & Hv & Hf).
      apply in_flat_map in Hs. destruct Hs as (u & Hu & Hx).
      apply (reach_step g ok roots k u x); [apply IH; exact Hu | exact Hx|].
      apply ok_spec. split; [exact Hf|]. intros Hc. apply Hv. apply Vk_spec. left. exact Hc.
  Qed.

  Lemma level_complete : forall j x, reach g ok roots j x -> exists i, (i <= j)%nat /\ In x (Lk i).
  Proof.
    intros j x H. induction H as [r Hr Hok | k u v Hu IH Hv Hok].
    - exists O. split; [lia|]. apply L0_spec. apply ok_spec in Hok. tauto.
    - destruct IH as (i & Hi & Hin). apply ok_spec in Hok.
      destruct (in_dec N.eq_dec v (Vk i)) as [Hm|Hm].
      + apply Vk_spec in Hm. destruct Hm as [Hm|(j & Hj & Hm)]; [tauto|].
        exists j. split; [lia|exact Hm].
      + exists (S i). split; [lia|]. apply LS_spec. split; [|tauto].
        apply in_flat_map. exists u. tauto.
  Qed.

  Lemma level_disjoint : forall k j x, (j < k)%nat -> In x (Lk k) -> ~ In x (Lk j).
  Proof.
    intros k j x Hj H Hc. destruct k as [|k]; [lia|].
    apply LS_spec in H. destruct H as (_ & Hv & _). apply Hv. apply Vk_spec.
    right. exists j. split; [lia|exact Hc].
  Qed.

  Lemma level_dist : forall k x, In x (Lk k) <-> dist_is g ok roots x k.
  Proof.
    intros k x. split.
    - intros H. split; [apply level_sound; exact H|].
      intros j Hj Hr. apply level_complete in Hr. destruct Hr as (i & Hi & Hin).
      apply (level_disjoint k i x); [lia | exact H | exact Hin].
    - intros [Hr Hmin]. apply level_complete in Hr. destruct Hr as (i & Hi & Hin).
      destruct (Nat.eq_dec i k) as [->|Hne]; [exact Hin|].
      exfalso. apply (Hmin i); [lia|]. apply level_sound. exact Hin.
  Qed.
End Dist.

Theorem levels_are_distances : S_levels_are_distances.
Proof.
  intros g fn roots V k v. unfold bfs_levels.
  rewrite <- (level_dist g fn roots V k v).
  destruct (scan (fun x _ => fn x) 0 roots V) as [V1 L0] eqn:Hs.
  rewrite nth_levels_from.
  - rewrite lv_iter_lvn. reflexivity.
  - unfold level_fuel. pose proof (unv_le_length (concat g) V1). lia.
Qed.

(** * C13_bfs_order_once *)
Lemma nseq_In : forall n a x, In x (nseq a n) <-> a <= x < a + N.of_nat n.
Proof.
  induction n as [|n IH]; intros a x; cbn [nseq In]; [lia|].
  rewrite IH. lia.
Qed.

Lemma nseq_NoDup : forall n a, NoDup (nseq a n).
Proof.
  induction n as [|n IH]; intros a; cbn [nseq]; constructor; [|apply IH].
  rewrite nseq_In. lia.
Qed.

Lemma succs_In_concat : forall g p v, In v (succs g p) -> In v (concat g).
Proof.
  intros g p v H. apply (succs_incl g [p]). cbn [flat_map]. rewrite app_nil_r. exact H.
Qed.

Definition item_ok (g : graph) (items : list (N * N * N * N)) (x : N * N * N * N) : Prop :=
  let '(r, p, v, d) := x in
  (d = 0 /\ p = v /\ r = v)
  \/ (exists d' p', d = d' + 1 /\ In (r, p', p, d') items /\ In v (succs g p)).

Lemma item_ok_incl : forall g l l' x, incl l l' -> item_ok g l x -> item_ok g l' x.
Proof.
  intros g l l' [[[r p] v] d] Hi [H|(d' & p' & Hd & Hin & Hs)]; [left; exact H|].
  right. exists d', p'. repeat split; auto.
Qed.

Lemma node4_map : forall r vs,
  map node4 (map (fun '(v, p, d) => (r, p, v, d)) vs) = map fst (map node_dist vs).
Proof. intros r vs. rewrite !map_map. apply map_ext. intros [[v p] d]. reflexivity. Qed.

Lemma order_from_spec : forall g fuel rs V,
  (2 * length (concat g) + 3 <= fuel)%nat ->
  let items := order_from g fuel rs V in
  NoDup (map node4 items)
  /\ (forall x, In x (map node4 items) -> ~ In x V)
  /\ (forall x, In x rs -> In x V \/ In x (map node4 items))
  /\ (forall x, In x (map node4 items) -> In x rs \/ In x (concat g))
  /\ (forall x, In x items -> item_ok g items x).
Proof.
  intros g fuel rs. induction rs as [|r rs IH]; intros V Hfuel; cbv zeta; cbn [order_from].
  - cbn. repeat split; try constructor; try contradiction.
  - destruct (memb r V) eqn:Hm.
    + apply memb_In in Hm. specialize (IH V Hfuel). cbv zeta in IH.
      destruct IH as (A & B & C & D & E). repeat split; auto.
      * intros x [->|Hx]; [left; exact Hm | apply C; exact Hx].
      * intros x Hx. apply D in Hx. cbn [In]. tauto.
    + apply memb_false in Hm.
      pose proof (unv_le_length (concat g) (r :: V)) as Hul.
      pose proof (seq_loop_levels (S (unv (concat g) (r :: V))) g no_filter 0 [r] (r :: V) fuel
                    (S (length (concat g)))) as HM.
      cbv zeta in HM. change (0 + 1) with 1 in HM. cbn [map app length] in HM.
      destruct HM as (M1 & M2 & M3 & M4); try lia; try discriminate.
      pose proof (levels_from_once (S (length (concat g))) g no_filter 0 [r] (r :: V)) as HO.
      cbv zeta in HO. destruct HO as (O1 & O2 & _).
      { constructor; [intros []|constructor]. }
      { intros x [->|[]]. left. reflexivity. }
      rewrite levels_from_S in * by discriminate. change (0 + 1) with 1 in *.
      set (Ls' := levels_from (length (concat g)) g no_filter 1
                    (snd (scan no_filter 1 (flat_map (succs g) [r]) (r :: V)))
                    (fst (scan no_filter 1 (flat_map (succs g) [r]) (r :: V)))) in *.
      cbn [tl concat app] in *.
      destruct (seq_loop fuel g no_filter 1 [Some r; None] (r :: V)) as [V' ev].
      cbn [fst snd] in *.
      specialize (IH V' Hfuel). cbv zeta in IH. destruct IH as (A & B & C & D & E).
      set (rest := order_from g fuel rs V') in *.
      assert (Hnodes : map node4 ((r, r, r, 0) :: map (fun '(v, p, d) => (r, p, v, d)) (visits ev) ++ rest)
                       = (r :: concat Ls') ++ map node4 rest).
      { cbn [map node4 app]. rewrite map_app, node4_map, M1, tag_levels_fst. reflexivity. }
      rewrite Hnodes.
      assert (HV' : forall x, In x (r :: concat Ls') -> In x V').
      { intros x [->|Hx]; apply M4; [right; left; reflexivity | left; exact Hx]. }
      split; [|split; [|split; [|split]]].
      * apply NoDup_app_intro; [exact O1 | exact A|].
        intros x Hx Hc. apply B in Hc. apply Hc. apply HV'. exact Hx.
      * intros x Hx. apply in_app_iff in Hx. destruct Hx as [Hx|Hx].
        -- apply O2 in Hx. destruct Hx as [[->|[]]|Hx]; [exact Hm|].
           intros Hc. apply Hx. right. exact Hc.
        -- apply B in Hx. intros Hc. apply Hx. apply M4. right. right. exact Hc.
      * intros x [->|Hx].
        -- right. apply in_app_iff. left. left. reflexivity.
        -- apply C in Hx. destruct Hx as [Hx|Hx].
           ++ apply M4 in Hx. destruct Hx as [Hx|[->|Hx]].
              ** right. apply in_app_iff. left. right. exact Hx.
              ** right. apply in_app_iff. left. left. reflexivity.
              ** left. exact Hx.
           ++ right. apply in_app_iff. right. exact Hx.
      * intros x Hx. apply in_app_iff in Hx. destruct Hx as [[->|Hx]|Hx].
        -- left. left. reflexivity.
        -- right. rewrite <- (tag_levels_fst Ls' 1), <- M1 in Hx.
           apply in_map_iff in Hx. destruct Hx as ([v dd] & He & Hx). cbn [fst] in He. subst v.
           apply in_map_iff in Hx. destruct Hx as ([[v p] d0] & He & Hx). cbn [node_dist] in He.
           inversion He; subst. apply M3 in Hx. destruct Hx as (d' & _ & _ & Hs).
           apply (succs_In_concat g p x Hs).
        -- apply D in Hx. cbn [In]. tauto.
      * intros x [<-|Hx]; [left; auto|].
        apply in_app_iff in Hx. destruct Hx as [Hx|Hx].
        -- apply in_map_iff in Hx. destruct Hx as ([[v p] d0] & <- & Hx).
           pose proof (M3 v p d0 Hx) as (d' & Hd & Hin & Hs).
           right. cbn [tag_levels map app] in Hin. destruct Hin as [Hin|Hin].
           ++ injection Hin as Hp H0. subst p d'. exists 0, r. repeat split; auto. left. reflexivity.
           ++ change (0 + 1) with 1 in Hin. rewrite <- M1 in Hin.
              apply in_map_iff in Hin. destruct Hin as ([[v2 p2] d2] & He & Hin).
              cbn [node_dist] in He. inversion He; subst.
              exists d', p2. repeat split; auto. right. apply in_app_iff. left.
              apply in_map_iff. exists (p, p2, d'). split; [reflexivity|exact Hin].
        -- apply (item_ok_incl g rest); [|apply E; exact Hx].
           intros y Hy. right. apply in_app_iff. right. exact Hy.
Qed.

Theorem bfs_order_once : S_bfs_order_once.
Proof.
  intros g Hwf. cbv zeta. unfold bfs_order.
  pose proof (order_from_spec g (seq_fuel g [0]) (nseq 0 (length g)) []) as H.
  cbv zeta in H. destruct H as (A & B & C & D & E).
  { unfold seq_fuel. cbn [length]. lia. }
  split.
  - apply NoDup_Permutation; [exact A | apply nseq_NoDup|].
    intros x. split.
    + intros Hx. apply D in Hx. destruct Hx as [Hx|Hx]; [exact Hx|].
      apply in_concat in Hx. destruct Hx as (l & Hl & Hx).
      apply nseq_In. pose proof (Hwf l Hl x Hx) as Hlt. unfold nlen in Hlt. lia.
    + intros Hx. apply C in Hx. destruct Hx as [[]|Hx]. exact Hx.
  - intros r p v d Hin. apply (E _ Hin).
Qed.
