(** Sequential depth-first visits ([SeqIter] of webgraph/src/visits/depth_first/seq.rs with
    its three flavours [SeqNoPred], [SeqPred], [SeqPath]), [top_sort] (algo/src/top_sort.rs)
    and [is_acyclic] (algo/src/acyclicity.rs).  Definitions only.

    The visit is the explicit-stack machine of [visit_filtered_with]: a stack of frames
    (node, successors still to scan), one mark set "known" and one mark set "on stack"
    (the two bit planes of [ThreeStates]; [TwoStates] has only the first, which shows only in
    the [on_stack] flag of [Revisit] events).  The Rust frame stores the parent of the node
    and keeps the node itself in the variable [curr]; here the frame stores the node and the
    parent is the node of the frame below (the root for the bottom frame) — this
    representation change is covered by the exact comparison of event sequences.

    One machine step is: skipping or starting a root (events [Init], [Previsit]), scanning
    one successor of the top frame ([Revisit], [Previsit] + push, or nothing when the vfilter
    refuses it), or popping an exhausted frame ([Postvisit], and [Done] when the stack
    becomes empty). *)
From WG Require Import Base.Prelude.

Module DfsM.
Local Open Scope N_scope.

Definition graph := list (list N).
Definition succs (g : graph) (v : N) : list N := nth (N.to_nat v) g [].
Definition memb (v : N) (l : list N) : bool := existsb (N.eqb v) l.
Definition nodes (g : graph) : list N := nseq 0 (length g).
(** every successor is a node *)
Definition gwf (g : graph) : bool := forallb (forallb (fun v => v <? nlen g)) g.

Inductive flavour := NoPred | Pred | Path.

Inductive event :=
| EInit (root : N)
| EPre (node parent root depth : N)
| ERev (node pred root depth : N) (on_stack : bool)
| EPost (node parent root depth : N)
| EDone (root : N).

(** [FilterArgsPred]: node, pred, root, depth ([FilterArgsNoPred] has no pred) *)
Definition vfilter := N -> N -> N -> N -> bool.
Definition no_filter : vfilter := fun _ _ _ _ => true.

Record cfg := mkCfg {
  c_roots : list N;              (* roots still to be taken from the iterator *)
  c_root : N;                    (* root of the current tree (meaningful when the stack is not empty) *)
  c_stack : list (N * list N);   (* top first *)
  c_known : list N;
  c_onst : list N }.

Inductive outcome :=
| Halt
| Fault                                   (* a node outside [0..n): the bit vector access panics *)
| Next (c : cfg) (evs : list event).

(** One step of the machine, with the events of the [SeqPath] flavour. *)
Definition step (g : graph) (flt : vfilter) (c : cfg) : outcome :=
  match c_stack c with
  | [] =>
    match c_roots c with
    | [] => Halt
    | r :: rs =>
      if negb (r <? nlen g) then Fault
      else if memb r (c_known c) || negb (flt r r r 0) then
        Next (mkCfg rs (c_root c) [] (c_known c) (c_onst c)) []
      else
        Next (mkCfg rs r [(r, succs g r)] (r :: c_known c) (r :: c_onst c))
             [EInit r; EPre r r r 0]
    end
  | (u, rem) :: below =>
    let depth := nlen (c_stack c) in
    match rem with
    | v :: rem' =>
      if negb (v <? nlen g) then Fault
      else if memb v (c_known c) then
        Next (mkCfg (c_roots c) (c_root c) ((u, rem') :: below) (c_known c) (c_onst c))
             [ERev v u (c_root c) depth (memb v (c_onst c))]
      else if flt v u (c_root c) depth then
        Next (mkCfg (c_roots c) (c_root c) ((v, succs g v) :: (u, rem') :: below)
                    (v :: c_known c) (v :: c_onst c))
             [EPre v u (c_root c) depth]
      else
        Next (mkCfg (c_roots c) (c_root c) ((u, rem') :: below) (c_known c) (c_onst c)) []
    | [] =>
      let parent := match below with [] => u | (p, _) :: _ => p end in
      Next (mkCfg (c_roots c) (c_root c) below (c_known c) (remove N.eq_dec u (c_onst c)))
           (EPost u parent (c_root c) (depth - 1)
            :: match below with [] => [EDone (c_root c)] | _ => [] end)
    end
  end.

(** What the other two flavours show of an event: [SeqPred] has no on-stack plane, so the
    flag is always false; [SeqNoPred] has neither predecessors nor postvisits. *)
Definition ev_erase (fl : flavour) (e : event) : list event :=
  match fl with
  | Path => [e]
  | Pred => match e with ERev v p r d _ => [ERev v p r d false] | _ => [e] end
  | NoPred =>
    match e with
    | EInit _ | EDone _ => [e]
    | EPre v _ r d => [EPre v 0 r d]
    | ERev v _ r d _ => [ERev v 0 r d false]
    | EPost _ _ _ _ => []
    end
  end.

Inductive dfs_result :=
| DfsOk (evs : list event) (c : cfg)
| DfsOutOfFuel
| DfsOutOfRange (evs : list event).

Fixpoint run (fl : flavour) (g : graph) (flt : vfilter) (fuel : nat) (c : cfg) (acc : list event)
  : dfs_result :=
  match fuel with
  | O => DfsOutOfFuel
  | S f =>
    match step g flt c with
    | Halt => DfsOk acc c
    | Fault => DfsOutOfRange acc
    | Next c' evs => run fl g flt f c' (acc ++ flat_map (ev_erase fl) evs)
    end
  end.

(** fuel: one step per root, per arc scanned and per pop, plus the final test *)
Definition dfs_fuel (g : graph) (roots : list N) : nat :=
  length roots + length g + length (concat g) + 1.

Definition init_cfg (roots known onst : list N) : cfg := mkCfg roots 0 [] known onst.

(** one call of [visit_filtered] on a visit whose marks are [known]/[onst] ([] after
    [new] or [reset]) *)
Definition dfs (fl : flavour) (g : graph) (flt : vfilter) (roots known onst : list N) : dfs_result :=
  run fl g flt (dfs_fuel g roots) (init_cfg roots known onst) [].

(** a callback that breaks at the first event satisfying [p]: the events delivered *)
Fixpoint ev_upto (p : event -> bool) (evs : list event) : list event :=
  match evs with
  | [] => []
  | e :: r => if p e then [e] else e :: ev_upto p r
  end.

Definition pre_nodes (evs : list event) : list N :=
  flat_map (fun e => match e with EPre v _ _ _ => [v] | _ => [] end) evs.
Definition post_nodes (evs : list event) : list N :=
  flat_map (fun e => match e with EPost v _ _ _ => [v] | _ => [] end) evs.
Definition flagged (e : event) : bool :=
  match e with ERev _ _ _ _ true => true | _ => false end.

(** [top_sort]: [SeqPred] from the roots 0..n-1; [Postvisit] writes at decreasing positions
    of an array of n cells, so the result is the reversed postvisit order (that exactly n
    cells are written is [C14_top_sort_perm]) *)
Definition top_sort (g : graph) : option (list N) :=
  match dfs Pred g no_filter (nodes g) [] [] with
  | DfsOk evs _ => Some (rev (post_nodes evs))
  | _ => None
  end.

(** [is_acyclic]: [SeqPath] from the roots 0..n-1, interrupted at the first [Revisit] with
    [on_stack]; true iff the visit was not interrupted *)
Definition is_acyclic (g : graph) : option bool :=
  match dfs Path g no_filter (nodes g) [] [] with
  | DfsOk evs _ => Some (negb (existsb flagged evs))
  | _ => None
  end.

(** the [DfsOrder] iterator of [SeqPred]: (root, parent, node, depth) for every node, in
    previsit order — as specified: [root] is the root of the tree the node belongs to *)
Definition dfs_order_spec (g : graph) : option (list (N * N * N * N)) :=
  match dfs Pred g no_filter (nodes g) [] [] with
  | DfsOk evs _ =>
    Some (flat_map (fun e => match e with EPre v p r d => [(r, p, v, d)] | _ => [] end) evs)
  | _ => None
  end.

(** ... as implemented BEFORE the repair ("fix: DfsOrder reported the wrong root ..."):
    [DfsOrder::next] read [self.root] after it had been advanced past the root of the
    current tree, so every non-root node reported [root + 1].  Kept to state the
    refutation. *)
Definition dfs_order_prefix (g : graph) : option (list (N * N * N * N)) :=
  match dfs_order_spec g with
  | Some l =>
    Some (map (fun '(r, p, v, d) => (if d =? 0 then r else r + 1, p, v, d)) l)
  | None => None
  end.

(** the iterator as implemented now *)
Definition dfs_order (g : graph) : option (list (N * N * N * N)) := dfs_order_spec g.

(** the pure filters used by the harness: kind, two parameters *)
Definition dfs_filter (kind a b : N) : vfilter := fun node pred root depth =>
  if kind =? 1 then negb (node =? a)
  else if kind =? 2 then depth <? a
  else if kind =? 3 then negb ((node + 2 * pred) mod 3 =? a mod 3)
  else if kind =? 4 then negb ((node + root + depth) mod (a + 2) =? b mod (a + 2))
  else if kind =? 5 then node <? a
  else if kind =? 6 then negb (node =? a) && negb (node =? b)
  else true.

(** * Specification side: executable checkers *)

(** ** Replay automaton for event sequences with predecessors *)
Inductive phase := Idle | AfterInit (r : N) | Inside (r : N).
Record chk := mkChk { k_phase : phase; k_stack : list N; k_seen : list N }.

Definition hasarc (g : graph) (u v : N) : bool := memb v (succs g u).

(** [track]: the flavour keeps the on-stack plane (flag = target on the current path);
    otherwise the flag must be false *)
Definition chk_step (track : bool) (g : graph) (s : chk) (e : event) : option chk :=
  match e, k_phase s, k_stack s with
  | EInit r, Idle, [] =>
      if negb (memb r (k_seen s)) && (r <? nlen g) then Some (mkChk (AfterInit r) [] (k_seen s)) else None
  | EPre v p r d, AfterInit r0, [] =>
      if (v =? r0) && (p =? r0) && (r =? r0) && (d =? 0) && negb (memb v (k_seen s)) && (v <? nlen g)
      then Some (mkChk (Inside r0) [v] (v :: k_seen s)) else None
  | EPre v p r d, Inside r0, u :: st =>
      if (p =? u) && (r =? r0) && (d =? nlen (u :: st)) && hasarc g u v && negb (memb v (k_seen s))
         && (v <? nlen g)
      then Some (mkChk (Inside r0) (v :: u :: st) (v :: k_seen s)) else None
  | ERev v p r d os, Inside r0, u :: st =>
      if (p =? u) && (r =? r0) && (d =? nlen (u :: st)) && hasarc g u v && memb v (k_seen s)
         && Bool.eqb os (track && memb v (u :: st))
      then Some s else None
  | EPost v p r d, Inside r0, u :: st =>
      if (v =? u) && (p =? match st with [] => u | w :: _ => w end) && (r =? r0) && (d =? nlen st)
      then Some (mkChk (Inside r0) st (k_seen s)) else None
  | EDone r, Inside r0, [] =>
      if r =? r0 then Some (mkChk Idle [] (k_seen s)) else None
  | _, _, _ => None
  end.

Fixpoint chk_run (track : bool) (g : graph) (s : chk) (evs : list event) : option chk :=
  match evs with
  | [] => Some s
  | e :: r => match chk_step track g s e with Some s' => chk_run track g s' r | None => None end
  end.

(** a complete visit: starts and ends outside any tree *)
Definition wf_events (track : bool) (g : graph) (seen0 : list N) (evs : list event) : bool :=
  match chk_run track g (mkChk Idle [] seen0) evs with
  | Some (mkChk Idle [] _) => true
  | _ => false
  end.

(** a visit interrupted by the callback: any prefix *)
Definition wf_events_prefix (track : bool) (g : graph) (seen0 : list N) (evs : list event) : bool :=
  match chk_run track g (mkChk Idle [] seen0) evs with Some _ => true | None => false end.

(** ** Reachability by saturation, brute-force cycle test *)
Fixpoint add_all (xs acc : list N) : list N :=
  match xs with
  | [] => acc
  | x :: xs' => if memb x acc then add_all xs' acc else add_all xs' (x :: acc)
  end.

Definition expand (g : graph) (s : list N) : list N := add_all (flat_map (succs g) s) s.

Fixpoint closure (g : graph) (fuel : nat) (s : list N) : option (list N) :=
  match fuel with
  | O => None
  | S f =>
    let s' := expand g s in
    if (length s' =? length s)%nat then Some s else closure g f s'
  end.

(** nodes reachable from [u] by at least one arc *)
Definition reach_plus (g : graph) (u : N) : option (list N) :=
  closure g (S (length g)) (add_all (succs g u) []).

(** nodes reachable from a node of [us] by zero or more arcs *)
Definition reach_star (g : graph) (us : list N) : option (list N) :=
  closure g (S (length g)) (add_all us []).

Fixpoint any_opt (f : N -> option bool) (l : list N) : option bool :=
  match l with
  | [] => Some false
  | x :: l' =>
    match f x with
    | None => None
    | Some true => Some true
    | Some false => any_opt f l'
    end
  end.

Definition on_cycle (g : graph) (u : N) : option bool :=
  match reach_plus g u with Some s => Some (memb u s) | None => None end.

(** [None] only if the saturation ran out of fuel (never observed; treated as a failure) *)
Definition has_cycle_brute (g : graph) : option bool := any_opt (on_cycle g) (nodes g).

(** ** Topological order checker *)
Fixpoint arcs_forward (g : graph) (order : list N) : bool :=
  match order with
  | [] => true
  | u :: rest => forallb (fun v => memb v rest) (succs g u) && arcs_forward g rest
  end.

Definition is_perm_nodes (g : graph) (order : list N) : bool :=
  (length order =? length g)%nat && forallb (fun v => memb v order) (nodes g).

Definition check_topsort (g : graph) (order : list N) : bool :=
  is_perm_nodes g order && arcs_forward g order.


End DfsM.
Export DfsM.
