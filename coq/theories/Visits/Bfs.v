(** Breadth-first visits (webgraph/src/visits/breadth_first/{seq,par_fair,par_low_mem}.rs).
    Definitions only.

    A graph is the list of its successor lists; the successors of node [v] are
    [nth v g []].  The visited bit vector is the list of the nodes whose bit is set (only
    membership is ever observed).  A filter is a function of the node and of the distance
    ([FilterArgs*::{node,distance}]; filters that look at [pred] are outside the model).

    - [scan]: the discovery rule shared by every visit: a candidate enters the next
      level iff its visited bit is clear and the filter accepts it; it is then marked.
    - [bfs_levels]: the SPECIFICATION: level sets by iteration (L0 = unvisited accepted
      roots, L(k+1) = successors of L(k) not in earlier levels and accepted at distance k+1).
    - [bfs_seq]: the sequential visit [Seq::visit_filtered_with], mirroring the queue of
      [Option<node>] with [None] level separators and the event sequence.
    - [par_step]/[par_levels]: one level of [ParFair]/[ParLowMem] as a fold over an
      arbitrary interleaving of the (node, successor) scan steps of the frontier, with the
      semantics of [visited.swap(succ, true)]; the schedule is an explicit argument.
    - [bfs_order], [bfs_from_roots]: the iterators [BfsOrder] and [BfsOrderFromRoots]. *)
From WG Require Import Base.Prelude.

Module BfsM.
Local Open Scope N_scope.

Definition graph : Type := list (list N).
Definition succs (g : graph) (v : N) : list N := nth (N.to_nat v) g [].
Definition memb (v : N) (V : list N) : bool := existsb (N.eqb v) V.
(** node -> distance -> accepted *)
Definition filt : Type := N -> N -> bool.

Inductive event :=
| EInit
| EVisit (node pred dist : N)
| ERevisit (node pred : N)
| EFrontier (dist size : N)
| EDone.

(** * The discovery rule *)
(** [scan f d cand V] = (visited set after, newly discovered nodes in order of discovery) *)
Fixpoint scan (f : filt) (d : N) (cand : list N) (V : list N) : list N * list N :=
  match cand with
  | [] => (V, [])
  | s :: c =>
    if memb s V then scan f d c V
    else if f s d then let '(V', nw) := scan f d c (s :: V) in (V', s :: nw)
    else scan f d c V
  end.

(** * Specification: level sets by iteration *)
(** [L] is the level at distance [d] (already marked in [V]) *)
Fixpoint levels_from (fuel : nat) (g : graph) (f : filt) (d : N) (L V : list N)
  : list (list N) :=
  match fuel with
  | O => []
  | S fu =>
    match L with
    | [] => []
    | _ => let '(V', L') := scan f (d + 1) (flat_map (succs g) L) V in
           L :: levels_from fu g f (d + 1) L' V'
    end
  end.

Definition level_fuel (g : graph) (roots : list N) : nat :=
  S (length roots + length (concat g)).

(** the non-empty levels, in order of distance, of a visit from [roots] on a visitor
    whose visited set is [V] *)
Definition bfs_levels (g : graph) (f : filt) (roots V : list N) : list (list N) :=
  let '(V1, L0) := scan f 0 roots V in levels_from (level_fuel g roots) g f 0 L0 V1.

(** (node, distance) pairs of a list of levels starting at distance [d] *)
Fixpoint tag_levels (d : N) (Ls : list (list N)) : list (N * N) :=
  match Ls with
  | [] => []
  | L :: r => map (fun v => (v, d)) L ++ tag_levels (d + 1) r
  end.

Fixpoint level_sizes (d : N) (Ls : list (list N)) : list (N * N) :=
  match Ls with
  | [] => []
  | L :: r => (d, nlen L) :: level_sizes (d + 1) r
  end.

(** the visited set after the visit *)
Definition visited_after (Ls : list (list N)) (V : list N) : list N := concat Ls ++ V.

(** * Sequential visit *)
(** the loop over the successors of [p], extracted at distance [d - 1] *)
Fixpoint scan_ev (f : filt) (d p : N) (ss : list N) (V : list N)
  : list N * list N * list event :=
  match ss with
  | [] => (V, [], [])
  | s :: c =>
    if memb s V then
      let '(V', nw, ev) := scan_ev f d p c V in (V', nw, ERevisit s p :: ev)
    else if f s d then
      let '(V', nw, ev) := scan_ev f d p c (s :: V) in (V', s :: nw, EVisit s p d :: ev)
    else scan_ev f d p c V
  end.

(** the [while let Some(current_node) = queue.pop_front()] loop; [d] is the variable
    [distance]; one unit of fuel per pop *)
Fixpoint seq_loop (fuel : nat) (g : graph) (f : filt) (d : N) (q : list (option N))
  (V : list N) : list N * list event :=
  match fuel with
  | O => (V, [])
  | S fu =>
    match q with
    | [] => (V, [EDone])
    | Some v :: q' =>
      let '(V', nw, ev) := scan_ev f d v (succs g v) V in
      let '(V'', ev') := seq_loop fu g f d (q' ++ map Some nw) V' in
      (V'', ev ++ ev')
    | None :: q' =>
      match q' with
      | [] => (V, [EDone])
      | _ => let '(V', ev') := seq_loop fu g f (d + 1) (q' ++ [None]) V in
             (V', EFrontier d (nlen q') :: ev')
      end
    end
  end.

Definition seq_fuel (g : graph) (roots : list N) : nat :=
  2 * (length roots + length (concat g)) + 3.

(** [Seq::visit_filtered_with(roots, .., callback, filter)] on a visitor whose visited set
    is [V]: (visited set after, events passed to the callback) *)
Definition bfs_seq (g : graph) (f : filt) (roots V : list N) : list N * list event :=
  let '(V1, L0) := scan f 0 roots V in
  match L0 with
  | [] => (V1, [])
  | _ =>
    let '(V2, ev) := seq_loop (seq_fuel g roots) g f 1 (map Some L0 ++ [None]) V1 in
    (V2, EInit :: map (fun r => EVisit r r 0) L0 ++ EFrontier 0 (nlen L0) :: ev)
  end.

(** projections of an event sequence *)
Definition visits (ev : list event) : list (N * N * N) :=
  flat_map (fun e => match e with EVisit v p d => [(v, p, d)] | _ => [] end) ev.
Definition fronts (ev : list event) : list (N * N) :=
  flat_map (fun e => match e with EFrontier d s => [(d, s)] | _ => [] end) ev.
Definition node_dist (x : N * N * N) : N * N := let '(v, _, d) := x in (v, d).

(** * Parallel visits: one level under an explicit interleaving *)
(** the scan steps (frontier node, successor) of a frontier *)
Definition steps (g : graph) (L : list N) : list (N * N) :=
  flat_map (fun p => map (pair p) (succs g p)) L.

(** one filter-then-swap step: [if filter(succ) { if !visited.swap(succ, true) { push } }];
    the state is (visited, next frontier as (node, pred)) *)
Definition swap_step (f : filt) (d : N) (st : list N * list (N * N)) (ps : N * N)
  : list N * list (N * N) :=
  let '(V, nx) := st in
  let '(p, s) := ps in
  if f s d then (if memb s V then st else (s :: V, (s, p) :: nx)) else st.

Definition par_step (f : filt) (d : N) (sched : list (N * N)) (V : list N)
  : list N * list (N * N) :=
  fold_left (swap_step f d) sched (V, []).

(** the whole parallel visit: [sch d l] is the order in which the scan steps [l] of the
    frontier at distance [d] take effect *)
Fixpoint par_from (fuel : nat) (g : graph) (f : filt)
  (sch : N -> list (N * N) -> list (N * N)) (d : N) (P : list (N * N)) (V : list N)
  : list (list (N * N)) :=
  match fuel with
  | O => []
  | S fu =>
    match P with
    | [] => []
    | _ => let '(V', P') := par_step f (d + 1) (sch d (steps g (map fst P))) V in
           P :: par_from fu g f sch (d + 1) P' V'
    end
  end.

(** levels of (node, pred) *)
Definition par_levels (g : graph) (f : filt) (sch : N -> list (N * N) -> list (N * N))
  (roots V : list N) : list (list (N * N)) :=
  let '(V1, L0) := scan f 0 roots V in
  par_from (level_fuel g roots) g f sch 0 (map (fun r => (r, r)) L0) V1.

(** * The iterators *)
Definition no_filter : filt := fun _ _ => true.

(** [BfsOrder]: for each node in increasing order that is still unvisited, a visit from
    that root; items are (root, parent, node, distance) *)
Fixpoint order_from (g : graph) (fuel : nat) (rs : list N) (V : list N)
  : list (N * N * N * N) :=
  match rs with
  | [] => []
  | r :: rs' =>
    if memb r V then order_from g fuel rs' V
    else
      let '(V', ev) := seq_loop fuel g no_filter 1 [Some r; None] (r :: V) in
      (r, r, r, 0) :: map (fun '(v, p, d) => (r, p, v, d)) (visits ev)
        ++ order_from g fuel rs' V'
  end.

Definition bfs_order (g : graph) : list (N * N * N * N) :=
  order_from g (seq_fuel g [0]) (nseq 0 (length g)) [].

(** [BfsOrderFromRoots] (after the repair: a root listed twice is returned once); [None]
    is the error returned for an empty root list; items are (parent, node, distance).
    The code scans the successors of the first root a second time when it pops that root
    from the queue; every one of them is visited by then, so nothing is produced. *)
Definition bfs_from_roots (g : graph) (roots : list N) : option (list (N * N * N)) :=
  match roots with
  | [] => None
  | _ =>
    let '(V1, L0) := scan no_filter 0 roots [] in
    let '(_, ev) := seq_loop (seq_fuel g roots) g no_filter 1 (map Some L0 ++ [None]) V1 in
    Some (map (fun r => (r, r, 0)) L0 ++ map (fun '(v, p, d) => (p, v, d)) (visits ev))
  end.

(** * Reachability through accepted nodes (for filters that ignore the distance) *)
(** [reach g ok roots k v]: there is a walk of [k] arcs from a root to [v] all of whose
    nodes satisfy [ok] *)
Inductive reach (g : graph) (ok : N -> bool) (roots : list N) : nat -> N -> Prop :=
| reach_root r : In r roots -> ok r = true -> reach g ok roots O r
| reach_step k u v : reach g ok roots k u -> In v (succs g u) -> ok v = true ->
                     reach g ok roots (S k) v.

(** [k] is the length of a shortest such walk *)
Definition dist_is (g : graph) (ok : N -> bool) (roots : list N) (v : N) (k : nat) : Prop :=
  reach g ok roots k v /\ forall j, (j < k)%nat -> ~ reach g ok roots j v.


End BfsM.
Export BfsM.
