(** Without filter and from fresh marks, a visit previsits exactly the nodes reachable
    from its roots, each once. *)
From WG Require Import Base.Prelude Visits.Dfs Visits.DfsStatements Visits.DfsFacts Visits.DfsWfFacts
  Visits.DfsTopoFacts Visits.DfsCheckFacts.
From Coq Require Import ZifyBool ZifyN ZifyNat Relations.
Local Open Scope N_scope.

Record cinv (g : graph) (roots0 : list N) (c : cfg) : Prop := mkCinv {
  ci_s : sinv g c;
  ci_r : forall r, In r (c_roots c) -> In r roots0;
  ci_a : forall v, In v (c_known c) -> exists r, In r roots0 /\ rpath g r v;
  ci_1 : forall u, In u (c_known c) ->
         In u (stack_nodes c) \/ forall v, arc g u v -> In v (c_known c);
  ci_2 : Forall (fun f => forall v, arc g (fst f) v -> In v (snd f) \/ In v (c_known c)) (c_stack c) }.

Lemma cinv_step g roots0 c c' evs :
  cinv g roots0 c -> stepR g no_filter c c' evs -> cinv g roots0 c'.
Proof.
  intros [Hs Hr Ha H1 H2] Hst.
  pose proof (sinv_step _ _ _ _ _ Hs Hst) as Hs'.
  destruct Hs as [Ssub Snd Son Srem Sch].
  destruct Hst as [r rs root known onst Hr0 Hkn | r rs root known onst Hr0 Hkn Hf
                | roots root u v rem below known onst Hv Hkn
                | roots root u v rem below known onst Hv Hkn Hf
                | roots root u v rem below known onst Hv Hkn Hf
                | roots root u below known onst];
    unfold stack_nodes in *; cbn [c_stack c_known c_onst c_roots map fst] in *.
  - constructor; unfold stack_nodes; cbn [c_stack c_known c_onst c_roots map fst]; try assumption.
    intros x Hx. apply Hr. right. exact Hx.
  - constructor; unfold stack_nodes; cbn [c_stack c_known c_onst c_roots map fst].
    + exact Hs'.
    + intros x Hx. apply Hr. right. exact Hx.
    + intros x [Hx|Hx]; [|apply Ha; exact Hx]. subst x. exists r. split; [apply Hr; left; reflexivity|apply rt1n_refl].
    + intros x [Hx|Hx]; [left; left; exact Hx|]. right. intros y Hy.
      destruct (H1 x Hx) as [[]|H]. right. apply H. exact Hy.
    + constructor; [|constructor]. cbn [fst snd]. intros y Hy. left. exact Hy.
  - inversion H2 as [|f l Hf Hl]; subst. cbn [fst snd] in Hf.
    constructor; unfold stack_nodes; cbn [c_stack c_known c_onst c_roots map fst]; try assumption.
    constructor; [|exact Hl]. cbn [fst snd]. intros y Hy.
    destruct (Hf y Hy) as [[Hyv|Hyr]|Hyk]; [subst y; right; apply memb_In; exact Hkn|left; exact Hyr|right; exact Hyk].
  - inversion H2 as [|f l Hf0 Hl]; subst. cbn [fst snd] in Hf0.
    inversion Srem as [|f l Hrm Hrl]; subst. cbn [fst snd] in Hrm.
    constructor; unfold stack_nodes; cbn [c_stack c_known c_onst c_roots map fst].
    + exact Hs'.
    + exact Hr.
    + intros x [Hx|Hx]; [|apply Ha; exact Hx]. subst x.
      destruct (Ha u (Ssub u (or_introl eq_refl))) as [r [Hr1 Hr2]]. exists r. split; [exact Hr1|].
      apply rpath_snoc with u; [exact Hr2|]. apply Hrm. left. reflexivity.
    + intros x [Hx|Hx]; [left; left; exact Hx|].
      destruct (H1 x Hx) as [H|H]; [left; right; exact H|]. right. intros y Hy. right. apply H. exact Hy.
    + constructor; [cbn [fst snd]; intros y Hy; left; exact Hy|].
      constructor.
      * cbn [fst snd]. intros y Hy.
        destruct (Hf0 y Hy) as [[Hyv|Hyr]|Hyk]; [subst y; right; left; reflexivity|left; exact Hyr|right; right; exact Hyk].
      * apply Forall_impl with (2 := Hl). intros f Hf1 y Hy.
        destruct (Hf1 y Hy) as [H|H]; [left; exact H|right; right; exact H].
  - unfold no_filter in Hf. discriminate.
  - inversion H2 as [|f l Hf0 Hl]; subst. cbn [fst snd] in Hf0.
    constructor; unfold stack_nodes; cbn [c_stack c_known c_onst c_roots map fst]; try assumption.
    intros x Hx. destruct (H1 x Hx) as [[H|H]|H].
    + subst x. right. intros y Hy. destruct (Hf0 y Hy) as [[]|H]. exact H.
    + left. exact H.
    + right. exact H.
Qed.

Lemma pre_nodes_erase fl evs : pre_nodes (flat_map (ev_erase fl) evs) = pre_nodes evs.
Proof.
  induction evs as [|e evs IH]; [reflexivity|].
  cbn [flat_map]. rewrite pre_nodes_app.
  change (e :: evs) with ([e] ++ evs). rewrite (pre_nodes_app [e] evs), IH. f_equal.
  destruct fl, e; reflexivity.
Qed.

Lemma spanning_path g roots evs cf :
  dfs Path g no_filter roots [] [] = DfsOk evs cf ->
  NoDup (pre_nodes evs)
  /\ forall v, In v (pre_nodes evs) <-> exists r, In r roots /\ rpath g r v.
Proof.
  intros Hrun.
  destruct (events_nested Path g no_filter roots [] evs cf ltac:(discriminate) Hrun) as [Hwf [Hkn _]].
  destruct (wf_events_sound _ g [] evs (NoDup_nil _) Hwf) as [Hnd _].
  split; [exact Hnd|].
  unfold dfs in Hrun.
  assert (H0 : cinv g roots (init_cfg roots [] [])).
  { constructor; unfold init_cfg, stack_nodes; cbn [c_stack c_known c_roots map].
    - apply sinv_init.
    - tauto.
    - intros v [].
    - intros v [].
    - constructor. }
  destruct (run_inv Path g no_filter (fun c _ => cinv g roots c)
              (fun c acc c' e H Hst => cinv_step g roots c c' e H Hst) _ _ _ _ _ H0 Hrun)
    as [[_ _ Ha H1 _] [He _]].
  assert (Hcov : forall r, In r roots -> In r (c_known cf)).
  { assert (Hi : forall r, In r roots ->
                 In r (c_roots (init_cfg roots [] [])) \/ In r (c_known (init_cfg roots [] []))).
    { intros r Hr. left. exact Hr. }
    apply (roots_covered Path g roots _ _ _ _ _ Hi Hrun). }
  rewrite app_nil_r in Hkn.
  assert (Hcl : closed g (c_known cf)).
  { intros u v Hu Huv. destruct (H1 u Hu) as [H|H]; [|apply H; exact Huv].
    unfold stack_nodes in H. rewrite He in H. destruct H. }
  intros v. split.
  - intros Hv. apply Ha. rewrite Hkn. apply in_rev in Hv. exact Hv.
  - intros [r [Hr Hp]]. apply in_rev. rewrite <- Hkn.
    apply (closed_rpath g _ r v Hcl Hp). apply Hcov. exact Hr.
Qed.

Theorem spanning : S_spanning.
Proof.
  intros fl g roots evs cf Hrun. rewrite (dfs_erase fl) in Hrun.
  destruct (dfs Path g no_filter roots [] []) as [evs0 cf0| |] eqn:Hp; try discriminate.
  cbn [map_result] in Hrun. inversion Hrun; subst. rewrite pre_nodes_erase.
  apply (spanning_path g roots evs0 cf Hp).
Qed.
