(** [top_sort] returns a permutation; [is_acyclic] is exact; on acyclic graphs the
    reversed postvisit order is topological. *)
From WG Require Import Base.Prelude Visits.Dfs Visits.DfsStatements Visits.DfsFacts Visits.DfsWfFacts.
From Coq Require Import ZifyBool ZifyN ZifyNat Relations.
Local Open Scope N_scope.

(** * Paths *)
Lemma tpath_snoc g a b c : tpath g a b -> arc g b c -> tpath g a c.
Proof.
  unfold tpath. intros H. induction H as [x y Hxy|x y z Hxy Hyz IH]; intros Hc.
  - apply Relation_Operators.t1n_trans with (y := y); [exact Hxy|]. apply t1n_step. exact Hc.
  - apply Relation_Operators.t1n_trans with (y := y); [exact Hxy|]. apply IH. exact Hc.
Qed.

Lemma chain_path g l u w : chain g (u :: l) -> In w (u :: l) -> w = u \/ tpath g w u.
Proof.
  revert u. induction l as [|b l IH]; intros u Hc Hin.
  - destruct Hin as [H|[]]. left. symmetry. exact H.
  - destruct Hin as [H|Hin]; [left; symmetry; exact H|].
    cbn [chain] in Hc. destruct Hc as [Hbu Hc]. right.
    destruct (IH b Hc Hin) as [He|Hp].
    + subst w. apply t1n_step. exact Hbu.
    + apply tpath_snoc with b; assumption.
Qed.

(** * A topological order certifies acyclicity *)
Lemma topo_path g order :
  topo_order g order ->
  forall u v, tpath g u v -> forall l1 l2, order = l1 ++ u :: l2 -> In v l2.
Proof.
  intros Ht u v H. induction H as [x y Hxy|x y z Hxy Hyz IH]; intros l1 l2 He.
  - apply (Ht l1 x l2 He). exact Hxy.
  - pose proof (Ht l1 x l2 He y Hxy) as Hy.
    destruct (in_split _ _ Hy) as [a [b Hab]]. subst l2.
    assert (He' : order = (l1 ++ x :: a) ++ y :: b).
    { rewrite He. rewrite <- app_assoc. reflexivity. }
    pose proof (IH _ _ He') as Hz. apply in_or_app. right. right. exact Hz.
Qed.

Theorem topo_order_acyclic : S_topo_order_acyclic.
Proof.
  intros g order Hperm Ht u Hcyc.
  assert (Hu : u < nlen g).
  { unfold tpath in Hcyc. inversion Hcyc as [y Huy|y z Huy Hrest]; subst; eapply succs_lt; exact Huy. }
  assert (Hin : In u order).
  { apply Permutation_in with (nodes g); [apply Permutation_sym; exact Hperm|]. apply nodes_In. exact Hu. }
  destruct (in_split _ _ Hin) as [l1 [l2 He]].
  pose proof (topo_path g order Ht u u Hcyc l1 l2 He) as Hl2.
  assert (Hnd : NoDup order).
  { apply Permutation_NoDup with (nodes g); [apply Permutation_sym; exact Hperm|apply nodes_NoDup]. }
  rewrite He in Hnd. apply NoDup_remove_2 in Hnd. apply Hnd. apply in_or_app. right. exact Hl2.
Qed.

(** * The full visit previsits and postvisits every node once *)
Lemma roots_covered fl g roots0 fuel c acc evs cf :
  (forall r, In r roots0 -> In r (c_roots c) \/ In r (c_known c)) ->
  run fl g no_filter fuel c acc = DfsOk evs cf ->
  forall r, In r roots0 -> In r (c_known cf).
Proof.
  intros H0 Hrun.
  set (P := fun (c : cfg) (_ : list event) =>
              forall r, In r roots0 -> In r (c_roots c) \/ In r (c_known c)).
  assert (Hstep : forall c acc c' evs, P c acc -> stepR g no_filter c c' evs ->
                                       P c' (acc ++ flat_map (ev_erase fl) evs)).
  { clear. intros c acc c' evs HP Hst r Hr. specialize (HP r Hr).
    destruct Hst as [r1 rs root known onst Hr0 Hkn | r1 rs root known onst Hr0 Hkn Hf
                | roots root u v rem below known onst Hv Hkn
                | roots root u v rem below known onst Hv Hkn Hf
                | roots root u v rem below known onst Hv Hkn Hf
                | roots root u below known onst];
      cbn [c_roots c_known In] in *; try tauto.
    unfold no_filter in Hkn. cbn [negb] in Hkn. rewrite orb_false_r in Hkn.
    apply memb_In in Hkn. destruct HP as [[He|HP]|HP]; [subst; tauto|tauto|tauto]. }
  destruct (run_inv fl g no_filter P Hstep fuel c acc evs cf H0 Hrun) as [Hf [_ Hr0]].
  intros r Hr. destruct (Hf r Hr) as [H|H]; [rewrite Hr0 in H; destruct H|exact H].
Qed.

Lemma full_visit_perm fl g evs cf :
  fl <> NoPred -> gwf g = true ->
  dfs fl g no_filter (nodes g) [] [] = DfsOk evs cf ->
  Permutation (post_nodes evs) (nodes g) /\ Permutation (pre_nodes evs) (nodes g).
Proof.
  intros Hfl Hw Hrun.
  destruct (events_nested fl g no_filter (nodes g) [] evs cf Hfl Hrun) as [Hwf [Hkn _]].
  destruct (wf_events_sound _ g [] evs (NoDup_nil _) Hwf) as [Hnd [Hlt [Hperm _]]].
  assert (Hpre : Permutation (pre_nodes evs) (nodes g)).
  { apply NoDup_Permutation; [exact Hnd|apply nodes_NoDup|].
    intros x. split.
    - intros Hx. apply nodes_In. apply (Hlt x Hx).
    - intros Hx. unfold dfs in Hrun.
      assert (H0 : forall r, In r (nodes g) ->
                In r (c_roots (init_cfg (nodes g) [] [])) \/ In r (c_known (init_cfg (nodes g) [] []))).
      { intros r Hr. left. exact Hr. }
      pose proof (roots_covered fl g (nodes g) _ _ _ _ _ H0 Hrun x Hx) as Hk.
      rewrite Hkn, app_nil_r in Hk. apply in_rev in Hk. exact Hk. }
  split; [|exact Hpre]. apply perm_trans with (pre_nodes evs); assumption.
Qed.

Theorem top_sort_perm : S_top_sort_perm.
Proof.
  intros g Hw. unfold top_sort.
  destruct (fuel_suffices Pred g no_filter (nodes g) [] []) as [_ Htot].
  destruct (Htot Hw (fun r Hr => proj1 (nodes_In g r) Hr)) as [evs [cf [Hrun _]]].
  rewrite Hrun. eexists. split; [reflexivity|].
  destruct (full_visit_perm Pred g evs cf ltac:(discriminate) Hw Hrun) as [Hp _].
  apply perm_trans with (post_nodes evs); [apply Permutation_sym; apply Permutation_rev|exact Hp].
Qed.

(** * The arc invariant of a depth-first visit *)
Definition Fl (acc : list event) : Prop := existsb flagged acc = true.

Lemma Fl_app a b : Fl (a ++ b) <-> Fl a \/ Fl b.
Proof. unfold Fl. rewrite existsb_app, orb_true_iff. tauto. Qed.

(** every successor of a node of a frame is still to be scanned, or finished, or above the
    node on the path ([D] collects finished nodes and nodes above), unless a revisit was
    flagged *)
Fixpoint t2 (g : graph) (F : Prop) (D : list N) (stk : list (N * list N)) : Prop :=
  match stk with
  | [] => True
  | (u, rem) :: below =>
    (forall v, arc g u v -> In v rem \/ In v D \/ F) /\ t2 g F (u :: D) below
  end.

Lemma t2_mono g (F F' : Prop) stk : forall D D',
  t2 g F D stk -> incl D D' -> (F -> F') -> t2 g F' D' stk.
Proof.
  induction stk as [|[u rem] below IH]; intros D D' H Hi HF; [exact I|].
  cbn [t2] in *. destruct H as [Hh Ht]. split.
  - intros v Hv. destruct (Hh v Hv) as [H|[H|H]]; [tauto|right; left; apply Hi; exact H|tauto].
  - apply IH with (u :: D); [exact Ht| |exact HF].
    intros x [Hx|Hx]; [left; exact Hx|right; apply Hi; exact Hx].
Qed.

Definition T1 (g : graph) (F : Prop) (posts : list N) : Prop :=
  forall l1 u l2, posts = l1 ++ u :: l2 -> forall v, arc g u v -> In v l1 \/ F.

Lemma T1_snoc g F posts u :
  T1 g F posts -> (forall v, arc g u v -> In v posts \/ F) -> T1 g F (posts ++ [u]).
Proof.
  intros H Hu l1 x l2 He v Hv.
  destruct (exists_last (l := x :: l2) ltac:(discriminate)) as [l2' [y Hy]].
  destruct l2' as [|x' l2'].
  - cbn [app] in Hy. inversion Hy; subst.
    apply app_inj_tail in He. destruct He as [He1 He2]. subst. apply Hu. exact Hv.
  - cbn [app] in Hy. inversion Hy; subst.
    assert (He' : posts ++ [u] = (l1 ++ x' :: l2') ++ [y]).
    { rewrite He. rewrite <- app_assoc. reflexivity. }
    apply app_inj_tail in He'. destruct He' as [He1 He2].
    apply (H l1 x' l2' He1 v Hv).
Qed.

Record tinv (g : graph) (c : cfg) (acc : list event) : Prop := mkTinv {
  ti_s : sinv g c;
  ti_k : forall v, In v (c_known c) -> In v (stack_nodes c) \/ In v (post_nodes acc);
  ti_1 : T1 g (Fl acc) (post_nodes acc);
  ti_2 : t2 g (Fl acc) (post_nodes acc) (c_stack c);
  ti_c : Fl acc -> exists u, tpath g u u }.

Lemma tinv_step g c acc c' evs :
  tinv g c acc -> stepR g no_filter c c' evs -> tinv g c' (acc ++ flat_map (ev_erase Path) evs).
Proof.
  intros [Hs Hk H1 H2 Hc] Hst. rewrite erase_path.
  pose proof (sinv_step _ _ _ _ _ Hs Hst) as Hs'.
  destruct Hs as [Ssub Snd Son Srem Sch].
  destruct Hst as [r rs root known onst Hr0 Hkn | r rs root known onst Hr0 Hkn Hf
                | roots root u v rem below known onst Hv Hkn
                | roots root u v rem below known onst Hv Hkn Hf
                | roots root u v rem below known onst Hv Hkn Hf
                | roots root u below known onst];
    unfold stack_nodes in *; cbn [c_stack c_known c_onst map fst] in *.
  - rewrite app_nil_r. constructor; unfold stack_nodes; cbn [c_stack c_known c_onst map fst]; assumption.
  - assert (Hp : post_nodes (acc ++ [EInit r; EPre r r r 0]) = post_nodes acc).
    { rewrite post_nodes_app. cbn [post_nodes flat_map app]. apply app_nil_r. }
    assert (HF : Fl (acc ++ [EInit r; EPre r r r 0]) <-> Fl acc).
    { rewrite Fl_app. unfold Fl at 2. cbn [existsb flagged orb]. intuition discriminate. }
    constructor; unfold stack_nodes; cbn [c_stack c_known c_onst map fst]; rewrite ?Hp.
    + exact Hs'.
    + intros x [Hx|Hx]; [left; left; exact Hx|]. destruct (Hk x Hx) as [[]|H]. right. exact H.
    + intros l1 u l2 He v Hv. rewrite HF. apply (H1 l1 u l2 He v Hv).
    + cbn [t2]. split; [|exact I]. intros v Hv. left. exact Hv.
    + rewrite HF. exact Hc.
  - set (e := ERev v u root (nlen ((u, v :: rem) :: below)) (memb v onst)).
    assert (Hp : post_nodes (acc ++ [e]) = post_nodes acc).
    { rewrite post_nodes_app. cbn [post_nodes flat_map app]. apply app_nil_r. }
    assert (HF : Fl (acc ++ [e]) <-> Fl acc \/ memb v onst = true).
    { rewrite Fl_app. unfold Fl at 2. subst e. cbn [existsb flagged].
      destruct (memb v onst); cbn [orb]; intuition discriminate. }
    inversion Srem as [|f l Hf Hl]; subst. cbn [fst snd] in Hf.
    constructor; unfold stack_nodes; cbn [c_stack c_known c_onst map fst]; rewrite ?Hp.
    + exact Hs'.
    + exact Hk.
    + intros l1 x l2 He y Hy. destruct (H1 l1 x l2 He y Hy) as [H|H]; [left; exact H|].
      right. apply HF. left. exact H.
    + cbn [t2] in *. destruct H2 as [Hh Ht]. split.
      * intros y Hy. destruct (Hh y Hy) as [[Hyv|Hyr]|[Hyp|HyF]].
        -- subst y. destruct (memb v onst) eqn:Hon.
           ++ right. right. apply HF. right. reflexivity.
           ++ right. left. apply memb_false in Hon. apply memb_In in Hkn.
              destruct (Hk v Hkn) as [Hst|Hpo]; [|exact Hpo].
              exfalso. apply Hon. apply Son. exact Hst.
        -- left. exact Hyr.
        -- right. left. exact Hyp.
        -- right. right. apply HF. left. exact HyF.
      * apply t2_mono with (Fl acc) (u :: post_nodes acc); [exact Ht|apply incl_refl|].
        intros H. apply HF. left. exact H.
    + intros HF'. apply HF in HF'. destruct HF' as [H|Hon]; [apply Hc; exact H|].
      apply memb_In in Hon. apply Son in Hon.
      assert (Huv : arc g u v) by (apply Hf; left; reflexivity).
      destruct (chain_path g (map fst below) u v Sch Hon) as [He|Hp'].
      * subst v. exists u. apply t1n_step. exact Huv.
      * exists v. apply tpath_snoc with u; assumption.
  - set (e := EPre v u root (nlen ((u, v :: rem) :: below))).
    assert (Hp : post_nodes (acc ++ [e]) = post_nodes acc).
    { rewrite post_nodes_app. cbn [post_nodes flat_map app]. apply app_nil_r. }
    assert (HF : Fl (acc ++ [e]) <-> Fl acc).
    { rewrite Fl_app. unfold Fl at 2. cbn [existsb flagged orb]. intuition discriminate. }
    constructor; unfold stack_nodes; cbn [c_stack c_known c_onst map fst]; rewrite ?Hp.
    + exact Hs'.
    + intros x [Hx|Hx]; [left; left; exact Hx|].
      destruct (Hk x Hx) as [H|H]; [left; right; exact H|right; exact H].
    + intros l1 x l2 He y Hy. rewrite HF. apply (H1 l1 x l2 He y Hy).
    + cbn [t2] in *. destruct H2 as [Hh Ht]. split; [intros y Hy; left; exact Hy|]. split.
      * intros y Hy. rewrite HF. destruct (Hh y Hy) as [[Hyv|Hyr]|[Hyp|HyF]].
        -- subst y. right. left. left. reflexivity.
        -- left. exact Hyr.
        -- right. left. right. exact Hyp.
        -- right. right. exact HyF.
      * apply t2_mono with (Fl acc) (u :: post_nodes acc); [exact Ht| |apply HF].
        intros x [Hx|Hx]; [left; exact Hx|right; right; exact Hx].
    + rewrite HF. exact Hc.
  - unfold no_filter in Hf. discriminate.
  - set (tail := match below with [] => [EDone root] | _ :: _ => [] end).
    set (e := EPost u (match below with [] => u | (p, _) :: _ => p end) root
                    (nlen ((u, @nil N) :: below) - 1)).
    assert (Hp : post_nodes (acc ++ e :: tail) = post_nodes acc ++ [u]).
    { rewrite post_nodes_app. f_equal. subst e tail. destruct below; reflexivity. }
    assert (HF : Fl (acc ++ e :: tail) <-> Fl acc).
    { rewrite Fl_app. unfold Fl at 2. subst e tail.
      destruct below; cbn [existsb flagged orb]; intuition discriminate. }
    cbn [t2] in H2. destruct H2 as [Hh Ht].
    constructor; unfold stack_nodes; cbn [c_stack c_known c_onst map fst]; rewrite ?Hp.
    + exact Hs'.
    + intros x Hx. destruct (Hk x Hx) as [[H|H]|H].
      * subst x. right. apply in_or_app. right. left. reflexivity.
      * left. exact H.
      * right. apply in_or_app. left. exact H.
    + apply T1_snoc.
      * intros l1 x l2 He y Hy. rewrite HF. apply (H1 l1 x l2 He y Hy).
      * intros y Hy. rewrite HF. destruct (Hh y Hy) as [[]|[H|H]]; tauto.
    + apply t2_mono with (Fl acc) (u :: post_nodes acc); [exact Ht| |apply HF].
      intros x [Hx|Hx]; apply in_or_app; [right; left; exact Hx|left; exact Hx].
    + rewrite HF. exact Hc.
Qed.

Lemma tinv_init g roots : tinv g (init_cfg roots [] []) [].
Proof.
  constructor.
  - apply sinv_init.
  - intros v [].
  - intros l1 u l2 He. destruct l1; discriminate.
  - exact I.
  - unfold Fl. cbn [existsb]. discriminate.
Qed.

(** the arc invariant at the end of a complete unfiltered visit from fresh marks *)
Lemma dfs_path_final g roots evs cf :
  dfs Path g no_filter roots [] [] = DfsOk evs cf ->
  T1 g (Fl evs) (post_nodes evs) /\ (Fl evs -> exists u, tpath g u u).
Proof.
  intros Hrun. unfold dfs in Hrun.
  destruct (run_inv Path g no_filter (tinv g) (tinv_step g) _ _ _ _ _ (tinv_init g roots) Hrun)
    as [[_ _ H1 _ Hc] _].
  split; assumption.
Qed.

Lemma T1_topo g posts : T1 g False posts -> topo_order g (rev posts).
Proof.
  intros H l1 u l2 He v Hv.
  assert (Hp : posts = rev l2 ++ u :: rev l1).
  { rewrite <- (rev_involutive posts), He, rev_app_distr. cbn [rev]. rewrite <- app_assoc. reflexivity. }
  destruct (H _ _ _ Hp v Hv) as [Hin|[]]. apply in_rev. exact Hin.
Qed.

Lemma acyclic_run g evs cf :
  gwf g = true ->
  dfs Path g no_filter (nodes g) [] [] = DfsOk evs cf ->
  (existsb flagged evs = false ->
   Permutation (rev (post_nodes evs)) (nodes g) /\ topo_order g (rev (post_nodes evs)))
  /\ (existsb flagged evs = true -> exists u, tpath g u u).
Proof.
  intros Hw Hrun. destruct (dfs_path_final g _ _ _ Hrun) as [H1 Hc]. split.
  - intros Hf. split.
    + destruct (full_visit_perm Path g evs cf ltac:(discriminate) Hw Hrun) as [Hp _].
      apply perm_trans with (post_nodes evs); [apply Permutation_sym; apply Permutation_rev|exact Hp].
    + apply T1_topo. intros l1 u l2 He v Hv. destruct (H1 l1 u l2 He v Hv) as [H|H]; [left; exact H|].
      unfold Fl in H. congruence.
  - exact Hc.
Qed.

Theorem acyclic_sound : S_acyclic_sound.
Proof.
  intros g Hw Ha. unfold is_acyclic in Ha.
  destruct (dfs Path g no_filter (nodes g) [] []) as [evs cf| |] eqn:Hrun; try discriminate.
  inversion Ha as [Hb]. apply negb_true_iff in Hb.
  destruct (acyclic_run g evs cf Hw Hrun) as [Hs _]. destruct (Hs Hb) as [Hp Ht].
  apply (topo_order_acyclic g _ Hp Ht).
Qed.

Theorem acyclic_complete : S_acyclic_complete.
Proof.
  intros g Hw Ha. unfold is_acyclic in Ha.
  destruct (dfs Path g no_filter (nodes g) [] []) as [evs cf| |] eqn:Hrun; try discriminate.
  inversion Ha as [Hb]. apply negb_false_iff in Hb.
  destruct (acyclic_run g evs cf Hw Hrun) as [_ Hc]. apply Hc. exact Hb.
Qed.

Theorem acyclic_iff : S_acyclic_iff.
Proof.
  intros g Hw.
  destruct (fuel_suffices Path g no_filter (nodes g) [] []) as [_ Htot].
  destruct (Htot Hw (fun r Hr => proj1 (nodes_In g r) Hr)) as [evs [cf [Hrun _]]].
  assert (Ha : is_acyclic g = Some (negb (existsb flagged evs))).
  { unfold is_acyclic. rewrite Hrun. reflexivity. }
  exists (negb (existsb flagged evs)). split; [exact Ha|]. split.
  - intros Hb. apply acyclic_sound; [exact Hw|]. rewrite Ha, Hb. reflexivity.
  - intros Hac. destruct (existsb flagged evs) eqn:Hf; [|reflexivity]. exfalso.
    destruct (acyclic_complete g Hw) as [u Hu]; [rewrite Ha; reflexivity|].
    apply (Hac u Hu).
Qed.

Lemma post_nodes_erase_pred evs : post_nodes (flat_map (ev_erase Pred) evs) = post_nodes evs.
Proof.
  induction evs as [|e evs IH]; [reflexivity|].
  cbn [flat_map]. rewrite post_nodes_app.
  change (e :: evs) with ([e] ++ evs). rewrite (post_nodes_app [e] evs), IH. f_equal.
  destruct e; reflexivity.
Qed.

Theorem top_sort_valid : S_top_sort_valid.
Proof.
  intros g Hw Hac.
  destruct (fuel_suffices Path g no_filter (nodes g) [] []) as [_ Htot].
  destruct (Htot Hw (fun r Hr => proj1 (nodes_In g r) Hr)) as [evs [cf [Hrun _]]].
  assert (Hf : existsb flagged evs = false).
  { destruct (existsb flagged evs) eqn:Hf; [|reflexivity]. exfalso.
    destruct (acyclic_run g evs cf Hw Hrun) as [_ Hc]. destruct (Hc Hf) as [u Hu]. apply (Hac u Hu). }
  destruct (acyclic_run g evs cf Hw Hrun) as [Hs _]. destruct (Hs Hf) as [Hp Ht].
  unfold top_sort. rewrite (dfs_erase Pred), Hrun. cbn [map_result].
  rewrite post_nodes_erase_pred. eexists. split; [reflexivity|]. split; assumption.
Qed.
