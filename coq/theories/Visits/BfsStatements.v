(** Pinned statements of C13 (breadth-first visits).  Statements only. *)
From WG Require Import Base.Prelude Visits.Bfs.
Local Open Scope N_scope.

(** The specification levels are duplicate-free, pairwise disjoint and avoid the nodes
    that were already visited (so: at most one visit per node, none for a node visited by
    an earlier visit on the same un-reset visitor). *)
Definition S_levels_once : Prop :=
  forall (g : graph) (f : filt) (roots V : list N),
    let Ls := bfs_levels g f roots V in
    NoDup (concat Ls) /\ (forall v, In v (concat Ls) -> ~ In v V) /\ ~ In [] Ls.

(** The sequential visit [Seq::visit_filtered_with]: its [Visit] events are, in order,
    exactly the nodes of the specification levels with the level index as distance; its
    [FrontierSize] events are exactly the level sizes; every predecessor is the node itself
    at distance 0 and otherwise a node of the previous level of which the node is a
    successor; the visited set afterwards is the old one plus the levels. *)
Definition S_seq_levels : Prop :=
  forall (g : graph) (f : filt) (roots V : list N),
    let ev := snd (bfs_seq g f roots V) in
    let Ls := bfs_levels g f roots V in
    map node_dist (visits ev) = tag_levels 0 Ls
    /\ fronts ev = level_sizes 0 Ls
    /\ (forall v p d, In (v, p, d) (visits ev) ->
          (d = 0 /\ p = v /\ In v roots)
          \/ (exists d', d = d' + 1 /\ In (p, d') (tag_levels 0 Ls) /\ In v (succs g p)))
    /\ (forall v, In v (fst (bfs_seq g f roots V)) <-> In v (visited_after Ls V)).

(** One level of a parallel visit, for EVERY interleaving of the scan steps of the
    frontier [L] (any permutation of them): the next frontier is duplicate-free, it is a
    permutation of the next specification level (hence independent of the schedule), every
    recorded predecessor is a frontier node of which the node is a successor, and the
    visited set is the same set. *)
Definition S_par_step : Prop :=
  forall (g : graph) (f : filt) (d : N) (L V : list N) (sched : list (N * N)),
    Permutation sched (steps g L) ->
    let VP := par_step f d sched V in
    let VS := scan f d (flat_map (succs g) L) V in
    NoDup (map fst (snd VP))
    /\ Permutation (map fst (snd VP)) (snd VS)
    /\ (forall s p, In (s, p) (snd VP) -> In p L /\ In s (succs g p))
    /\ (forall x, In x (fst VP) <-> In x (fst VS)).

(** predecessors recorded in the levels of a parallel visit *)
Fixpoint par_preds_ok (g : graph) (prev : list N) (P : list (list (N * N))) : Prop :=
  match P with
  | [] => True
  | Pk :: r => (forall s p, In (s, p) Pk -> In p prev /\ In s (succs g p))
               /\ par_preds_ok g (map fst Pk) r
  end.

(** The whole parallel visit under every family of schedules: level by level a
    duplicate-free permutation of the specification levels, with valid predecessors. *)
Definition S_par_levels : Prop :=
  forall (g : graph) (f : filt) (roots V : list N) (sch : N -> list (N * N) -> list (N * N)),
    (forall d l, Permutation (sch d l) l) ->
    let P := par_levels g f sch roots V in
    Forall2 (fun Pk Lk => NoDup (map fst Pk) /\ Permutation (map fst Pk) Lk)
            P (bfs_levels g f roots V)
    /\ match P with
       | [] => True
       | P0 :: r => (forall s p, In (s, p) P0 -> p = s) /\ par_preds_ok g (map fst P0) r
       end.

(** For a filter that ignores the distance, the level index is the length of a shortest
    walk from an accepted unvisited root through accepted unvisited nodes. *)
Definition S_levels_are_distances : Prop :=
  forall (g : graph) (fn : N -> bool) (roots V : list N) (k : nat) (v : N),
    In v (nth k (bfs_levels g (fun x _ => fn x) roots V) [])
    <-> dist_is g (fun x => fn x && negb (memb x V)) roots v k.

(** Two visits on the same visitor without [reset]: no node visited by the first (or
    visited before it) is visited by the second. *)
Definition S_no_revisit : Prop :=
  forall (g : graph) (f1 f2 : filt) (r1 r2 V : list N),
    let '(V1, ev1) := bfs_seq g f1 r1 V in
    let '(_, ev2) := bfs_seq g f2 r2 V1 in
    forall v, In v V \/ In v (map fst (map node_dist (visits ev1))) ->
              ~ In v (map fst (map node_dist (visits ev2))).

Definition wf_graph (g : graph) : Prop :=
  forall l, In l g -> forall s, In s l -> s < nlen g.

Definition node4 (x : N * N * N * N) : N := let '(_, _, v, _) := x in v.

(** [BfsOrder] enumerates every node exactly once; an item at distance 0 is a root whose
    parent is itself, any other item has a parent of which it is a successor and which is
    itself returned with the same root at distance one less. *)
Definition S_bfs_order_once : Prop :=
  forall (g : graph), wf_graph g ->
    let items := bfs_order g in
    Permutation (map node4 items) (nseq 0 (length g))
    /\ (forall r p v d, In (r, p, v, d) items ->
          (d = 0 /\ p = v /\ r = v)
          \/ (exists d' p', d = d' + 1 /\ In (r, p', p, d') items /\ In v (succs g p))).

(** [BfsOrderFromRoots]: each node at most once even when roots are repeated; the items
    are exactly the specification levels (no filter, fresh visitor) with their distances;
    parents are valid. *)
Definition S_from_roots_once : Prop :=
  forall (g : graph) (roots : list N) (items : list (N * N * N)),
    bfs_from_roots g roots = Some items ->
    let Ls := bfs_levels g no_filter roots [] in
    NoDup (map (fun '(_, v, _) => v) items)
    /\ map (fun '(_, v, d) => (v, d)) items = tag_levels 0 Ls
    /\ (forall p v d, In (p, v, d) items ->
          (d = 0 /\ p = v /\ In v roots)
          \/ (exists d', d = d' + 1 /\ In (p, d') (tag_levels 0 Ls) /\ In v (succs g p))).
