(** Basic facts about the depth-first machine: case analysis of a step, the invariant
    principle for [run], erasure of flavours, termination measure (fuel suffices), absence
    of faults on well-formed inputs. *)
From WG Require Import Base.Prelude Visits.Dfs Visits.DfsStatements.
From Coq Require Import ZifyBool ZifyN ZifyNat.
Local Open Scope N_scope.

(** * Lists of nodes *)
Lemma memb_In v l : memb v l = true <-> In v l.
Proof.
  unfold memb. rewrite existsb_exists. split.
  - intros [x [Hx He]]. apply N.eqb_eq in He. subst. exact Hx.
  - intros H. exists v. split; [exact H|apply N.eqb_refl].
Qed.

Lemma memb_false v l : memb v l = false <-> ~ In v l.
Proof.
  rewrite <- memb_In. destruct (memb v l); split; intro H.
  - discriminate.
  - exfalso. apply H. reflexivity.
  - intro; discriminate.
  - reflexivity.
Qed.

Lemma memb_ext v a b : (In v a <-> In v b) -> memb v a = memb v b.
Proof.
  intros H. destruct (memb v b) eqn:Hb.
  - apply memb_In. apply H. apply memb_In. exact Hb.
  - apply memb_false. intro Ha. apply memb_false in Hb. apply Hb. apply H. exact Ha.
Qed.

Lemma nseq_In v a k : In v (nseq a k) <-> a <= v /\ v < a + N.of_nat k.
Proof.
  revert a. induction k as [|k IH]; intros a; cbn [nseq In].
  - split; [tauto|lia].
  - rewrite IH. split.
    + intros [H|H]; lia.
    + intros H. destruct (N.eq_dec a v); [left; assumption|right; lia].
Qed.

Lemma nseq_NoDup a k : NoDup (nseq a k).
Proof.
  revert a. induction k as [|k IH]; intros a; cbn [nseq]; constructor.
  - rewrite nseq_In. lia.
  - apply IH.
Qed.

Lemma nseq_len a k : length (nseq a k) = k.
Proof. revert a. induction k as [|k IH]; intros a; cbn [nseq length]; [reflexivity|now rewrite IH]. Qed.

Lemma nodes_In g v : In v (nodes g) <-> v < nlen g.
Proof. unfold nodes, nlen. rewrite nseq_In. lia. Qed.

Lemma nodes_NoDup g : NoDup (nodes g).
Proof. apply nseq_NoDup. Qed.

Lemma nodes_len g : length (nodes g) = length g.
Proof. apply nseq_len. Qed.

Lemma succs_lt g u v : In v (succs g u) -> u < nlen g.
Proof.
  unfold succs, nlen. intros H.
  destruct (lt_dec (N.to_nat u) (length g)) as [Hl|Hl]; [lia|].
  rewrite nth_overflow in H by lia. destruct H.
Qed.

Lemma gwf_succ g u v : gwf g = true -> In v (succs g u) -> v < nlen g.
Proof.
  unfold gwf. intros Hw H. pose proof (succs_lt _ _ _ H) as Hu.
  rewrite forallb_forall in Hw.
  assert (Hin : In (succs g u) g).
  { unfold succs. apply nth_In. unfold nlen in Hu. lia. }
  specialize (Hw _ Hin). rewrite forallb_forall in Hw. specialize (Hw _ H).
  apply N.ltb_lt in Hw. exact Hw.
Qed.

(** * Case analysis of one step *)
Inductive stepR (g : graph) (flt : vfilter) : cfg -> cfg -> list event -> Prop :=
| SR_skip r rs root known onst :
    r < nlen g -> memb r known || negb (flt r r r 0) = true ->
    stepR g flt (mkCfg (r :: rs) root [] known onst) (mkCfg rs root [] known onst) []
| SR_start r rs root known onst :
    r < nlen g -> memb r known = false -> flt r r r 0 = true ->
    stepR g flt (mkCfg (r :: rs) root [] known onst)
          (mkCfg rs r [(r, succs g r)] (r :: known) (r :: onst)) [EInit r; EPre r r r 0]
| SR_rev roots root u v rem below known onst :
    v < nlen g -> memb v known = true ->
    stepR g flt (mkCfg roots root ((u, v :: rem) :: below) known onst)
          (mkCfg roots root ((u, rem) :: below) known onst)
          [ERev v u root (nlen ((u, v :: rem) :: below)) (memb v onst)]
| SR_push roots root u v rem below known onst :
    v < nlen g -> memb v known = false ->
    flt v u root (nlen ((u, v :: rem) :: below)) = true ->
    stepR g flt (mkCfg roots root ((u, v :: rem) :: below) known onst)
          (mkCfg roots root ((v, succs g v) :: (u, rem) :: below) (v :: known) (v :: onst))
          [EPre v u root (nlen ((u, v :: rem) :: below))]
| SR_filt roots root u v rem below known onst :
    v < nlen g -> memb v known = false ->
    flt v u root (nlen ((u, v :: rem) :: below)) = false ->
    stepR g flt (mkCfg roots root ((u, v :: rem) :: below) known onst)
          (mkCfg roots root ((u, rem) :: below) known onst) []
| SR_pop roots root u below known onst :
    stepR g flt (mkCfg roots root ((u, []) :: below) known onst)
          (mkCfg roots root below known (remove N.eq_dec u onst))
          (EPost u (match below with [] => u | (p, _) :: _ => p end) root
                 (nlen ((u, @nil N) :: below) - 1)
           :: match below with [] => [EDone root] | _ => [] end).

Lemma step_inv g flt c c' evs : step g flt c = Next c' evs -> stepR g flt c c' evs.
Proof.
  destruct c as [roots root stk known onst]. unfold step.
  cbn [c_stack c_roots c_root c_known c_onst].
  destruct stk as [|[u rem] below].
  - destruct roots as [|r rs]; [discriminate|].
    destruct (r <? nlen g) eqn:Hr; cbn [negb]; [|discriminate].
    apply N.ltb_lt in Hr.
    destruct (memb r known || negb (flt r r r 0)) eqn:Hk; intros H; inversion H; subst.
    + apply SR_skip; assumption.
    + apply orb_false_iff in Hk. destruct Hk as [Hk Hf].
      apply negb_false_iff in Hf. apply SR_start; assumption.
  - destruct rem as [|v rem].
    + intros H. inversion H; subst. apply SR_pop.
    + destruct (v <? nlen g) eqn:Hv; cbn [negb]; [|discriminate].
      apply N.ltb_lt in Hv.
      destruct (memb v known) eqn:Hk.
      * intros H. inversion H; subst. apply SR_rev; assumption.
      * destruct (flt v u root (nlen ((u, v :: rem) :: below))) eqn:Hf;
          intros H; inversion H; subst.
        -- apply SR_push; assumption.
        -- apply SR_filt; assumption.
Qed.

Lemma step_halt g flt c : step g flt c = Halt -> c_stack c = [] /\ c_roots c = [].
Proof.
  destruct c as [roots root stk known onst]. unfold step.
  cbn [c_stack c_roots c_root c_known c_onst].
  destruct stk as [|[u rem] below].
  - destruct roots as [|r rs]; [intros _; split; reflexivity|].
    destruct (negb (r <? nlen g)); [discriminate|].
    destruct (memb r known || negb (flt r r r 0)); discriminate.
  - destruct rem as [|v rem]; [discriminate|].
    destruct (negb (v <? nlen g)); [discriminate|].
    destruct (memb v known); [discriminate|].
    destruct (flt v u root (nlen ((u, v :: rem) :: below))); discriminate.
Qed.

(** a fault needs a root or a successor outside the graph *)
Lemma step_fault g flt c :
  step g flt c = Fault ->
  (exists r rs, c_stack c = [] /\ c_roots c = r :: rs /\ ~ r < nlen g)
  \/ (exists u v rem below, c_stack c = (u, v :: rem) :: below /\ ~ v < nlen g).
Proof.
  destruct c as [roots root stk known onst]. unfold step.
  cbn [c_stack c_roots c_root c_known c_onst].
  destruct stk as [|[u rem] below].
  - destruct roots as [|r rs]; [discriminate|].
    destruct (r <? nlen g) eqn:Hr; cbn [negb].
    + destruct (memb r known || negb (flt r r r 0)); discriminate.
    + intros _. left. exists r, rs. apply N.ltb_ge in Hr. repeat split. lia.
  - destruct rem as [|v rem]; [discriminate|].
    destruct (v <? nlen g) eqn:Hv; cbn [negb].
    + destruct (memb v known); [discriminate|].
      destruct (flt v u root (nlen ((u, v :: rem) :: below))); discriminate.
    + intros _. right. exists u, v, rem, below. apply N.ltb_ge in Hv. split; [reflexivity|lia].
Qed.

(** * Invariant principle *)
Lemma run_inv fl g flt (P : cfg -> list event -> Prop) :
  (forall c acc c' evs, P c acc -> stepR g flt c c' evs ->
                        P c' (acc ++ flat_map (ev_erase fl) evs)) ->
  forall fuel c acc evs cf,
    P c acc -> run fl g flt fuel c acc = DfsOk evs cf ->
    P cf evs /\ c_stack cf = [] /\ c_roots cf = [].
Proof.
  intros Hstep. induction fuel as [|f IH]; intros c acc evs cf HP Hrun; [discriminate|].
  cbn [run] in Hrun. destruct (step g flt c) as [| |c' e] eqn:Hs.
  - inversion Hrun; subst. split; [exact HP|]. apply step_halt in Hs. exact Hs.
  - discriminate.
  - apply (IH c' (acc ++ flat_map (ev_erase fl) e) evs cf); [|exact Hrun].
    apply Hstep with c; [exact HP|]. apply step_inv. exact Hs.
Qed.

Lemma erase_path evs : flat_map (ev_erase Path) evs = evs.
Proof. induction evs as [|e r IH]; [reflexivity|]. cbn [flat_map ev_erase app]. now rewrite IH. Qed.

Lemma run_erase fl g flt fuel c acc :
  run fl g flt fuel c (flat_map (ev_erase fl) acc)
  = map_result (flat_map (ev_erase fl)) (run Path g flt fuel c acc).
Proof.
  revert c acc. induction fuel as [|f IH]; intros c acc; [reflexivity|].
  cbn [run]. destruct (step g flt c) as [| |c' e]; try reflexivity.
  rewrite erase_path. rewrite <- IH. rewrite flat_map_app. reflexivity.
Qed.

Lemma dfs_erase fl g flt roots known onst :
  dfs fl g flt roots known onst
  = map_result (flat_map (ev_erase fl)) (dfs Path g flt roots known onst).
Proof. unfold dfs. apply (run_erase fl g flt _ _ []). Qed.

(** * Termination measure *)
Fixpoint mass_from (i : N) (rows : list (list N)) (known : list N) : nat :=
  match rows with
  | [] => 0%nat
  | r :: rows' =>
    ((if memb i known then 0 else S (length r)) + mass_from (i + 1) rows' known)%nat
  end.

Definition stack_mass (stk : list (N * list N)) : nat :=
  fold_right (fun f a => (S (length (snd f)) + a)%nat) 0%nat stk.

Definition mu (g : graph) (c : cfg) : nat :=
  (length (c_roots c) + stack_mass (c_stack c) + mass_from 0 g (c_known c))%nat.

Lemma mass_bound i rows known :
  (mass_from i rows known <= length rows + length (concat rows))%nat.
Proof.
  revert i. induction rows as [|r rows IH]; intros i; cbn [mass_from length concat]; [lia|].
  rewrite app_length. specialize (IH (i + 1)). destruct (memb i known); lia.
Qed.

Lemma mass_skip i rows known v :
  v < i -> mass_from i rows (v :: known) = mass_from i rows known.
Proof.
  revert i. induction rows as [|r rows IH]; intros i Hv; cbn [mass_from]; [reflexivity|].
  rewrite IH by lia. unfold memb at 1. cbn [existsb]. fold (memb i known).
  destruct (i =? v) eqn:He; [apply N.eqb_eq in He; lia|]. reflexivity.
Qed.

Lemma mass_add i rows known v :
  i <= v -> v < i + nlen rows -> memb v known = false ->
  (mass_from i rows (v :: known) + S (length (nth (N.to_nat (v - i)) rows [])))%nat
  = mass_from i rows known.
Proof.
  revert i. induction rows as [|r rows IH]; intros i Hl Hu Hk.
  - unfold nlen in Hu. cbn [length] in Hu. lia.
  - cbn [mass_from]. destruct (N.eq_dec i v) as [He|He].
    + subst i. rewrite mass_skip by lia. rewrite Hk.
      unfold memb at 1. cbn [existsb]. rewrite N.eqb_refl. cbn [orb].
      replace (N.to_nat (v - v)) with 0%nat by lia. cbn [nth]. lia.
    + unfold memb at 1. cbn [existsb]. fold (memb i known).
      destruct (i =? v) eqn:Hiv; [apply N.eqb_eq in Hiv; contradiction|]. cbn [orb].
      assert (Hn : N.to_nat (v - i) = S (N.to_nat (v - (i + 1)))) by lia.
      rewrite Hn. cbn [nth].
      assert (Hu' : v < i + 1 + nlen rows).
      { unfold nlen in *. cbn [length] in Hu. lia. }
      specialize (IH (i + 1) ltac:(lia) Hu' Hk). lia.
Qed.

Lemma step_mu g flt c c' evs : stepR g flt c c' evs -> (mu g c' < mu g c)%nat.
Proof.
  intros H. destruct H; unfold mu; cbn [c_roots c_stack c_known stack_mass fold_right snd length].
  - lia.
  - pose proof (mass_add 0 g known r ltac:(lia) ltac:(lia) H0) as Hm.
    rewrite N.sub_0_r in Hm. unfold succs. lia.
  - lia.
  - pose proof (mass_add 0 g known v ltac:(lia) ltac:(lia) H0) as Hm.
    rewrite N.sub_0_r in Hm. unfold succs. lia.
  - lia.
  - lia.
Qed.

Lemma run_fuel fl g flt fuel c acc :
  (mu g c < fuel)%nat -> run fl g flt fuel c acc <> DfsOutOfFuel.
Proof.
  revert c acc. induction fuel as [|f IH]; intros c acc Hm; [lia|].
  cbn [run]. destruct (step g flt c) as [| |c' e] eqn:Hs; try discriminate.
  apply IH. apply step_inv in Hs. apply step_mu in Hs. lia.
Qed.

Lemma mu_init g roots known onst :
  (mu g (init_cfg roots known onst) < dfs_fuel g roots)%nat.
Proof.
  unfold mu, init_cfg, dfs_fuel. cbn [c_roots c_stack c_known stack_mass fold_right].
  pose proof (mass_bound 0 g known). lia.
Qed.

(** * No fault on well-formed inputs *)
Definition frames_ok (g : graph) (c : cfg) : Prop :=
  (forall r, In r (c_roots c) -> r < nlen g)
  /\ Forall (fun f => incl (snd f) (succs g (fst f))) (c_stack c).

Lemma frames_ok_step g flt c c' evs :
  frames_ok g c -> stepR g flt c c' evs -> frames_ok g c'.
Proof.
  intros [Hr Hs] H.
  destruct H as [r rs root known onst Hr0 Hk | r rs root known onst Hr0 Hk Hf
                | roots root u v rem below known onst Hv Hk
                | roots root u v rem below known onst Hv Hk Hf
                | roots root u v rem below known onst Hv Hk Hf
                | roots root u below known onst];
    unfold frames_ok in *; cbn [c_roots c_stack] in *.
  - split; [intros x Hx; apply Hr; right; exact Hx|constructor].
  - split; [intros x Hx; apply Hr; right; exact Hx|].
    constructor; [apply incl_refl|constructor].
  - inversion Hs as [|f l Hf Hl]; subst. cbn [fst snd] in Hf. split; [exact Hr|].
    constructor; [|exact Hl]. intros x Hx. apply Hf. right. exact Hx.
  - inversion Hs as [|f l Hf0 Hl]; subst. cbn [fst snd] in Hf0. split; [exact Hr|].
    constructor; [apply incl_refl|]. constructor; [|exact Hl].
    intros x Hx. apply Hf0. right. exact Hx.
  - inversion Hs as [|f l Hf0 Hl]; subst. cbn [fst snd] in Hf0. split; [exact Hr|].
    constructor; [|exact Hl]. intros x Hx. apply Hf0. right. exact Hx.
  - inversion Hs as [|f l Hf Hl]; subst. split; assumption.
Qed.

Lemma run_total fl g flt fuel c acc :
  gwf g = true -> frames_ok g c -> (mu g c < fuel)%nat ->
  exists evs cf, run fl g flt fuel c acc = DfsOk evs cf.
Proof.
  intros Hw. revert c acc. induction fuel as [|f IH]; intros c acc Hok Hm; [lia|].
  cbn [run]. destruct (step g flt c) as [| |c' e] eqn:Hs.
  - eexists; eexists; reflexivity.
  - exfalso. destruct Hok as [Hr Hf]. apply step_fault in Hs.
    destruct Hs as [[r [rs [_ [Hc Hn]]]]|[u [v [rem [below [Hc Hn]]]]]].
    + apply Hn. apply Hr. rewrite Hc. left. reflexivity.
    + apply Hn. apply (gwf_succ g u); [exact Hw|]. rewrite Hc in Hf.
      inversion Hf as [|f0 l0 Hf0 Hl0]; subst. apply Hf0. left. reflexivity.
  - apply step_inv in Hs. apply IH.
    + apply (frames_ok_step _ _ _ _ _ Hok Hs).
    + apply step_mu in Hs. lia.
Qed.

Theorem fuel_suffices : S_fuel_suffices.
Proof.
  intros fl g flt roots known onst. split.
  - apply run_fuel. apply mu_init.
  - intros Hw Hr.
    destruct (run_total fl g flt (dfs_fuel g roots) (init_cfg roots known onst) [] Hw) as [evs [cf Hrun]].
    + split; [exact Hr|constructor].
    + apply mu_init.
    + exists evs, cf. split; [exact Hrun|].
      apply (run_inv fl g flt (fun _ _ => True) (fun _ _ _ _ _ _ => I) _ _ _ _ _ I Hrun).
Qed.

Theorem flavours_erasure : S_flavours_erasure.
Proof. intros fl g flt roots known onst. apply dfs_erase. Qed.
