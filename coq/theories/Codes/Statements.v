(** Pinned statements about the instantaneous codes.  Statements only. *)
From WG Require Import Base.Prelude Codes.Codes.
Local Open Scope N_scope.

(** parameters for which a code is defined: ζ needs k >= 1 *)
Definition code_ok (c : code) : bool :=
  match c with Zeta k => 1 <=? k | _ => true end.

(** prefix round trip: decoding an encoded value followed by anything returns the value
    and exactly the rest *)
Definition S_code_roundtrip : Prop := forall le c n rest,
  code_ok c = true -> dec le c (enc le c n ++ rest) = Some (n, rest).

(** the closed-form length equals the number of bits written *)
Definition S_code_len : Prop := forall le c n,
  code_ok c = true -> nlen (enc le c n) = code_len c n.
