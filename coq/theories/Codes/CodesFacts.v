(** Proofs of the pinned statements about the instantaneous codes:
    prefix round trip and closed-form lengths, for every code, both endiannesses and
    unbounded arguments. *)
From WG Require Import Base.Prelude Codes.Codes Codes.Statements.
From Coq Require Import ZifyBool ZifyN ZifyNat.
Local Open Scope N_scope.

(** * Arithmetic helpers *)

Lemma pow2_pos : forall k : N, 0 < 2 ^ k.
Proof. intros k. pose proof (N.pow_nonzero 2 k). lia. Qed.

Lemma pow2_succ : forall k : N, 2 ^ (k + 1) = 2 * 2 ^ k.
Proof. intros k. rewrite N.add_1_r. apply N.pow_succ_r'. Qed.

Lemma log2_bounds : forall m, 0 < m -> 2 ^ N.log2 m <= m /\ m < 2 * 2 ^ N.log2 m.
Proof.
  intros m Hm. pose proof (N.log2_spec m Hm) as H.
  rewrite N.pow_succ_r' in H. lia.
Qed.

Lemma mod_sub_once : forall m p, p <= m -> m < 2 * p -> m mod p = m - p.
Proof.
  intros m p H1 H2.
  replace m with ((m - p) + 1 * p) at 1 by lia.
  rewrite N.mod_add by lia. apply N.mod_small. lia.
Qed.

Lemma mod_pow2_log2 : forall m, 0 < m -> m mod 2 ^ N.log2 m = m - 2 ^ N.log2 m.
Proof.
  intros m Hm. destruct (log2_bounds m Hm). apply mod_sub_once; assumption.
Qed.

(** * Fixed-width fields *)

Lemma nlen_app : forall {A} (a b : list A), nlen (a ++ b) = nlen a + nlen b.
Proof. intros A a b. unfold nlen. rewrite app_length. lia. Qed.

Lemma length_bits_msb : forall k v, length (bits_msb k v) = k.
Proof. induction k as [|k IH]; intros v; cbn [bits_msb length]; [reflexivity|]. now rewrite IH. Qed.

Lemma length_wbits : forall le v k, length (wbits le v k) = k.
Proof.
  intros le v k. unfold wbits. destruct le; [rewrite rev_length|]; apply length_bits_msb.
Qed.

Lemma nlen_wbits : forall le v k, nlen (wbits le v k) = N.of_nat k.
Proof. intros. unfold nlen. now rewrite length_wbits. Qed.

Lemma nlen_wbits_N : forall le v l, nlen (wbits le v (N.to_nat l)) = l.
Proof. intros. rewrite nlen_wbits. apply N2Nat.id. Qed.

Lemma mod_pow2_step : forall v k,
  v mod 2 ^ N.succ k = N.b2n (N.testbit v k) * 2 ^ k + v mod 2 ^ k.
Proof.
  intros v k. rewrite N.pow_succ_r', (N.mul_comm 2).
  pose proof (pow2_pos k).
  rewrite N.mod_mul_r by lia. rewrite N.testbit_spec'. lia.
Qed.

Lemma val_msb_bits : forall k v acc tl,
  val_msb acc (bits_msb k v ++ tl) = val_msb (acc * 2 ^ N.of_nat k + v mod 2 ^ N.of_nat k) tl.
Proof.
  induction k as [|k IH]; intros v acc tl.
  - cbn [bits_msb app]. change (N.of_nat 0) with 0. rewrite N.pow_0_r, N.mod_1_r.
    f_equal. lia.
  - cbn [bits_msb app val_msb]. rewrite IH. f_equal.
    rewrite Nat2N.inj_succ, mod_pow2_step, N.pow_succ_r'.
    destruct (N.testbit v (N.of_nat k)); cbn [N.b2n]; lia.
Qed.

Lemma firstn_length_app : forall {A} (w r : list A), firstn (length w) (w ++ r) = w.
Proof. intros A w r. induction w as [|x w IH]; cbn; [now destruct r|now rewrite IH]. Qed.

Lemma skipn_length_app : forall {A} (w r : list A), skipn (length w) (w ++ r) = r.
Proof. intros A w r. induction w as [|x w IH]; cbn; [reflexivity|exact IH]. Qed.

Lemma rbits_wbits : forall le k v rest,
  rbits le k (wbits le v k ++ rest) = Some (v mod 2 ^ N.of_nat k, rest).
Proof.
  intros le k v rest. unfold rbits.
  pose proof (length_wbits le v k) as HL.
  assert (Hlt : (length (wbits le v k ++ rest) <? k)%nat = false).
  { apply Nat.ltb_ge. rewrite app_length. lia. }
  rewrite Hlt. cbv zeta.
  assert (Hf : firstn k (wbits le v k ++ rest) = wbits le v k).
  { rewrite <- HL at 1. apply firstn_length_app. }
  assert (Hs : skipn k (wbits le v k ++ rest) = rest).
  { rewrite <- HL at 1. apply skipn_length_app. }
  rewrite Hf, Hs.
  f_equal. f_equal.
  transitivity (val_msb 0 (bits_msb k v)).
  { f_equal. unfold wbits. destruct le; [apply rev_involutive|reflexivity]. }
  rewrite <- (app_nil_r (bits_msb k v)), val_msb_bits.
  cbn [val_msb]. lia.
Qed.

Lemma rbits_wbits_N : forall le l v rest,
  rbits le (N.to_nat l) (wbits le v (N.to_nat l) ++ rest) = Some (v mod 2 ^ l, rest).
Proof. intros. rewrite rbits_wbits. now rewrite N2Nat.id. Qed.

(** * Unary *)

Lemma dec_unary_aux_repeat : forall n acc rest,
  dec_unary_aux acc (repeat false n ++ true :: rest) = Some (acc + N.of_nat n, rest).
Proof.
  induction n as [|n IH]; intros acc rest.
  - cbn. f_equal. f_equal. lia.
  - cbn [repeat app dec_unary_aux]. rewrite IH. f_equal. f_equal. lia.
Qed.

Lemma dec_enc_unary : forall n rest, dec_unary (enc_unary n ++ rest) = Some (n, rest).
Proof.
  intros n rest. unfold dec_unary, enc_unary. rewrite <- app_assoc. cbn [app].
  rewrite dec_unary_aux_repeat. f_equal. f_equal. lia.
Qed.

Lemma nlen_enc_unary : forall n, nlen (enc_unary n) = n + 1.
Proof.
  intros n. unfold enc_unary. rewrite nlen_app. unfold nlen.
  rewrite repeat_length. cbn [length]. lia.
Qed.

(** * Gamma, delta *)

Lemma dec_enc_gamma : forall le n rest, dec_gamma le (enc_gamma le n ++ rest) = Some (n, rest).
Proof.
  intros le n rest. unfold dec_gamma, enc_gamma. cbv zeta.
  rewrite <- app_assoc, dec_enc_unary. cbn [obind].
  rewrite rbits_wbits_N. cbn [obind]. f_equal. f_equal.
  assert (Hm : 0 < n + 1) by lia.
  rewrite mod_pow2_log2 by exact Hm. destruct (log2_bounds _ Hm). lia.
Qed.

Lemma nlen_enc_gamma : forall le n, nlen (enc_gamma le n) = 2 * N.log2 (n + 1) + 1.
Proof.
  intros le n. unfold enc_gamma. cbv zeta.
  rewrite nlen_app, nlen_enc_unary, nlen_wbits_N. lia.
Qed.

Lemma dec_enc_delta : forall le n rest, dec_delta le (enc_delta le n ++ rest) = Some (n, rest).
Proof.
  intros le n rest. unfold dec_delta, enc_delta. cbv zeta.
  rewrite <- app_assoc, dec_enc_gamma. cbn [obind].
  rewrite rbits_wbits_N. cbn [obind]. f_equal. f_equal.
  assert (Hm : 0 < n + 1) by lia.
  rewrite mod_pow2_log2 by exact Hm. destruct (log2_bounds _ Hm). lia.
Qed.

Lemma nlen_enc_delta : forall le n,
  nlen (enc_delta le n) = N.log2 (n + 1) + (2 * N.log2 (N.log2 (n + 1) + 1) + 1).
Proof.
  intros le n. unfold enc_delta. cbv zeta.
  rewrite nlen_app, nlen_enc_gamma, nlen_wbits_N. lia.
Qed.

(** * Minimal binary, zeta *)

Lemma dec_enc_minbin : forall le n u rest, n < u ->
  dec_minbin le u (enc_minbin le n u ++ rest) = Some (n, rest).
Proof.
  intros le n u rest Hnu. unfold dec_minbin, enc_minbin. cbv zeta.
  assert (Hu : 0 < u) by lia.
  destruct (log2_bounds u Hu) as [Hlo Hhi].
  rewrite pow2_succ.
  set (P := 2 ^ N.log2 u) in *.
  destruct (N.ltb_spec n (2 * P - u)) as [Hlt|Hge].
  - rewrite rbits_wbits_N. cbn [obind]. fold P.
    rewrite (N.mod_small n P) by lia.
    destruct (N.ltb_spec n (2 * P - u)); [reflexivity|lia].
  - rewrite <- app_assoc, rbits_wbits_N. cbn [obind]. fold P.
    set (t := n + (2 * P - u)).
    assert (Ht : t < 2 * P) by (unfold t; lia).
    rewrite (N.mod_small (t / 2) P) by lia.
    destruct (N.ltb_spec (t / 2) (2 * P - u)) as [Hbad|_]; [unfold t in Hbad; lia|].
    rewrite rbits_wbits. cbn [obind]. f_equal. f_equal.
    change (2 ^ N.of_nat 1) with 2. unfold t. lia.
Qed.

Lemma nlen_enc_minbin : forall le n u, nlen (enc_minbin le n u) = len_minbin n u.
Proof.
  intros le n u. unfold enc_minbin, len_minbin. cbv zeta.
  destruct (n <? 2 ^ (N.log2 u + 1) - u).
  - apply nlen_wbits_N.
  - rewrite nlen_app, nlen_wbits_N, nlen_wbits. lia.
Qed.

Lemma zeta_bounds : forall k m, 1 <= k -> 0 < m ->
  let l := 2 ^ (N.log2 m / k * k) in
  l <= m /\ m - l < l * 2 ^ k - l.
Proof.
  intros k m Hk Hm l.
  destruct (log2_bounds m Hm) as [Hlo Hhi].
  assert (Hle : N.log2 m / k * k <= N.log2 m).
  { rewrite N.mul_comm. apply N.mul_div_le. lia. }
  assert (Hgt : N.log2 m + 1 <= N.log2 m / k * k + k).
  { pose proof (N.mul_succ_div_gt (N.log2 m) k ltac:(lia)). lia. }
  assert (H1 : l <= 2 ^ N.log2 m).
  { unfold l. apply N.pow_le_mono_r; [lia|exact Hle]. }
  assert (H2 : 2 * 2 ^ N.log2 m <= l * 2 ^ k).
  { unfold l. rewrite <- N.pow_add_r, <- pow2_succ.
    apply N.pow_le_mono_r; [lia|exact Hgt]. }
  split; [lia|].
  assert (l <= l * 2 ^ k).
  { pose proof (pow2_pos k). nia. }
  lia.
Qed.

Lemma dec_enc_zeta : forall le k n rest, 1 <= k ->
  dec_zeta le k (enc_zeta le k n ++ rest) = Some (n, rest).
Proof.
  intros le k n rest Hk. unfold dec_zeta, enc_zeta. cbv zeta.
  rewrite <- app_assoc, dec_enc_unary. cbn [obind].
  destruct (zeta_bounds k (n + 1) Hk ltac:(lia)) as [H1 H2].
  rewrite dec_enc_minbin by exact H2. cbn [obind]. f_equal. f_equal. lia.
Qed.

Lemma nlen_enc_zeta : forall le k n,
  nlen (enc_zeta le k n) = code_len (Zeta k) n.
Proof.
  intros le k n. unfold enc_zeta, code_len. cbv zeta.
  now rewrite nlen_app, nlen_enc_unary, nlen_enc_minbin.
Qed.

(** * Rice, pi *)

Lemma dec_enc_rice : forall le b n rest, dec_rice le b (enc_rice le b n ++ rest) = Some (n, rest).
Proof.
  intros le b n rest. unfold dec_rice, enc_rice.
  rewrite <- app_assoc, dec_enc_unary. cbn [obind].
  rewrite rbits_wbits_N. cbn [obind]. f_equal. f_equal.
  pose proof (pow2_pos b). rewrite (N.div_mod' n (2 ^ b)) at 3. lia.
Qed.

Lemma nlen_enc_rice : forall le b n, nlen (enc_rice le b n) = n / 2 ^ b + 1 + b.
Proof.
  intros le b n. unfold enc_rice. now rewrite nlen_app, nlen_enc_unary, nlen_wbits_N.
Qed.

Lemma dec_enc_pi : forall le k n rest, dec_pi le k (enc_pi le k n ++ rest) = Some (n, rest).
Proof.
  intros le k n rest. unfold dec_pi, enc_pi. cbv zeta.
  rewrite <- app_assoc, dec_enc_rice. cbn [obind].
  rewrite rbits_wbits_N. cbn [obind]. f_equal. f_equal.
  assert (Hm : 0 < n + 1) by lia.
  rewrite mod_pow2_log2 by exact Hm. destruct (log2_bounds _ Hm). lia.
Qed.

Lemma nlen_enc_pi : forall le k n, nlen (enc_pi le k n) = code_len (Pi k) n.
Proof.
  intros le k n. unfold enc_pi, code_len. cbv zeta.
  now rewrite nlen_app, nlen_enc_rice, nlen_wbits_N.
Qed.

(** * Omega *)

Lemma bits_msb_snoc : forall k v,
  bits_msb (S k) v = bits_msb k (N.div2 v) ++ [N.testbit v 0].
Proof.
  induction k as [|k IH]; intros v.
  - reflexivity.
  - change (bits_msb (S (S k)) v) with (N.testbit v (N.of_nat (S k)) :: bits_msb (S k) v).
    rewrite IH. cbn [bits_msb app]. f_equal.
    rewrite Nat2N.inj_succ, N.div2_spec, N.shiftr_spec', N.add_1_r. reflexivity.
Qed.

(** number of blocks written by [omega_rec] *)
Fixpoint omega_iters (fuel : nat) (n : N) : nat :=
  match fuel with
  | O => O
  | S f => if n <=? 1 then O else S (omega_iters f (N.log2 n))
  end.

Lemma omega_iters_le_length : forall f le n,
  (omega_iters f n <= length (omega_rec f le n))%nat.
Proof.
  induction f as [|f IH]; intros le n; cbn [omega_iters omega_rec]; [lia|].
  destruct (n <=? 1); cbn [length]; [lia|].
  rewrite app_length, length_wbits. specialize (IH le (N.log2 n)). lia.
Qed.

Lemma dec_omega_aux_true : forall f le n s, hd_error s = Some true ->
  dec_omega_aux (S f) le n s =
  ('(v, s1) <- rbits le (S (N.to_nat n)) s ;;
   dec_omega_aux f le (if le then v / 2 + 2 ^ n else v) s1).
Proof.
  intros f le n s Hs. destruct s as [|[] s]; cbn [hd_error] in Hs; try discriminate.
  reflexivity.
Qed.

Definition omega_word (le : bool) (n : N) : N :=
  if le then 2 * (n mod 2 ^ N.log2 n) + 1 else n.

Lemma hd_omega_block : forall le n tl, 2 <= n ->
  hd_error (wbits le (omega_word le n) (S (N.to_nat (N.log2 n))) ++ tl) = Some true.
Proof.
  intros le n tl Hn. unfold wbits, omega_word. destruct le.
  - rewrite bits_msb_snoc, rev_unit. cbn [app hd_error]. f_equal.
    apply N.testbit_odd_0.
  - cbn [bits_msb app hd_error]. f_equal. rewrite N2Nat.id. apply N.bit_log2. lia.
Qed.

Lemma omega_block : forall F le n tl, 2 <= n ->
  dec_omega_aux (S F) le (N.log2 n)
    (wbits le (omega_word le n) (S (N.to_nat (N.log2 n))) ++ tl)
  = dec_omega_aux F le n tl.
Proof.
  intros F le n tl Hn.
  rewrite dec_omega_aux_true by (apply hd_omega_block; exact Hn).
  rewrite rbits_wbits. cbn [obind]. f_equal.
  rewrite Nat2N.inj_succ, N2Nat.id, N.pow_succ_r'.
  assert (Hm : 0 < n) by lia.
  destruct (log2_bounds n Hm) as [Hlo Hhi].
  pose proof (mod_pow2_log2 n Hm) as Hmod.
  unfold omega_word. destruct le.
  - rewrite Hmod. set (P := 2 ^ N.log2 n) in *.
    rewrite (N.mod_small (2 * (n - P) + 1) (2 * P)) by lia. lia.
  - apply N.mod_small. exact Hhi.
Qed.

Lemma dec_omega_rec : forall f le n tl F,
  1 <= n -> n < 2 ^ N.of_nat f ->
  dec_omega_aux (omega_iters f n + F) le 1 (omega_rec f le n ++ tl)
  = dec_omega_aux F le n tl.
Proof.
  induction f as [|f IH]; intros le n tl F H1 Hb.
  - change (N.of_nat 0) with 0 in Hb. rewrite N.pow_0_r in Hb. lia.
  - cbn [omega_iters omega_rec].
    destruct (N.leb_spec n 1) as [Hle|Hgt].
    + cbn [app Nat.add]. replace n with 1 by lia. reflexivity.
    + cbv zeta. fold (omega_word le n).
      rewrite <- app_assoc.
      replace (S (omega_iters f (N.log2 n)) + F)%nat
        with (omega_iters f (N.log2 n) + S F)%nat by lia.
      assert (Hl1 : 1 <= N.log2 n).
      { apply N.log2_le_pow2; [lia|]. change (2 ^ 1) with 2. lia. }
      assert (Hl2 : N.log2 n < N.of_nat (S f)).
      { apply N.log2_lt_pow2; [lia|exact Hb]. }
      assert (Hl3 : N.log2 n < 2 ^ N.of_nat f).
      { pose proof (N.pow_gt_lin_r 2 (N.of_nat f) ltac:(lia)). lia. }
      rewrite IH by assumption.
      apply omega_block. lia.
Qed.

Lemma dec_enc_omega : forall le n rest, dec_omega le (enc_omega le n ++ rest) = Some (n, rest).
Proof.
  intros le n rest. unfold dec_omega, enc_omega.
  set (m := n + 1). set (f := S (N.to_nat (N.size m))).
  rewrite <- app_assoc. cbn [app].
  assert (HF : exists F, S (length (omega_rec f le m ++ false :: rest))
                         = (omega_iters f m + S F)%nat).
  { exists (length (omega_rec f le m ++ false :: rest) - omega_iters f m)%nat.
    pose proof (omega_iters_le_length f le m). rewrite app_length. lia. }
  destruct HF as [F ->].
  rewrite dec_omega_rec.
  - cbn [dec_omega_aux]. f_equal. f_equal. unfold m. lia.
  - unfold m. lia.
  - unfold f. rewrite Nat2N.inj_succ, N2Nat.id, N.pow_succ_r'.
    pose proof (N.size_gt m). lia.
Qed.

Lemma nlen_omega_rec : forall f le n, nlen (omega_rec f le n) + 1 = len_omega_rec f n.
Proof.
  induction f as [|f IH]; intros le n; cbn [omega_rec len_omega_rec]; [reflexivity|].
  destruct (n <=? 1); [reflexivity|]. cbv zeta.
  rewrite nlen_app, nlen_wbits, Nat2N.inj_succ, N2Nat.id, <- IH with (le := le). lia.
Qed.

Lemma nlen_enc_omega : forall le n, nlen (enc_omega le n) = code_len Omega n.
Proof.
  intros le n. unfold enc_omega, code_len. rewrite nlen_app, <- nlen_omega_rec with (le := le).
  reflexivity.
Qed.

(** * Main theorems *)

Theorem code_roundtrip : S_code_roundtrip.
Proof.
  intros le c n rest Hok. destruct c as [| | | |k|k]; cbn [enc dec].
  - apply dec_enc_unary.
  - apply dec_enc_gamma.
  - apply dec_enc_delta.
  - apply dec_enc_omega.
  - apply dec_enc_zeta. cbn [code_ok] in Hok. apply N.leb_le. exact Hok.
  - apply dec_enc_pi.
Qed.

Theorem code_len_correct : S_code_len.
Proof.
  intros le c n Hok. destruct c as [| | | |k|k]; cbn [enc].
  - apply nlen_enc_unary.
  - apply nlen_enc_gamma.
  - apply nlen_enc_delta.
  - apply nlen_enc_omega.
  - apply nlen_enc_zeta.
  - apply nlen_enc_pi.
Qed.

Print Assumptions code_roundtrip.
Print Assumptions code_len_correct.
