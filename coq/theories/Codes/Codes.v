(** Instantaneous codes of dsi-bitstream as composed from [write_unary]/[write_bits]
    (non-table paths), for both endiannesses.  Definitions only.

    A bit stream is a [list bool] in stream order.  For a big-endian stream
    [write_bits v k] emits the low [k] bits of [v] most-significant first; for a
    little-endian stream least-significant first.  Unary [n] is [n] zeros and a one in
    both orders. *)
From WG Require Import Base.Prelude.
Local Open Scope N_scope.

Inductive code := Unary | Gamma | Delta | Omega | Zeta (k : N) | Pi (k : N).

Definition code_eqb (a b : code) : bool :=
  match a, b with
  | Unary, Unary | Gamma, Gamma | Delta, Delta | Omega, Omega => true
  | Zeta j, Zeta k | Pi j, Pi k => j =? k
  | _, _ => false
  end.

Definition bits := list bool.

(** low [k] bits of [v], most significant first *)
Fixpoint bits_msb (k : nat) (v : N) : bits :=
  match k with
  | O => []
  | S k' => N.testbit v (N.of_nat k') :: bits_msb k' v
  end.

Definition wbits (le : bool) (v : N) (k : nat) : bits :=
  if le then rev (bits_msb k v) else bits_msb k v.

(** value of a bit list read most-significant first *)
Fixpoint val_msb (acc : N) (l : bits) : N :=
  match l with
  | [] => acc
  | b :: l' => val_msb (2 * acc + (if b then 1 else 0)) l'
  end.

Definition rbits (le : bool) (k : nat) (s : bits) : option (N * bits) :=
  if (length s <? k)%nat then None
  else let w := firstn k s in
       Some (val_msb 0 (if le then rev w else w), skipn k s).

Definition enc_unary (n : N) : bits := repeat false (N.to_nat n) ++ [true].

Fixpoint dec_unary_aux (acc : N) (s : bits) : option (N * bits) :=
  match s with
  | [] => None
  | true :: s' => Some (acc, s')
  | false :: s' => dec_unary_aux (acc + 1) s'
  end.
Definition dec_unary := dec_unary_aux 0.

(** γ *)
Definition enc_gamma (le : bool) (n : N) : bits :=
  let m := n + 1 in
  let l := N.log2 m in
  enc_unary l ++ wbits le m (N.to_nat l).

Definition dec_gamma (le : bool) (s : bits) : option (N * bits) :=
  '(l, s1) <- dec_unary s ;;
  '(v, s2) <- rbits le (N.to_nat l) s1 ;;
  Some (v + 2 ^ l - 1, s2).

(** δ *)
Definition enc_delta (le : bool) (n : N) : bits :=
  let m := n + 1 in
  let l := N.log2 m in
  enc_gamma le l ++ wbits le m (N.to_nat l).

Definition dec_delta (le : bool) (s : bits) : option (N * bits) :=
  '(l, s1) <- dec_gamma le s ;;
  '(v, s2) <- rbits le (N.to_nat l) s1 ;;
  Some (v + 2 ^ l - 1, s2).

(** minimal binary of [n] in [0, u) *)
Definition enc_minbin (le : bool) (n u : N) : bits :=
  let l := N.log2 u in
  let limit := 2 ^ (l + 1) - u in
  if n <? limit then wbits le n (N.to_nat l)
  else let t := n + limit in
       wbits le (t / 2) (N.to_nat l) ++ wbits le (t mod 2) 1.

Definition dec_minbin (le : bool) (u : N) (s : bits) : option (N * bits) :=
  let l := N.log2 u in
  let limit := 2 ^ (l + 1) - u in
  '(p, s1) <- rbits le (N.to_nat l) s ;;
  if p <? limit then Some (p, s1)
  else '(b, s2) <- rbits le 1 s1 ;; Some (2 * p + b - limit, s2).

(** ζ_k *)
Definition enc_zeta (le : bool) (k n : N) : bits :=
  let m := n + 1 in
  let h := N.log2 m / k in
  let l := 2 ^ (h * k) in
  enc_unary h ++ enc_minbin le (m - l) (l * 2 ^ k - l).

Definition dec_zeta (le : bool) (k : N) (s : bits) : option (N * bits) :=
  '(h, s1) <- dec_unary s ;;
  let l := 2 ^ (h * k) in
  '(r, s2) <- dec_minbin le (l * 2 ^ k - l) s1 ;;
  Some (l + r - 1, s2).

(** Rice with parameter 2^b *)
Definition enc_rice (le : bool) (b n : N) : bits :=
  enc_unary (n / 2 ^ b) ++ wbits le n (N.to_nat b).

Definition dec_rice (le : bool) (b : N) (s : bits) : option (N * bits) :=
  '(q, s1) <- dec_unary s ;;
  '(r, s2) <- rbits le (N.to_nat b) s1 ;;
  Some (q * 2 ^ b + r, s2).

(** π_k *)
Definition enc_pi (le : bool) (k n : N) : bits :=
  let m := n + 1 in
  let l := N.log2 m in
  enc_rice le k l ++ wbits le m (N.to_nat l).

Definition dec_pi (le : bool) (k : N) (s : bits) : option (N * bits) :=
  '(l, s1) <- dec_rice le k s ;;
  '(v, s2) <- rbits le (N.to_nat l) s1 ;;
  Some (2 ^ l + v - 1, s2).

(** ω: recursive on the bit length; in little-endian streams each block is rotated left
    by one so that its marker bit comes first. *)
Fixpoint omega_rec (fuel : nat) (le : bool) (n : N) : bits :=
  match fuel with
  | O => []
  | S f =>
    if n <=? 1 then []
    else let l := N.log2 n in
         let w := if le then 2 * (n mod 2 ^ l) + 1 else n in
         omega_rec f le l ++ wbits le w (S (N.to_nat l))
  end.
Definition enc_omega (le : bool) (n : N) : bits :=
  omega_rec (S (N.to_nat (N.size (n + 1)))) le (n + 1) ++ [false].

Fixpoint dec_omega_aux (fuel : nat) (le : bool) (n : N) (s : bits) : option (N * bits) :=
  match fuel with
  | O => None
  | S f =>
    match s with
    | [] => None
    | false :: s' => Some (n - 1, s')
    | true :: _ =>
      '(v, s1) <- rbits le (S (N.to_nat n)) s ;;
      let v' := if le then v / 2 + 2 ^ n else v in
      dec_omega_aux f le v' s1
    end
  end.
Definition dec_omega (le : bool) (s : bits) : option (N * bits) :=
  dec_omega_aux (S (length s)) le 1 s.

(** dispatch *)
Definition enc (le : bool) (c : code) (n : N) : bits :=
  match c with
  | Unary => enc_unary n
  | Gamma => enc_gamma le n
  | Delta => enc_delta le n
  | Omega => enc_omega le n
  | Zeta k => enc_zeta le k n
  | Pi k => enc_pi le k n
  end.

Definition dec (le : bool) (c : code) (s : bits) : option (N * bits) :=
  match c with
  | Unary => dec_unary s
  | Gamma => dec_gamma le s
  | Delta => dec_delta le s
  | Omega => dec_omega le s
  | Zeta k => dec_zeta le k s
  | Pi k => dec_pi le k s
  end.

(** Code lengths by the closed formulas of dsi-bitstream's [len_*] functions. *)
Definition len_minbin (n u : N) : N :=
  let l := N.log2 u in
  let limit := 2 ^ (l + 1) - u in
  if n <? limit then l else l + 1.

Fixpoint len_omega_rec (fuel : nat) (n : N) : N :=
  match fuel with
  | O => 1
  | S f => if n <=? 1 then 1 else let l := N.log2 n in len_omega_rec f l + l + 1
  end.

Definition code_len (c : code) (n : N) : N :=
  match c with
  | Unary => n + 1
  | Gamma => 2 * N.log2 (n + 1) + 1
  | Delta => let l := N.log2 (n + 1) in l + (2 * N.log2 (l + 1) + 1)
  | Omega => len_omega_rec (S (N.to_nat (N.size (n + 1)))) (n + 1)
  | Zeta k =>
      let m := n + 1 in
      let h := N.log2 m / k in
      let l := 2 ^ (h * k) in
      h + 1 + len_minbin (m - l) (l * 2 ^ k - l)
  | Pi k => let l := N.log2 (n + 1) in (l / 2 ^ k + 1 + k) + l
  end.

(** The codes a properties file can name. *)
Definition nameable (c : code) : bool :=
  match c with
  | Unary | Gamma | Delta | Omega => true
  | Zeta k => (1 <=? k) && (k <=? 7)
  | Pi k => (1 <=? k) && (k <=? 4)
  end.
