(* Channel "codes": dsi-bitstream's dynamic code writers/readers/length functions against
   the proved Coq codes (C01). *)
open Model
type string = Stdlib.String.t
let max = Stdlib.max
let min = Stdlib.min
open Conv

let ok b = if b then "ok" else "FAIL"

let run (args : (string * string) list) : string =
  let c = code_of_string (get args "code") in
  let le = get_int args "le" = 1 in
  let vals = List.map n_of_int (ints_of_string (get args "vals")) in
  let written = ints_of_string (get args "written") in
  let lens = ints_of_string (get args "lens") in
  let buf = bytes_of_hex (get args "bytes") in
  let res = Buffer.create 64 in
  let add k v = Buffer.add_string res (" " ^ k ^ "=" ^ v) in
  (* model bits of the whole block *)
  let mbits = List.concat (List.map (fun v -> enc le c v) vals) in
  let total = List.length mbits in
  let ibits = if Bytes.length buf * 8 >= total then bits_of_bytes le buf 0 total else [] in
  add "bits" (ok (mbits = ibits));
  (* padding after the last code must be zero *)
  let pad = if Bytes.length buf * 8 >= total then bits_of_bytes le buf total (Bytes.length buf * 8 - total) else [true] in
  add "pad" (ok (List.for_all (fun b -> not b) pad));
  let mlens = List.map (fun v -> int_of_n (code_len c v)) vals in
  add "len" (ok (mlens = lens));
  add "written" (ok (mlens = written));
  (* the proved decoder reads the implementation's bits back *)
  let rec decode k s acc = if k = 0 then Some (List.rev acc) else
      match dec le c s with Some (v, s') -> decode (k - 1) s' (v :: acc) | None -> None in
  add "dec" (ok (decode (List.length vals) ibits [] = Some vals));
  add "back" (get args "back");
  Buffer.contents res
