(* Channel "scc" (C15): strongly connected components by tarjan / kosaraju / symm_seq /
   symm_par, and renumbering by size. *)
open Model
open Model.SccM
type string = Stdlib.String.t
let max = Stdlib.max
let min = Stdlib.min
open Conv

let nats l = List.map nat_of_int l
let ints l = List.map int_of_nat l
let graph_of s = List.map nats (lists_of_string s)

let fail d = "FAIL(" ^ d ^ ")"

(* partition equality and density on OCaml arrays: auxiliary cross checks for the large
   graphs on which the proved checker is too slow *)
let dense (c : int array) (k : int) : bool =
  let used = Array.make (max k 1) false in
  Array.for_all (fun x -> x >= 0 && x < k) c
  && (Array.iter (fun x -> used.(x) <- true) c; k = 0 || Array.for_all (fun b -> b) used)

let same_partition (a : int array) (b : int array) : bool =
  Array.length a = Array.length b &&
  (let m = Hashtbl.create 16 and m' = Hashtbl.create 16 in
   let ok = ref true in
   Array.iteri (fun i x ->
       let y = b.(i) in
       (match Hashtbl.find_opt m x with Some y' -> if y' <> y then ok := false | None -> Hashtbl.add m x y);
       (match Hashtbl.find_opt m' y with Some x' -> if x' <> x then ok := false | None -> Hashtbl.add m' y x)) a;
   !ok)

let run (args : (string * string) list) : string =
  let n = get_int args "n" in
  let big = get_int args "big" = 1 in
  let g = graph_of (get args "g") in
  let sg = graph_of (get args "sg") in
  let res = Buffer.create 256 in
  let add k v = Buffer.add_string res (" " ^ k ^ "=" ^ v) in
  if List.length g <> n || List.length sg <> n then add "parse" (fail "graph-length")
  else begin
    let tab_g = if big then [] else reach_table g in
    let tab_s = if big then [] else reach_table sg in
    let impl key = (ints_of_string (get args key), get_int args (key ^ "k")) in
    let status key = get args (key ^ "st") in
    (* oracle: the proved checker on the implementation's output *)
    let memo : (string * int list * int, bool) Hashtbl.t = Hashtbl.create 8 in
    let chk tag gr tab comp k =
      match Hashtbl.find_opt memo (tag, comp, k) with
      | Some b -> b
      | None -> let b = check_scc_tab gr tab (nats comp) (nat_of_int k) in Hashtbl.add memo (tag, comp, k) b; b in
    let oracle name gr tab key (comp, k) =
      if status key <> "ok" then add (name ^ "_scc") (fail (status key))
      else if big then begin
        add (name ^ "_dense") (if List.length comp = n && dense (Array.of_list comp) k then "ok" else fail "ids")
      end else
        add (name ^ "_scc") (if chk (if gr == g then "g" else "s") gr tab comp k then "ok"
                             else fail (string_of_ints comp ^ ";k:" ^ string_of_int k)) in
    (* correspondence: exact equality with the model *)
    let corr name (mcomp, mk) (comp, k) =
      let mc = ints mcomp and mk = int_of_nat mk in
      (* the property fixes the partition and the density of the indices, not the numbering:
         the model must yield the same partition with the same number of components; whether
         the numbering coincides too is recorded *)
      let same_part = mk = k && List.length mc = List.length comp
                      && same_partition (Array.of_list mc) (Array.of_list comp) in
      add (name ^ "_eq") (if same_part then "ok"
                          else fail ("model:" ^ string_of_ints mc ^ ";k:" ^ string_of_int mk));
      add ("i_" ^ name ^ "_numbering") (if mc = comp then "same" else "differs") in
    let tj = impl "tj" and ko = impl "ko" and tjs = impl "tjs" and ss = impl "ss" in
    oracle "tj" g tab_g "tj" tj;
    oracle "ko" g tab_g "ko" ko;
    oracle "tjs" sg tab_s "tjs" tjs;
    oracle "ss" sg tab_s "ss" ss;
    if status "tj" = "ok" then corr "tj" (tarjan g) tj;
    add "i_early" (if tarjan_early g then "yes" else "no");
    add "i_k" (string_of_int (snd tj));
    if status "ko" = "ok" then begin
      corr "ko" (kosaraju g (transpose g)) ko;
      if not big then add "fin" (if finish_orderedb g (top_sort g) then "ok" else fail "finish-order")
    end;
    if status "tjs" = "ok" then corr "tjs" (tarjan sg) tjs;
    let mss = symm_seq sg in
    if status "ss" = "ok" then corr "ss" mss ss;
    (* symm_par: one result per pool size *)
    let threads = ints_of_string (get args "spt") in
    let spst = String.split_on_char ',' (get args "spst") in
    let spk = ints_of_string (get args "spk") in
    let spc =
      let l = List.map ints_of_string (String.split_on_char ';' (get args "sp")) in
      if List.length l = List.length threads then l else List.map (fun _ -> []) threads in
    let msp = symm_par (fun _ l -> l) sg in
    let msp_rev = if big then msp else symm_par (fun _ l -> List.rev l) sg in
    let mspc = ints (fst msp) and mspk = int_of_nat (snd msp) in
    add "sp_model" (if msp = mss && msp_rev = mss then "ok" else fail "model-schedule-dependent");
    let bad_o = ref [] and bad_c = ref [] in
    List.iteri (fun i t ->
        let st = List.nth spst i and comp = List.nth spc i and k = List.nth spk i in
        if st <> "ok" then bad_o := (string_of_int t ^ ":" ^ st) :: !bad_o
        else begin
          (* the checker is not re-run on an array it has already decided *)
          let good =
            if big then List.length comp = n && dense (Array.of_list comp) k
            else chk "s" sg tab_s comp k in
          if not good then bad_o := (string_of_int t ^ ":" ^ string_of_ints comp) :: !bad_o;
          (* same partition and count as the model (the numbering is not part of the property) *)
          if not (k = mspk && List.length comp = List.length mspc
                  && same_partition (Array.of_list comp) (Array.of_list mspc)) then
            bad_c := (string_of_int t ^ ":" ^ string_of_ints comp) :: !bad_c
        end) threads;
    add (if big then "sp_dense" else "sp_scc") (if !bad_o = [] then "ok" else fail (String.concat "|" (List.rev !bad_o)));
    add "sp_eq" (if !bad_c = [] then "ok" else fail (String.concat "|" (List.rev !bad_c)));
    (* auxiliary cross checks *)
    if status "tj" = "ok" && status "ko" = "ok" then
      add "x_tjko" (if same_partition (Array.of_list (fst tj)) (Array.of_list (fst ko)) && snd tj = snd ko then "ok" else fail "partitions-differ");
    if status "tjs" = "ok" && status "ss" = "ok" then
      add "x_tjsss" (if same_partition (Array.of_list (fst tjs)) (Array.of_list (fst ss)) && snd tjs = snd ss then "ok" else fail "partitions-differ");
    (* compute_sizes *)
    if status "tj" = "ok" then begin
      let (comp, k) = tj in
      let msz = ints (compute_sizes (nats comp) (nat_of_int k)) in
      add "csz" (if get args "csz" = string_of_ints msz then "ok" else fail ("model:" ^ string_of_ints msz))
    end;
    (* renumbering by size *)
    let sorted key (ocomp, ok_) gr tab =
      match get_opt args (key ^ "st") with
      | None -> ()
      | Some st when st <> "ok" -> add (key ^ "_sorted") (fail st)
      | Some _ ->
        let ncomp = ints_of_string (get args key) and nk = get_int args (key ^ "k") in
        let sizes = ints_of_string (get args (key ^ "s")) in
        let ncomp_n = nats ncomp and ocomp_n = nats ocomp and k_n = nat_of_int ok_ in
        (* oracle: sizes non-increasing and equal to the sizes of the new numbering; count and
           partition unchanged; still the SCC partition *)
        let sz_new = compute_sizes ncomp_n k_n in
        add (key ^ "_sorted") (if nk = ok_ && non_increasing (nats sizes) && ints sz_new = sizes then "ok"
                               else fail ("sizes:" ^ string_of_ints sizes ^ ";recomputed:" ^ string_of_ints (ints sz_new)));
        add (key ^ "_part") (if (if big then same_partition (Array.of_list ocomp) (Array.of_list ncomp)
                                 else same_partitionb ocomp_n ncomp_n) then "ok" else fail (string_of_ints ncomp));
        if not big then
          add (key ^ "_scc") (if check_scc_tab gr tab ncomp_n k_n then "ok" else fail (string_of_ints ncomp));
        (* correspondence: the model with the permutation the implementation's sort chose *)
        let perm = Array.make (max ok_ 0) (-1) in
        let okp = ref (List.length ncomp = List.length ocomp) in
        if !okp then
          List.iter2 (fun o nw -> if nw >= 0 && nw < ok_ && (perm.(nw) = -1 || perm.(nw) = o) then perm.(nw) <- o else okp := false) ocomp ncomp;
        if Array.exists (fun x -> x < 0) perm then okp := false;
        if not !okp then add (key ^ "_eq") (fail "no-permutation")
        else begin
          let perm_n = nats (Array.to_list perm) in
          let osz = compute_sizes ocomp_n k_n in
          let (mcomp, msz) = sort_by_size ocomp_n k_n perm_n in
          add (key ^ "_eq") (if not (sorts_by_sizeb osz perm_n) then fail ("perm-does-not-sort:" ^ string_of_ints (Array.to_list perm))
                             else if ints mcomp = ncomp && ints msz = sizes then "ok"
                             else fail ("model:" ^ string_of_ints (ints mcomp) ^ ";sizes:" ^ string_of_ints (ints msz)))
        end in
    if status "tj" = "ok" then sorted "sb" tj g tab_g;
    if status "ko" = "ok" then sorted "psb" ko g tab_g
  end;
  Buffer.contents res

(* the command-line entry point *)
let run_cli (args : (string * string) list) : string =
  let n = get_int args "n" in
  let g = graph_of (get args "g") in
  let res = Buffer.create 128 in
  let add k v = Buffer.add_string res (" " ^ k ^ "=" ^ v) in
  let prep = get args "prep" and st = get args "st" in
  if List.length g <> n then add "parse" (fail "graph-length")
  else if prep <> "ok" then add "cli_prep" (fail prep)
  else if n = 0 && String.length st >= 4 && String.sub st 0 4 = "err:" then
    (* the command-line tools cannot load a graph file of zero bytes: an error return (not a
       panic) on the graph without nodes is a refusal, not a wrong answer *)
    add "cli_refused" "ok"
  else if st <> "ok" then add "cli_scc" (fail st)
  else begin
    let comp = ints_of_string (get args "comp") in
    (* without the sizes option the number of components is read off the labels and the sizes
       are recomputed from them *)
    let with_sizes = get_int_def args "sizesopt" 1 = 1 in
    let sizes = if with_sizes then ints_of_string (get args "sizes")
      else begin
        let k0 = List.fold_left (fun m c -> Stdlib.max m (c + 1)) 0 comp in
        ints (compute_sizes (nats comp) (nat_of_int k0))
      end in
    let k = List.length sizes in
    let renumber = get_int args "renumber" = 1 in
    add "cli_scc" (if check_scc g (nats comp) (nat_of_int k) then "ok"
                   else fail (string_of_ints comp ^ ";k:" ^ string_of_int k));
    let msz = ints (compute_sizes (nats comp) (nat_of_int k)) in
    add "cli_sizes" (if msz = sizes && ((not renumber) || non_increasing (nats sizes)) then "ok"
                     else fail ("sizes:" ^ string_of_ints sizes ^ ";recomputed:" ^ string_of_ints msz));
    let (mc, mk) = tarjan g in
    if renumber then
      add "cli_eq" (if int_of_nat mk = k && same_partitionb mc (nats comp) then "ok" else fail "partition-differs-from-model")
    else
      add "cli_eq" (if ints mc = comp && int_of_nat mk = k then "ok" else fail ("model:" ^ string_of_ints (ints mc)))
  end;
  Buffer.contents res

(* "sccbig": component arrays far above the minimum task length of the parallel loops, far
   too large for the nth-based model.  The verdict "big" is computed by the extracted n log n
   checker big_check_sort_by_size, proved to decide the array-level conclusions of
   S_sort_by_size (C15_big_sort_by_size_spec): same partition, indices below k, returned
   sizes = sizes of the new numbering, non-increasing; what compute_sizes() returns
   afterwards must be those sizes.  "bigagree" compares it with the verdict the harness
   computed by linear scans (hverdict): a cheap cross check of both. *)
let run_big (args : (string * string) list) : string =
  let status = get args "status" in
  let hv = get args "hverdict" in
  let n = get_int args "n" in
  let short s = if String.length s > 60 then String.sub s 0 60 ^ "..." else s in
  let mine =
    if status <> "ok" then fail (short status) else begin
      let nl key = List.map n_of_int (ints_of_string (get args key)) in
      let old_ = nl "old" and new_ = nl "new" and sizes = nl "sizes" in
      let k = n_of_int (get_int args "k") in
      if List.length old_ <> n then fail "case-length"
      else if not (Model.BigCheckM.big_check_sort_by_size k old_ new_ sizes) then fail "big_check_sort_by_size"
      else if get args "csizes" <> get args "sizes" then fail "compute_sizes"
      else "ok"
    end in
  " big=" ^ mine ^ " bigagree=" ^
  (if (mine = "ok") = (hv = "ok") then "ok" else fail ("driver:" ^ mine ^ ";harness:" ^ short hv))
