(* Channel "ess": ExactSumSweep (C16).  Oracle: the proved brute-force specification /
   checker (Algo/EssSpec.v: check_ess_dm and its parts) applied to what the implementation
   returned; schedule independence across thread pools.  Correspondence: replay of the
   OBSERVED step sequence (visits with their start vertices, SCC steps with their pivots,
   reported by the guarded call-out webgraph_algo::verif_hooks::ESS_STEP) on the abstract
   machine (Algo/Ess.v; directed runs with SCC steps: Algo/EssScc.v, with the components of
   the extracted model of sccs::tarjan). *)
open Model
open Model.EssSpecM
open Model.EssM
open Model.EssSccM
type string = Stdlib.String.t
let max = Stdlib.max
let min = Stdlib.min
open Conv

let nats l = List.map nat_of_int l
let ok b = if b then "ok" else "FAIL"

type spec = {
  g : nat list list;
  wf : bool;
  dm : nat option list list;
  largest : nat list;                 (* nodes of the largest components *)
  radials : (int, bool list) Hashtbl.t;  (* default radial set per candidate node *)
  mutable sd : sdata option;          (* components (model of sccs::tarjan), distances inside
                                         the components, component DAG: computed on demand *)
}

let specs : (string, spec) Hashtbl.t = Hashtbl.create 64
let last_key = ref ""

let spec_of (gs : string) : spec =
  match Hashtbl.find_opt specs gs with
  | Some s -> s
  | None ->
    (* the harness emits all runs on one graph consecutively: keep only recent graphs *)
    if Hashtbl.length specs > 8 then Hashtbl.reset specs;
    let g = List.map nats (lists_of_string gs) in
    let wf = wf_graph g in
    let dm = if wf then dist_matrix g else [] in
    let s = { g; wf; dm; largest = (if wf then largest_scc_nodes dm else []); radials = Hashtbl.create 4; sd = None } in
    Hashtbl.replace specs gs s; s

let radial_for (s : spec) (c : nat) : bool list =
  let ci = int_of_nat c in
  match Hashtbl.find_opt s.radials ci with
  | Some r -> r
  | None -> let r = radial_of s.dm c in Hashtbl.replace s.radials ci r; r

(* static data of the directed SCC step: the component numbering is that of the extracted
   model of sccs::tarjan (proved correct and reverse topological; channel "scc" compares it
   with the implementation's), the transpose only contributes indegrees to arc_value *)
let sdata_for (s : spec) : sdata =
  match s.sd with
  | Some d -> d
  | None ->
    let (comp, k) = Model.SccM.tarjan s.g in
    let d = mk_sdata s.g (Model.SccM.transpose s.g) comp k in
    s.sd <- Some d; d

(* distinct candidate default radial sets *)
let default_radials (s : spec) : bool list list =
  List.fold_left (fun acc c -> let r = radial_for s c in if List.mem r acc then acc else acc @ [r]) [] s.largest

let level_of (sym : bool) (l : string) : level =
  match l with
  | "all" -> LAll
  | "allf" -> if sym then LAll else LAllForward
  | "rd" -> LRadiusDiameter
  | "d" -> LDiameter
  | "r" -> LRadius
  | _ -> failwith ("bad level " ^ l)

(* first result seen for every (graph, options) key, for the schedule-independence aspect *)
let seen : (string, string * string) Hashtbl.t = Hashtbl.create 1024
let seen_graph = ref ""

let run (args : (string * string) list) : string =
  let gs = get args "g" in
  let sym = get_int args "sym" = 1 in
  let rad = get args "rad" in
  let lvl = get args "lvl" in
  let status = get args "status" in
  let res = Buffer.create 128 in
  let add k v = Buffer.add_string res (" " ^ k ^ "=" ^ v) in
  if status <> "ok" then begin add "status" ("FAIL(" ^ status ^ ")"); Buffer.contents res end
  else begin
    add "status" "ok";
    let s = spec_of gs in
    if not s.wf then failwith "graph not well formed";
    let l = level_of sym lvl in
    let geti k = match get_opt args k with Some v -> int_of_string v | None -> 0 in
    let getl k = match get_opt args k with Some v -> nats (ints_of_string v) | None -> [] in
    let eccf = getl "eccf" in
    let eccb = if sym then eccf else getl "eccb" in
    let radius = match get_opt args "radius" with Some "inf" -> None | Some v -> Some (nat_of_int (int_of_string v)) | None -> Some O in
    let o = { o_eccf = eccf; o_eccb = eccb; o_diam = nat_of_int (geti "diam"); o_dv = nat_of_int (geti "dv");
              o_rad = radius; o_rv = nat_of_int (geti "rv") } in
    let radials =
      if rad = "def" then default_radials s
      else [List.init (String.length rad) (fun i -> rad.[i] = '1')] in
    (* the proved checker, whole output at this level *)
    add "exact" (ok (List.exists (fun r -> check_ess_dm s.dm r o l) radials));
    (* its parts, for diagnosis *)
    if wants_eccf l then add "eccf" (ok (check_eccf s.dm o));
    if wants_eccb l && not sym then add "eccb" (ok (check_eccb s.dm o));
    if wants_diam l then begin
      add "diam" (if check_diam s.dm o then "ok" else "FAIL(spec:" ^ string_of_int (int_of_nat (diameter_of (eccs_f s.dm))) ^ ")");
      add "dv" (ok (check_dv s.dm o))
    end;
    if wants_rad l then begin
      let rok = List.filter (fun r -> check_rad s.dm r o) radials in
      add "radius" (if rok <> [] then "ok" else
        "FAIL(spec:" ^ String.concat "|" (List.map (fun r -> match radius_from (eccs_f s.dm) r with
            | Some x -> string_of_int (int_of_nat x) | None -> "none") radials) ^ ")");
      if rok <> [] then add "rv" (ok (List.exists (fun r -> check_rv s.dm r o) rok))
    end;
    (* the hypothesis of C16_symm_exit_exact (not proved in general): the radius of the radial
       set run_symm uses, a largest connected component, is at most n/2 *)
    if sym && wants_rad l then begin
      let n = List.length s.g in
      let ef = eccs_f s.dm in
      add "symhyp" (ok (List.for_all (fun r -> match radius_from ef r with
          | Some x -> int_of_nat x <= n / 2 | None -> true) radials))
    end;
    (* schedule independence: same values, counters and step sequence on every pool *)
    if !seen_graph <> gs then begin Hashtbl.reset seen; seen_graph := gs end;
    let key = String.concat " " [string_of_bool sym; rad; lvl; get args "tot"] in
    (* WHICH vertex attaining the diameter / radius is reported is not fixed by the property
       (each is judged by the oracle aspects dv / rv); values, counters and steps must agree *)
    let sig_keys = ["eccf"; "eccb"; "diam"; "radius"; "ri"; "di"; "fi"; "ai"; "steps"] in
    let signature = String.concat " " (List.map (fun k -> match get_opt args k with Some v -> k ^ "=" ^ v | None -> "") sig_keys) in
    let rv = match get_opt args "rv" with Some v -> v | None -> "" in
    (match Hashtbl.find_opt seen key with
     | None -> Hashtbl.replace seen key (signature, rv)
     | Some (s0, rv0) ->
       add "sched" (if s0 = signature then "ok" else "FAIL(differs-from-first-pool)");
       add "i_schedrv" (if rv0 = rv then "same" else "differs"));
    (* correspondence: replay of the OBSERVED steps on the abstract machine; every reported
       value and iteration counter must agree.  The steps come from a guarded call-out of the
       code (tokens F<v> / B<v>: visit from v; A:<p0>.<p1>...: SCC refinement step with the
       pivot array, indexed by component), not from log messages: direction and start vertex
       of every visit and the pivots of every SCC step are taken as they are, the machine's
       theorems hold for any legal ones.  Legality is checked here with the boolean tests
       proved equivalent to the hypotheses of the theorems (aspects vislegal, pivlegal).
       Symmetric branch on the machine of Algo/Ess.v (aspect replaya; its pivots are indexed
       by node: the pivot of a node is the observed pivot that reaches it), directed branch
       (component DAG of scc_graph.rs, propagation loops, per-node refinement) on the machine
       of Algo/EssScc.v (aspect replayd).  The model only decides where the initial SumSweep
       heuristic ends (split_heur: its iterations are skipped when nothing is incomplete),
       which matters for the iteration counters alone. *)
    let steps = split_on ',' (get args "steps") in
    let is_a t = t <> "" && t.[0] = 'A' in
    let has_a = List.exists is_a steps in
    if steps <> [] then begin
      let n = List.length s.g in
      let nn = nat_of_int n in
      let order = List.init n nat_of_int in
      let directed_a = has_a && not sym in
      let tot = get args "tot" = "1" in
      let num t k = int_of_string (String.sub t k (String.length t - k)) in
      let pivots_of t =
        if String.length t <= 2 then []
        else List.map (fun x -> nat_of_int (int_of_string x)) (String.split_on_char '.' (String.sub t 2 (String.length t - 2))) in
      let vis_ok = ref true and piv_ok = ref true in
      let ops = List.map (fun t ->
          if is_a t then begin
            let pv = pivots_of t in
            if sym then begin
              let byn = pivots_by_node s.dm nn pv in
              if not (one_pivot_each s.dm nn pv && legal_pivots_symb s.dm nn byn) then piv_ok := false;
              OAll (byn, order)
            end else begin
              let d = sdata_for s in
              if not (legal_pivotsb nn d.sd_comp d.sd_k pv) then piv_ok := false;
              OAll (pv, order)
            end
          end else begin
            let v = num t 1 in
            if v >= n || (t.[0] <> 'F' && t.[0] <> 'B') then vis_ok := false;
            if t.[0] = 'F' then OFwd (nat_of_int v, order) else OBwd (nat_of_int v, order)
          end) steps in
      add "vislegal" (ok !vis_ok);
      if has_a then add "pivlegal" (ok !piv_ok);
      let cmp_opt k (c : nat option) = match get_opt args k with
        | None -> true
        | Some v -> (match c with Some x -> int_of_nat x = int_of_string v | None -> false) in
      let one radial =
        let (okf, (c, mo)) =
          if directed_a then run_observed_dir s.dm nn (sdata_for s) radial ops l
          else run_observed_dm sym s.dm nn radial ops l in
        let vals =
          okf
          && (not (wants_eccf l) || mo.o_eccf = eccf)
          && (not (wants_eccb l) || sym || mo.o_eccb = eccb)
          && (not (wants_diam l) || mo.o_diam = o.o_diam)
          && (not (wants_rad l) || mo.o_rad = o.o_rad)
          && cmp_opt "ri" c.c_ri && cmp_opt "di" c.c_di && cmp_opt "fi" c.c_fi && cmp_opt "ai" c.c_ai in
        (vals, ((not (wants_rad l)) || mo.o_rv = o.o_rv) && ((not (wants_diam l)) || mo.o_dv = o.o_dv)) in
      let rs = List.map one radials in
      add (if directed_a then "replayd" else if has_a then "replaya" else "replay") (ok (List.exists fst rs));
      if directed_a then add "i_dsteps" (string_of_int (List.length (List.filter is_a steps)));
      (* the radial vertex: the per-node loop of the directed SCC step is a parallel iteration
         whose only shared state is (radius, vertex) under a lock with a strict comparison, so
         the vertex depends on the schedule; the model is run with the order 0..n-1, which is
         the order of a pool of one thread: exact comparison there, information otherwise (the
         oracle aspect rv decides) *)
      if List.exists fst rs then begin
        let rvok = List.exists (fun (a, b) -> a && b) rs in
        (* recorded, not judged: among several vertices attaining the value the tie-break is the
           implementation's *)
        add (if directed_a && get_int args "pool" > 1 then "i_rvsched" else "i_replayvertices") (if rvok then "same" else "differs")
      end;
      (* information only: do the observed pivots coincide with those of the model of
         find_best_pivot (best_pivots / best_pivots_dir, which fix one tie-break)?  The state
         before an SCC step does not depend on the radial set (it only drives the radius) *)
      if has_a && !vis_ok then begin
        let radial = match radials with r :: _ -> r | [] -> [] in
        let observed = List.filter_map (fun o -> match o with OAll (pv, _) -> Some pv | _ -> None) ops in
        let model =
          if sym then model_pivots true tot s.dm nn radial ops [] (init_st nn true)
          else model_pivots_dir tot s.dm nn (sdata_for s) radial ops [] (init_st nn false) in
        add "i_pivmatch" (if observed = model then "same" else "differs")
      end;
      (* information only: the steps derived from the progress-logger messages (the former
         source of the replay) name the same visits and SCC steps *)
      (match get_opt args "logsteps" with
       | None -> ()
       | Some ls ->
         let strip_log t = if is_a t then "A" else if String.length t >= 2 then String.make 1 t.[0] ^ String.sub t 2 (String.length t - 2) else t in
         let strip_obs t = if is_a t then "A" else t in
         add "i_logmatch" (if List.map strip_log (split_on ',' ls) = List.map strip_obs steps then "same" else "differs"))
    end;
    Buffer.contents res
  end

(* "essbig": schedule probe on a graph too large for the list-based checker; the verdict was
   computed by the harness from the construction of the graph - an unproved probe that is only
   passed through *)
let run_big (args : (string * string) list) : string =
  " big=" ^ (Conv.get args "verdict")
