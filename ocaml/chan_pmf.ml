(* Channel "pmf": parallel map-fold (C11).  The extracted machines ([pmf_run] for
   par_map_fold2_with and everything that delegates to it, [pmf_ord_run] for the ordered
   variant) are run on the configuration of the case under a pseudo-random schedule; the
   verdict (terminates / deadlocks) and the value are compared with what the
   implementation did (correspondence), and the property itself - termination with the
   value of the sequential fold - is evaluated on the implementation's result (oracle). *)
open Model
open Model.PmfM
open Model.PmfOrdM
type string = Stdlib.String.t
let max = Stdlib.max
let min = Stdlib.min
open Conv

let ord_mod = 1_000_000_007

let f_int (i : int) : int = (i * i + 7 * i + 1) mod 1_000_003

(* Cases whose primitive starts with "cli_" run a whole CLI command (site "cli" = inside
   install of a pool of [pool] threads): the machine is run for the number of chunks, the
   value compared is the command's output against its sequential counterpart, both
   computed by the implementation. *)

(* what the map function returns on item number [i] of the iterator of primitive [prim]
   over an input of [len] elements: the ranges primitives map chunk i, which is node i for
   par_node_apply (granularity one node) and node i or, for the last chunk, the empty
   range for par_apply (FairChunks ends with an empty chunk) *)
let item_value (prim : string) (len : int) (i : n) : int =
  let i = int_of_n i in
  if prim = "apply" && i >= len then 0 else f_int i

(* schedule: [k] pseudo-random choices derived from the seed of the case *)
let schedule (seed : int) (k : int) : nat list =
  let st = ref (seed * 2 + 1) in
  let rec go i acc =
    if i = 0 then acc
    else begin
      st := (!st * 1103515245 + 12345) land 0x3fffffff;
      go (i - 1) (nat_of_int ((!st lsr 8) mod 41) :: acc)
    end in
  go k []

let rec nseq_int a k = if k = 0 then [] else n_of_int a :: nseq_int (a + 1) (k - 1)

let run (args : (string * string) list) : string =
  let prim = get args "prim" in
  let ord = get args "variant" = "ord" in
  let len = get_int args "len" in
  let site = get args "site" in
  let pool = get_int args "pool" in
  let g = get_int args "g" in
  let seed = get_int args "seed" in
  if get args "terminated" = "skipped" then " skipped=after-repeated-hangs" else
  let terminated = get_int args "terminated" = 1 in
  let status = get args "status" in
  let res = Buffer.create 128 in
  let add k v = Buffer.add_string res (" " ^ k ^ "=" ^ v) in
  let okb b detail = if b then "ok" else "FAIL(" ^ detail ^ ")" in
  (* the iterator: its number of items and upper size hint.  When the run terminated the
     harness reports them; otherwise they follow from the primitive *)
  let items = match get_opt args "items" with
    | Some v -> int_of_string v
    | None -> if prim = "apply" then len + 1 else len in
  let hint = match get_opt args "hint" with
    | Some "none" -> None
    | Some v -> Some (nat_of_int (int_of_string v))
    | None -> if prim = "apply" then None else Some (nat_of_int len) in
  (* what the calling thread is: the kind follows from the call site, the size of its own
     pool (for a pool worker) is carried by the case *)
  let cpool = match get_opt args "cpool" with
    | Some "none" | None -> None
    | Some v -> Some (int_of_string v) in
  let caller = match site, cpool with
    | ("gspawn" | "gdetach"), _ -> OGlobalWorker
    | _, Some n -> OCustomWorker (nat_of_int n)
    | _, None -> OExternal in
  let gw = nat_of_int g in
  let model_cpool = match caller_pool gw caller with Some n -> Some (int_of_nat n) | None -> None in
  let model_threads = int_of_nat (caller_threads gw caller) in
  let show = function Some n -> string_of_int n | None -> "none" in
  (* the case is consistent with the model's notion of the caller's pool (a global worker's
     pool is the global pool; outside any pool there is none; install/cspawn/cli: pool) *)
  add "cpool" (okb (model_cpool = cpool
                    && (match site with "outside" -> cpool = None
                                      | "gspawn" | "gdetach" -> cpool = Some g
                                      | _ -> cpool = Some pool))
                 ("model:" ^ show model_cpool ^ ";case:" ^ show cpool));
  (* current_num_threads() and current_thread_index().is_some() as observed at the call site *)
  (match get_opt args "threads" with
   | Some t -> add "threads" (okb (int_of_string t = model_threads && model_threads = pool)
                                (Printf.sprintf "observed:%s;model:%d" t model_threads))
   | None -> ());
  (match get_opt args "worker" with
   | Some w -> add "worker" (okb ((w = "1") = (model_cpool <> None)) ("observed:" ^ w))
   | None -> ());
  let cli = String.length prim > 4 && String.sub prim 0 4 = "cli_" in
  let fv = item_value prim len in
  let sched k = schedule seed (min k 6000) in
  let value = match get_opt args "value" with Some v -> Some (int_of_string v) | None -> None in
  if ord then begin
    let fold a r = (a * 31 + r) mod ord_mod in
    let expected = if cli then get_int_def args "cliexpect" (-1)
      else List.fold_left fold 7 (List.map fv (nseq_int 0 items)) in
    let out = pmf_ord_run gw caller hint (nat_of_int items) (sched (12 * items + 64)) in
    (* which branch the implementation took: in the sequential branch every item is mapped
       on the calling thread, otherwise none is (the consumers map, the caller drains) *)
    let seq = seq_branch gw caller in
    (match get_opt args "oncaller" with
     | Some v ->
       let want = if seq then items else 0 in
       add "branch" (okb (int_of_string v = want)
                       (Printf.sprintf "mapped-on-caller:%s;model:%d" v want))
     | None -> ());
    (match out with
     | OTerminated arr ->
       add "verdict" (okb terminated "model:terminates;impl:deadlock");
       if seq && not cli then
         add "seqorder" (okb (arr = nseq_int 0 items) "model:sequential-branch-out-of-order");
       let mv = if cli then expected else ord_value fv fold 7 arr in
       (match (if cli then None else value) with
        | Some v -> add "mvalue" (okb (mv = v) (Printf.sprintf "model:%d;impl:%d" mv v))
        | None -> ());
       add "mseq" (okb (mv = expected) (Printf.sprintf "model:%d;seq:%d" mv expected))
     | ODeadlock -> add "verdict" (okb (not terminated) "model:deadlock;impl:terminates")
     | OOutOfFuel -> add "verdict" "FAIL(model:out-of-fuel)");
    add "terminated" (okb terminated "deadlock");
    if terminated then begin
      add "status" (okb (status = "ok") status);
      (match value with
       | Some v -> add "value" (okb (v = expected) (Printf.sprintf "impl:%d;seq:%d" v expected))
       | None -> ())
    end;
    if not cli then add "expect" (okb (get_int args "expect" = expected) "harness-expectation")
  end else begin
    let internal = site <> "outside" in
    let expected = if cli then get_int_def args "cliexpect" (-1)
      else seq_fold fv (+) 0 (nseq_int 0 items) in
    let out = pmf_run (nat_of_int pool) hint internal (nat_of_int items) (sched (6 * items + 64)) in
    (match out with
     | Terminated (self, got) ->
       add "verdict" (okb terminated "model:terminates;impl:deadlock");
       let mv = if cli then expected else combine_results fv (+) (+) 0 self got in
       (match (if cli then None else value) with
        | Some v -> add "mvalue" (okb (mv = v) (Printf.sprintf "model:%d;impl:%d" mv v))
        | None -> ());
       add "mseq" (okb (mv = expected) (Printf.sprintf "model:%d;seq:%d" mv expected))
     | Deadlock -> add "verdict" (okb (not terminated) "model:deadlock;impl:terminates")
     | OutOfFuel -> add "verdict" "FAIL(model:out-of-fuel)");
    add "terminated" (okb terminated "deadlock");
    if terminated then begin
      add "status" (okb (status = "ok") status);
      (match value with
       | Some v -> add "value" (okb (v = expected) (Printf.sprintf "impl:%d;seq:%d" v expected))
       | None -> ())
    end;
    if not cli then add "expect" (okb (get_int args "expect" = expected) "harness-expectation")
  end;
  Buffer.contents res
