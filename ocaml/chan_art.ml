(* Channel "art": a compressed-graph artefact produced by the implementation (bytes of
   the .graph file, optionally of the .offsets file) together with the input graph and
   the configuration.  Every check below is made by extracted model functions; this file
   only parses, calls them and prints. *)
open Model
type string = Stdlib.String.t
let max = Stdlib.max
let min = Stdlib.min
open Conv

type bst = { buf : Bytes.t; le : bool; total : int }

(* windowed bit reader over a byte buffer, state = bit position *)
let rd_win (cs : codes) (st : bst) (k : kind) (pos : int) : (n * int) option =
  let rec attempt w =
    let avail = min w (st.total - pos) in
    let bits = bits_of_bytes st.le st.buf pos avail in
    match rd_bits st.le cs k bits with
    | Some (v, rest) -> Some (v, pos + avail - List.length rest)
    | None -> if avail >= st.total - pos then None else attempt (w * 8) in
  if pos > st.total then None else attempt 96

let params_of args : params =
  { window = n_of_int (get_int args "w");
    max_ref = (match get args "mr" with "inf" -> None | v -> Some (n_of_int (int_of_string v)));
    min_len = n_of_int (get_int args "L") }

let ok b = if b then "ok" else "FAIL"

(* split [l] into consecutive segments of the given lengths *)
let rec segments (lens : int list) (l : 'a list) : 'a list list =
  match lens with
  | [] -> []
  | k :: lens' ->
    let rec take i l acc = if i = 0 then (List.rev acc, l) else
        match l with x :: l' -> take (i - 1) l' (x :: acc) | [] -> (List.rev acc, []) in
    let (a, b) = take k l [] in a :: segments lens' b

let run (args : (string * string) list) : string =
  let p = params_of args in
  let cs = codes_of_string (get args "codes") in
  let le = get_int args "le" = 1 in
  let g_int = lists_of_string (get args "g") in
  let nn = List.length g_int in
  let g = List.map (List.map n_of_int) g_int in
  let buf = bytes_of_hex (get args "graph") in
  let glen = get_int args "glen" in
  let st = { buf; le; total = glen } in
  (* chunk cut points (node ids), default one chunk *)
  let cuts = match get_opt args "cuts" with Some c -> ints_of_string c | None -> [0; nn] in
  let res = Buffer.create 256 in
  let add k v = Buffer.add_string res (" " ^ k ^ "=" ^ v) in
  let status = match get_opt args "status" with Some s -> s | None -> "ok" in
  let is_dataset = get_opt args "path" = Some "dataset" in
  if status <> "ok" then begin
    (* an error return is legitimate exactly when the format cannot express the codes *)
    add "refusal" (ok (not (representable le cs)));
    Buffer.contents res
  end else begin
  if not is_dataset then add "refusal" (ok (representable le cs));
  (* the properties text: the model's text for the same statistics, float keys dropped *)
  (match get_opt args "props" with
   | Some ph when not is_dataset ->
     let itext = string_of_hex ph in
     let float_keys = ["avgref="; "avgdist="; "bitsperlink="; "bitspernode="; "compratio="] in
     let starts l k = String.length l >= String.length k && String.sub l 0 (String.length k) = k in
     let lines = String.split_on_char '\n' itext in
     let kept = List.filter (fun l -> not (List.exists (starts l) float_keys)) lines in
     let itext' = String.concat "\n" kept in
     let f = { fl_codes = cs; fl_window = p.window;
               fl_maxref = (match p.max_ref with None -> n_usize_max | Some m -> m); fl_minlen = p.min_len } in
     let st0 = { s_nodes = n_of_int nn; s_arcs = n_of_int (get_int args "arcs"); s_bits = n_of_int glen } in
     (match to_props le st0 f with
      | Some mt ->
        (* as in the flags channel: another spelling of the same code assignment is accepted
           when the proved parser reads the same assignment from both texts *)
        let fk2 = float_keys @ ["compressionflags="; "zetak="] in
        let same_sets = props_canon float_keys (string_of_coq mt) = props_canon float_keys itext' in
        let same_meaning = props_canon fk2 (string_of_coq mt) = props_canon fk2 itext'
                           && parse_properties le (coq_of_string itext) = parse_properties le mt in
        add "props" (ok (same_sets || same_meaning))
      | None -> add "props" "FAIL(model-refuses)");
     (match parse_properties le (coq_of_string itext) with
      | Some ((pn, pa), pf) -> add "propsback" (ok (pn = st0.s_nodes && pa = st0.s_arcs && pf = f))
      | None -> add "propsback" "FAIL(unparsable)");
     (* the composed loader of the link theorems (C12 o C01): configured ONLY from the
        implementation's properties text, run on the implementation's stream *)
     if glen <= 60000 then begin
       let bits = bits_of_bytes le buf 0 glen in
       match load_seq le (coq_of_string itext) bits with
       | Some (lists, _) -> add "load" (ok (lists = g))
       | None -> add "load" "FAIL(load-error)"
     end
   | _ -> ());
  (* the three-file loader of the link theorem C05_link_load_files: properties text, .graph
     and .offsets bytes all as the implementation wrote them; random access to a sample of
     nodes (first, last, and up to six in between) *)
  (match get_opt args "props", get_opt args "offsets" with
   | Some ph, Some oh when not is_dataset && glen <= 60000 && nn > 0 ->
     let text = coq_of_string (string_of_hex ph) in
     let ob = bytes_of_hex oh in
     let obits = bits_of_bytes false ob 0 (Bytes.length ob * 8) in
     let bits = bits_of_bytes le buf 0 glen in
     let step = Stdlib.max 1 (nn / 7) in
     let rec xs i = if i >= nn then [nn - 1] else i :: xs (i + step) in
     let fuel = nat_of_int nn in
     let bad = List.filter (fun x ->
       load_ra_files le text obits bits fuel (n_of_int x) <> Some (List.nth g x)) (xs 0) in
     add "loadra" (match bad with [] -> "ok" | x :: _ -> Printf.sprintf "FAIL(node%d)" x)
   | _ -> ());
  (* the expected graph of a CLI transform step, recomputed with the proved specification
     functions of C09 from the source graph *)
  (match get_opt args "xop", get_opt args "xsrc" with
   | Some xop, Some xsrc ->
     let src = List.map (List.map n_of_int) (lists_of_string xsrc) in
     let nl l = List.map n_of_int (ints_of_string l) in
     (* the set-theoretic specification [xop_spec] costs about n^2 * arcs list look-ups; on
        larger graphs the expected graph is computed with the pipeline model [run_xop]
        (insertion sort as the sorter, one partition), which theorem C09_run_xop (with
        C09_ksort_ok) proves equal to [xop_spec] on every well-formed input *)
     let nsrc = List.length src in
     let asrc = List.fold_left (fun a l -> a + List.length l) 0 src in
     let spec op =
       if nsrc * nsrc * (asrc + 1) <= 2_000_000 then Some (Model.XformM.xop_spec op src)
       else match Model.XformM.run_xop Model.XformM.ksort Model.XformM.ksortd op false
                    (nat_of_int 1) [n_of_int 0; n_of_int nsrc] [nat_of_int 0] src with
         | (Some e, _) -> Some e
         | (None, _) -> Some (Model.XformM.xop_spec op src) in
     let expected =
       match String.split_on_char ':' xop with
       | ["id"] -> Some src
       | ["transpose"] -> spec Model.XformM.XTranspose
       | ["symm"] -> spec (Model.XformM.XSymm false)
       | ["symmnl"] -> spec (Model.XformM.XSymm true)
       | ["perm"; l] -> spec (Model.XformM.XPermute (nl l))
       | ["perm"] -> spec (Model.XformM.XPermute [])
       | ["map"; m; l] -> spec (Model.XformM.XMap (nl l, n_of_int (int_of_string m)))
       | ["map"; m] -> spec (Model.XformM.XMap ([], n_of_int (int_of_string m)))
       | _ -> None in
     (match expected with
      | Some e -> add "xspec" (ok (e = g))
      | None -> add "xspec" "FAIL(unknown-xop)")
   | _ -> ());
  (* 1. decode with the model decoder (pure list-of-bits reader when small) *)
  let decoded =
    if glen <= 400000 then begin
      let bits = bits_of_bytes le buf 0 glen in
      let total = n_of_int glen in
      match decode_records (rd_bits le cs) (fun s -> n_of_int (glen - List.length s)) p
              (nat_of_int nn) N0 [] bits with
      | Some (rs, rest) -> ignore total; Some (rs, List.length rest)
      | None -> None
    end else begin
      match decode_records (rd_win cs st) (fun pos -> n_of_int pos) p (nat_of_int nn) N0 [] 0 with
      | Some (rs, pos) -> Some (rs, glen - pos)
      | None -> None
    end in
  (match decoded with
   | None -> add "rt" "FAIL(decode-error)"
   | Some (rs, left) ->
     let lists = List.map (fun ((_, l), _) -> l) rs in
     let rt = lists = g in
     add "rt" (if rt then "ok" else
                 let rec first i a b = match a, b with
                   | x :: a', y :: b' -> if x = y then first (i + 1) a' b' else i
                   | _ -> i in
                 Printf.sprintf "FAIL(node%d)" (first 0 lists g));
     let partial = get_opt args "partial" = Some "1" in
     if not partial then add "trail" (if left = 0 then "ok" else Printf.sprintf "FAIL(%d-bits-left)" left);
     let recs = List.map (fun ((r, l), _) -> (r, l)) rs in
     let sel = List.map (fun ((r, _), _) -> r.r_ref) rs in
     add "wf" (ok (wf_records p N0 [] recs));
     (* chunk starts per node *)
     let seglens = let rec go = function a :: (b :: _ as t) -> (b - a) :: go t | _ -> [] in go cuts in
     let starts = List.concat (List.map2 (fun s k -> List.init k (fun _ -> n_of_int s))
                                 (List.filteri (fun i _ -> i < List.length seglens) cuts) seglens) in
     add "chunkrefs" (ok (List.length starts = nn && refs_in_chunk N0 sel starts));
     add "depth" (ok (max_depth_ok p.max_ref sel));
     (* 2. re-encode with the implementation's own reference choices *)
     if rt && get_opt args "noreenc" <> Some "1" then begin
       let recs_fields = encode_graph p N0 g sel in
       let mbits = graph_bits le cs recs_fields in
       let ibits = bits_of_bytes le buf 0 (if partial then min glen (List.length mbits) else glen) in
       add "reenc" (ok (mbits = ibits));
       let lens = node_bitlens le cs recs_fields in
       let poss = List.map (fun (_, ps) -> ps) rs in
       let sums = prefix_sums N0 lens in
       let rec firstn k l = if k = 0 then [] else match l with x :: l' -> x :: firstn (k - 1) l' | [] -> [] in
       add "pos" (ok (firstn nn sums = poss));
       (match get_opt args "offsets" with
        | None -> ()
        | Some oh ->
          let ob = bytes_of_hex oh in
          let obits = bits_of_bytes false ob 0 (Bytes.length ob * 8) in
          (match dec_gammas (nat_of_int (nn + 1)) obits with
           | Some (vs, rest) ->
             add "offsets" (ok (vs = N0 :: lens));
             (* the remainder must be padding zeros only *)
             add "offpad" (ok (List.for_all (fun b -> not b) rest
                               && (match get_opt args "olen" with
                                   | Some ol -> int_of_string ol = Bytes.length ob * 8 - List.length rest
                                   | None -> true)))
           | None -> add "offsets" "FAIL(decode-error)"));
       (* Elias-Fano and degree-cumulative entries read back through the library *)
       (* "ef": built from the .offsets file; "ef2": built by scanning the graph when there
          is no .offsets file *)
       List.iter (fun key ->
         match get_opt args key with
         | Some e when String.length e > 0 && (e.[0] >= '0' && e.[0] <= '9') ->
           add key (ok (List.map n_of_int (ints_of_string e) = sums))
         | Some e -> add key ("FAIL(" ^ e ^ ")")
         | None -> ()) ["ef"; "ef2"];
       (match get_opt args "dcf" with
        | Some e when String.length e > 0 && (e.[0] >= '0' && e.[0] <= '9') ->
          let degs = List.map (fun l -> n_of_int (List.length l)) g in
          add "dcf" (ok (List.map n_of_int (ints_of_string e) = prefix_sums N0 degs))
        | Some e -> add "dcf" ("FAIL(" ^ e ^ ")")
        | None -> ());
       (match get_opt args "exits" with
        | Some e -> add "exits" (ok (List.for_all (fun x -> x = 0) (ints_of_string e)))
        | None -> ());
       (* 3. selector comparison *)
       (match get_opt args "comp" with
        | Some "greedy" ->
          let segs = segments seglens g in
          let sstarts = List.filteri (fun i _ -> i < List.length seglens) cuts in
          (* the implementation's choices, chunk by chunk, must be a run of the greedy rule
             under some tie-break among equally cheap candidates (proved checker
             [greedy_run_ok]: C06_greedy_run_window_chunk, C06_greedy_run_depth) *)
          let ssel = segments seglens sel in
          let rec run_all i ss cc sl = match ss, cc, sl with
            | s :: ss', c :: cc', l :: sl' ->
              if greedy_run_ok p cs (n_of_int s) c l then run_all (i + 1) ss' cc' sl'
              else Some i
            | [], [], [] -> None
            | _ -> Some i in
          add "selrun" (if List.length sel <> nn then "FAIL(length)" else
                          match run_all 0 sstarts segs ssel with
                          | None -> "ok"
                          | Some i -> Printf.sprintf "FAIL(segment%d)" i);
          (* informational: do they also coincide with the model's own tie-break (the
             nearest candidate of minimal cost)? *)
          let msel = List.concat (List.map2 (fun s c -> greedy_sel p cs (n_of_int s) c) sstarts segs) in
          add "i_selmatch" (if msel = sel then "same" else "differs")
        | Some "zuck" ->
          let k = get_int args "chunk" in
          let segs = segments seglens g in
          let msel = List.concat (List.map2 (fun s c -> zuck_sel p cs (nat_of_int k) (n_of_int s) c)
                                    (List.filteri (fun i _ -> i < List.length seglens) cuts) segs) in
          add "selmatch" (ok (msel = sel))
        | _ -> ());
       add "nrefs" (string_of_int (List.length (List.filter (fun d -> d <> N0) sel)))
     end);
  Buffer.contents res
  end

(* Channel "clistep": exit statuses and listings of CLI commands that produce no file set *)
let run_step (args : (string * string) list) : string =
  let res = Buffer.create 64 in
  let add k v = Buffer.add_string res (" " ^ k ^ "=" ^ v) in
  (match get_opt args "exit" with Some e -> add "exit" (ok (e = "0")) | None -> ());
  (match get_opt args "exits" with
   | Some e -> add "exits" (ok (List.for_all (fun x -> x = 0) (ints_of_string e))) | None -> ());
  (match get_opt args "arcs" with Some a -> add "arcs" a | None -> ());
  (* a faulty input must be refused with a non-zero status *)
  (match get_opt args "badexit" with
   | Some e -> add "badinput" (if e <> "0" then "ok" else "FAIL(exit-0-on-faulty-input)")
   | None -> ());
  (* an arc-less input: the command must not report success without a file set *)
  (match get_opt args "files" with
   | Some f -> add "nofiles" (ok (f = "1" || get_opt args "exit" <> Some "0")); Buffer.clear res;
               add "nofiles" (ok (f = "1" || get_opt args "exit" <> Some "0"))
   | None -> ());
  Buffer.contents res
