(* Channels "flags" and "jprops": the properties file (C12). *)
open Model
type string = Stdlib.String.t
let max = Stdlib.max
let min = Stdlib.min
open Conv

let describe (r : ((n * n) * flags) option) : string =
  match r with
  | None -> "err"
  | Some ((nodes, arcs), f) ->
    let cs = f.fl_codes in
    Printf.sprintf "%s;%s;%s;%s;%s;%s"
      (String.concat "," (List.map string_of_code [cs.cd_outdeg; cs.cd_ref; cs.cd_block; cs.cd_int; cs.cd_res]))
      (token_of_n f.fl_window) (token_of_n f.fl_maxref) (token_of_n f.fl_minlen)
      (token_of_n nodes) (token_of_n arcs)

let norm_back (b : string) : string =
  if String.length b >= 3 && (String.sub b 0 3 = "err") then "err"
  else b

let ok b = if b then "ok" else "FAIL"

let run_flags (args : (string * string) list) : string =
  let le = get_int args "le" = 1 in
  let cs = codes_of_string (get args "codes") in
  let f = { fl_codes = cs; fl_window = n_of_token (get args "w"); fl_maxref = n_of_token (get args "mr");
            fl_minlen = n_of_token (get args "L") } in
  let st = { s_nodes = n_of_token (get args "nodes"); s_arcs = n_of_token (get args "arcs");
             s_bits = n_of_token (get args "bits") } in
  let status = get args "status" in
  let impl_ok = status = "ok" in
  let model = to_props le st f in
  let res = Buffer.create 128 in
  let add k v = Buffer.add_string res (" " ^ k ^ "=" ^ v) in
  (match model with
   | None ->
     add "refusal" (ok (not impl_ok && String.length status >= 3 && String.sub status 0 3 = "err"));
     add "representable" (ok (not (representable le cs)))
   | Some mt ->
     add "refusal" (ok impl_ok);
     add "representable" (ok (representable le cs));
     if impl_ok then begin
       let itext = string_of_hex (get args "text") in
       let mtext = string_of_coq mt in
       (* compared as key=value sets: order of the lines and comment lines are not content *)
       (* the statistics lines (floating-point formatting) are not compared *)
       let fk = ["avgref="; "avgdist="; "bitsperlink="; "bitspernode="; "compratio="] in
       (* the same code assignment can be spelt in several ways (a default code written out
          explicitly, the order of the flags): texts that differ only in the compressionflags /
          zetak lines are accepted when the PROVED parser reads the same assignment from both *)
       let fk2 = fk @ ["compressionflags="; "zetak="] in
       let same_sets = props_canon fk itext = props_canon fk mtext in
       let same_meaning = props_canon fk2 itext = props_canon fk2 mtext
                          && describe (parse_properties le (coq_of_string itext)) = describe (parse_properties le mt) in
       add "text" (if same_sets || same_meaning then "ok" else "FAIL");
       add "i_textflags" (if same_sets then "same" else "other-spelling");
       add "i_textexact" (if itext = mtext then "same" else "differs");
       (* the model's reading of the implementation's text *)
       let mback = describe (parse_properties le (coq_of_string itext)) in
       add "back" (if mback = norm_back (get args "back") then "ok" else "FAIL(model:" ^ mback ^ ")");
       (* round trip on the implementation: what it read back is what was given *)
       let expect = describe (Some ((st.s_nodes, st.s_arcs), f)) in
       add "roundtrip" (if norm_back (get args "back") = expect then "ok" else "FAIL(expected:" ^ expect ^ ")");
       add "length" (ok (props_length (coq_of_string itext) = Some st.s_bits));
       add "other" (ok (norm_back (get args "backother") = "err"))
     end);
  Buffer.contents res

let run_jprops (args : (string * string) list) : string =
  let text = string_of_hex (get args "text") in
  let mback = describe (parse_properties false (coq_of_string text)) in
  let iback = norm_back (get args "back") in
  " java=" ^ (if mback = iback then "ok" else "FAIL(model:" ^ mback ^ ";impl:" ^ iback ^ ")")
