(* Channels "split", "ranges", "chunks": splitting a labeling for parallel work (C10).
   Oracle aspects evaluate the property on what the implementation returned, with the
   proved specification functions [slices], [cuts_ok], [chainb]; correspondence aspects
   compare the implementation with the extracted model ([lb_split], [lb_iter],
   [uniform_cuts], [dcf_cuts], [node_ranges], [fair_chunks_new]). *)
open Model
open Model.SplitM
open Model.ArcListM
type string = Stdlib.String.t
let max = Stdlib.max
let min = Stdlib.min
open Conv

type part = (int * int list) list

let parse_elem (s : string) : int * int list =
  match String.index_opt s ':' with
  | Some i -> (int_of_string (String.sub s 0 i), ints_of_string (String.sub s (i + 1) (String.length s - i - 1)))
  | None -> failwith ("bad element " ^ s)

let parse_part (s : string) : part =
  if s = "" then [] else List.map parse_elem (String.split_on_char ';' s)

let parse_parts (s : string) : part list =
  if s = "none" then [] else List.map parse_part (String.split_on_char '/' s)

let nl (l : int list) : n list = List.map n_of_int l
let il (l : n list) : int list = List.map int_of_n l

let part_of_lender (l : (n * n list) list) : part = List.map (fun (x, s) -> (int_of_n x, il s)) l
let lender_of_part (p : part) : (n * n list) list = List.map (fun (x, s) -> (n_of_int x, nl s)) p

type v =
  | G of n labeling
  | L of (n * n) labeling
  | U of (n * unit) labeling

let graph_of args k : n list list = List.map nl (lists_of_string (get args k))

(* the labeling denoted by a shape in reverse Polish notation, e.g. "ra0.seq1.union.noloops" *)
let eval_shape (args : (string * string) list) : n labeling =
  let perm () = nl (ints_of_string (get args "perm")) in
  let step (st : v list) (tok : string) : v list =
    match tok, st with
    | "ra0", _ -> G (ra_lab (graph_of args "g0")) :: st
    | "ra1", _ -> G (ra_lab (graph_of args "g1")) :: st
    (* CsrGraph::from_seq_graph gives a graph without nodes one node *)
    | "csr0", _ -> G (ra_lab (match graph_of args "g0" with [] -> [[]] | g -> g)) :: st
    | "csr1", _ -> G (ra_lab (match graph_of args "g1" with [] -> [[]] | g -> g)) :: st
    | "seq0", _ -> G (seq_lab (graph_of args "g0")) :: st
    | "seq1", _ -> G (seq_lab (graph_of args "g1")) :: st
    | "lra0", _ ->
      let g = graph_of args "g0" and l = graph_of args "l0" in
      L (ra_lab (List.map2 (fun a b -> List.combine a b) g l)) :: st
    | "left", L x :: r -> G (left_lab x) :: r
    | "left", U x :: r -> G (left_lab x) :: r
    | "right", L x :: r -> G (right_lab x) :: r
    | "unit", G x :: r -> U (unit_lab x) :: r
    | "noloops", G x :: r -> G (noloops_lab x) :: r
    | "perm", G x :: r -> G (permuted_lab (perm ()) x) :: r
    | "par", G x :: r -> G (par_lab x) :: r
    | "union", G b :: G a :: r -> G (union_lab a b) :: r
    | _ -> failwith ("bad shape token " ^ tok) in
  match List.fold_left step [] (String.split_on_char '.' (get args "shape")) with
  | [G x] -> x
  | _ -> failwith "bad shape"

let ok b = if b then "ok" else "FAIL"
let okd b d = if b then "ok" else "FAIL(" ^ d ^ ")"

let show_parts (ps : part list) : string =
  let e (x, s) = string_of_int x ^ ":" ^ string_of_ints s in
  if ps = [] then "none" else String.concat "/" (List.map (fun p -> String.concat ";" (List.map e p)) ps)

let trunc s = if String.length s > 120 then String.sub s 0 120 ^ "..." else s

let panic_kind (status : string) : string =
  (* "panic:<kind>:<msg>" *)
  match String.split_on_char ':' status with
  | "panic" :: k :: _ -> k
  | _ -> "other"

let model_kind = function TooFew -> "toofew" | Decreasing -> "decreasing" | BeyondEnd -> "beyond"

let rec last_or d = function [] -> d | [x] -> x | _ :: r -> last_or d r

let run_split (args : (string * string) list) : string =
  let res = Buffer.create 128 in
  let add k v = Buffer.add_string res (" " ^ k ^ "=" ^ v) in
  let op = get args "op" in
  let status = get args "status" in
  let n = get_int args "n" in
  let shape = get args "shape" in
  let sorted_shape = shape = "psorted" in
  if op = "scan" || op = "setup" then begin
    (* the harness could not even build / scan the labeling *)
    add "nopanic" ("FAIL(" ^ trunc status ^ ")"); Buffer.contents res
  end else begin
    let scan = parse_part (get args "scan") in
    let model = if sorted_shape then ra_lab (graph_of args "g0") else eval_shape args in
    let mscan = part_of_lender (lb_iter model) in
    add "mscan" (okd (mscan = scan) ("model:" ^ trunc (show_parts [mscan])));
    add "mn" (okd (int_of_n model.lb_n = n) (string_of_int (int_of_n model.lb_n)));
    (* node ids of the scan: 0..n-1 unless permuted *)
    let has_perm = List.mem "perm" (String.split_on_char '.' shape) in
    if not has_perm then
      add "ids" (ok (List.map fst scan = List.init n (fun i -> i)))
    else add "ids" (ok (List.length scan = n));
    let legal = (match get_opt args "legal" with Some "0" -> false | _ -> true) in
    let k = get_int_def args "k" 0 in
    let given_cuts = match get_opt args "cuts" with Some c -> ints_of_string c | None -> [] in
    (* the model's answer: (result, boundaries) *)
    let (mres, mbounds) : n split_result * n list option =
      match op with
      | "at" -> (model.lb_split (nl given_cuts), None)
      | "k" ->
        (* WHICH k+1 cutpoints a request for k parts uses is the implementation's choice (the
           ceiling formula today); the model is split at the cut sequence implied by the
           lengths of the parts the implementation returned - the theorems hold for every
           legal cut sequence - and the oracle demands k contiguous parts covering the scan *)
        (match get_opt args "parts", status with
         | Some ps, "ok" ->
           let lens = List.map List.length (parse_parts ps) in
           let cuts_obs = List.rev (List.fold_left (fun acc l -> (List.hd acc + l) :: acc) [0] lens) in
           (model.lb_split (nl cuts_obs), None)
         | _ -> (split_iter model (n_of_int k), None))
      | "ipl" ->
        (* the DEFAULT split into parallel lenders (how many, and at which cutpoints) is the
           implementation's choice; the model is split at the boundaries the implementation
           REPORTED - the theorems hold for every legal cut sequence - and the oracle checks that
           they are legal, run from 0 to n and describe the lenders *)
        (match get_opt args "bounds", status with
         | Some b, "ok" when b <> "-" && b <> "" ->
           let (r, bb) = into_par_cutpoints model (nl (ints_of_string b)) in (r, Some bb)
         | _ -> let (r, b) = into_par_uniform model (n_of_int k) in (r, Some b))
      | "ipl_cp" -> let (r, b) = into_par_cutpoints model (nl given_cuts) in (r, Some b)
      | "ipl_dcf" ->
        let cwf = dcf_of (lb_iter model) in
        let cuts = dcf_cuts cwf model.lb_n (last_or N0 cwf) (n_of_int k) in
        let (r, b) = into_par_cutpoints model cuts in (r, Some b)
      | "ipl_sorted" -> (Parts [], None)
      | _ -> failwith ("bad op " ^ op) in
    if status <> "ok" then begin
      (* a panic: never acceptable on a legal input *)
      if legal then add "nopanic" ("FAIL(" ^ trunc status ^ ")");
      (match mres with
       | Panic pk -> add "mparts" (okd (model_kind pk = panic_kind status) ("model:panic-" ^ model_kind pk))
       | Parts _ -> add "mparts" "FAIL(model:no-panic)")
    end else begin
      let parts = parse_parts (get args "parts") in
      let bounds = match get_opt args "bounds" with
        | Some "-" | None -> None
        | Some b -> Some (ints_of_string b) in
      (* the cut sequence the parts must realise *)
      let cuts : int list =
        match op, bounds with
        | "at", _ -> given_cuts
        | "k", _ ->
          let lens = List.map List.length parts in
          List.rev (List.fold_left (fun acc l -> (List.hd acc + l) :: acc) [0] lens)
        | _, Some b -> b
        | _, None -> [] in
      if legal then begin
        add "nopanic" "ok";
        let ncuts = nl cuts in
        add "legalcuts" (ok (cuts_ok ncuts (n_of_int n)));
        let expect : part list = slices ncuts scan in
        add "parts" (okd (parts = expect) ("expected:" ^ trunc (show_parts expect) ^ ";got:" ^ trunc (show_parts parts)));
        add "count" (okd (List.length parts = List.length cuts - 1)
                       (string_of_int (List.length parts) ^ "-parts-for-" ^ string_of_int (List.length cuts) ^ "-cuts"));
        (* boundaries reported with lenders: from 0 to n, and the lenders cover the scan *)
        (match op with
         | "k" | "ipl" | "ipl_cp" | "ipl_dcf" | "ipl_sorted" ->
           let full = (match cuts with c0 :: _ -> c0 = 0 | [] -> false) && last_or (-1) cuts = n in
           if op <> "ipl_cp" then add "fullbounds" (ok full);
           if full then add "cover" (ok (List.concat parts = scan));
           (* an explicit request for k parts must be honoured; the DEFAULT number of parallel
              lenders (op "ipl") is not fixed by the property - only its agreement with the
              reported boundaries is (aspect "count") - so it is recorded, not judged *)
           if op = "k" then begin
             add "nparts" (ok (List.length parts = k));
             add "i_kcuts" (if cuts = il (uniform_cuts (n_of_int n) (n_of_int k)) then "ceiling" else "other")
           end;
           if op = "ipl" then add "i_nparts" (if List.length parts = k then "threads" else "other");
           if op = "ipl_cp" then add "boundsgiven" (ok (bounds = Some given_cuts))
         | _ -> ())
      end;
      (* the cursor model of ArcListGraph's lender, part by part *)
      if get args "impl" = "Left<ArcListGraph>" && op = "at" && legal then begin
        let g = graph_of args "g0" in
        let arcs = List.concat (List.mapi (fun x l -> List.map (fun y -> (n_of_int x, y)) l) g) in
        let nn = n_of_int n in
        let rec go = function
          | a :: ((b :: _) as rest) ->
            (match al_skip (nat_of_int a) nn { al_node = N0; al_arcs = arcs } with
             | Some st -> part_of_lender (al_collect (nat_of_int (b - a)) nn st) :: go rest
             | None -> [])
          | _ -> [] in
        let mps = go given_cuts in
        add "malist" (okd (mps = parts) ("model:" ^ trunc (show_parts mps)))
      end;
      if not sorted_shape then begin
        (match mres with
         | Parts mps ->
           let mps = List.map part_of_lender mps in
           add "mparts" (okd (mps = parts) ("model:" ^ trunc (show_parts mps) ^ ";impl:" ^ trunc (show_parts parts)))
         | Panic pk -> add "mparts" ("FAIL(model:panic-" ^ model_kind pk ^ ")"));
        (match mbounds, bounds with
         | Some mb, Some b -> add "mbounds" (okd (il mb = b) ("model:" ^ string_of_ints (il mb)))
         | _ -> ())
      end
    end;
    Buffer.contents res
  end

let parse_ranges (s : string) : (int * int) list =
  List.map (fun t ->
      match String.split_on_char '-' t with
      | [a; b] -> (int_of_string a, int_of_string b)
      | _ -> failwith ("bad range " ^ t)) (split_on ',' s)

(* granularities may be usize::MAX (arc granularity over a graph without arcs) *)
let big_n_of_string (s : string) : n =
  if String.length s > 17 then n_usize_max else n_of_int (int_of_string s)

let show_ranges rs = String.concat "," (List.map (fun (a, b) -> string_of_int a ^ "-" ^ string_of_int b) rs)

let run_ranges (chunks : bool) (args : (string * string) list) : string =
  let res = Buffer.create 128 in
  let add k v = Buffer.add_string res (" " ^ k ^ "=" ^ v) in
  let n = get_int args "n" in
  let g = big_n_of_string (get args "g") in
  let status = get args "status" in
  let ranges = parse_ranges (get args "ranges") in
  let requested =
    match String.split_on_char ':' (get args "gran") with
    | [_; x] -> (try int_of_string x with _ -> 1)
    | _ -> 1 in
  if g = N0 && requested = 0 then
    (* a zero granularity is not a legal input of the property *)
    add "refused" (ok true)
  else if g = N0 then begin
    (* the caller asked for a positive granularity but the library derived 0 from it: the
       tasks must still partition [0, n) (no model comparison: the model needs g > 0) *)
    if status <> "ok" then add "nopanic" ("FAIL(" ^ trunc status ^ ")")
    else begin
      add "nopanic" "ok";
      let nr = List.map (fun (a, b) -> (n_of_int a, n_of_int b)) ranges in
      add "partition" (okd (chainb N0 nr (n_of_int n)) ("derived-granularity-0:" ^ trunc (show_ranges ranges)))
    end
  end
  else if status <> "ok" then add "nopanic" ("FAIL(" ^ trunc status ^ ")")
  else begin
    add "nopanic" "ok";
    let nr = List.map (fun (a, b) -> (n_of_int a, n_of_int b)) ranges in
    (* the ranges handed to the closure, sorted, partition [0, n) *)
    add "partition" (okd (chainb N0 nr (n_of_int n)) (trunc (show_ranges ranges)));
    let model =
      if chunks then
        let degs = nl (ints_of_string (get args "degs")) in
        fair_chunks_new g (cumul N0 degs)
      else node_ranges (n_of_int n) g in
    let model = List.map (fun (a, b) -> (int_of_n a, int_of_n b)) model in
    add "mranges" (okd (model = ranges) ("model:" ^ trunc (show_ranges model)))
  end;
  Buffer.contents res
