(* Model driver: reads case lines "<channel> key=value ..." and prints one result line per
   case: "<id> key=value ...".  Each channel is served by extracted model functions. *)
let channels : (string * ((string * string) list -> string)) list = [
  ("art", Chan_art.run);
  ("flags", Chan_flags.run_flags);
  ("jprops", Chan_flags.run_jprops);
  ("prank", Chan_prank.run);
]

let () =
  let ic = if Array.length Sys.argv > 1 then open_in Sys.argv.(1) else stdin in
  (try
     while true do
       let line = input_line ic in
       if String.length line > 0 && line.[0] <> '#' then begin
         let (chan, args) = Conv.parse_line line in
         let id = try List.assoc "id" args with Not_found -> "?" in
         let out =
           try (List.assoc chan channels) args
           with
           | Not_found -> " error=unknown-channel-" ^ chan
           | Failure m -> " error=" ^ String.map (fun c -> if c = ' ' then '_' else c) m
           | Stack_overflow -> " error=stack-overflow" in
         print_string (chan ^ " id=" ^ id ^ out ^ "\n")
       end
     done
   with End_of_file -> ());
  flush stdout
