(* Model driver: reads case lines "<channel> key=value ..." and prints one result line per
   case: "<id> key=value ...".  Each channel is served by extracted model functions. *)
let channels : (string * ((string * string) list -> string)) list = [
  ("acc", Chan_acc.run);
  ("art", Chan_art.run);
  ("codes", Chan_codes.run);
  ("clistep", Chan_art.run_step);
  ("flags", Chan_flags.run_flags);
  ("jprops", Chan_flags.run_jprops);
  ("visit", Chan_visit.run);
  ("dfs", Chan_dfs.run_dfs);
  ("dfsalgo", Chan_dfs.run_dfsalgo);
  ("hball", Chan_hball.run);
  ("split", Chan_split.run_split);
  ("ranges", Chan_split.run_ranges false);
  ("chunks", Chan_split.run_ranges true);
  ("scc", Chan_scc.run);
  ("scccli", Chan_scc.run_cli);
  ("llpcomb", Chan_llp.run_comb);
  ("llpranks", Chan_llp.run_ranks);
  ("llpinv", Chan_llp.run_inv);
  ("llprun", Chan_llp.run_run);
  ("ess", Chan_ess.run);
  ("sort", Chan_sort.run_sort);
  ("sortcodec", Chan_sort.run_codec);
  ("sortkm", Chan_sort.run_km);
  ("xform", Chan_xform.run);
  ("pmf", Chan_pmf.run);
  ("lab", Chan_lab.run);
  ("prank", Chan_prank.run);
]

let () =
  let ic = if Array.length Sys.argv > 1 then open_in Sys.argv.(1) else stdin in
  (try
     while true do
       let line = input_line ic in
       if String.length line > 0 && line.[0] <> '#' then begin
         let (chan, args) = Conv.parse_line line in
         let id = try List.assoc "id" args with Not_found -> "?" in
         let out =
           try (List.assoc chan channels) args
           with
           | Not_found -> " error=unknown-channel-" ^ chan
           | Failure m -> " error=" ^ String.map (fun c -> if c = ' ' then '_' else c) m
           | Stack_overflow -> " error=stack-overflow" in
         print_string (chan ^ " id=" ^ id ^ out ^ "\n")
       end
     done
   with End_of_file -> ());
  flush stdout
