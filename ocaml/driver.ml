(* Model driver: reads case lines "<channel> key=value ..." and prints one result line per
   case: "<id> key=value ...".  Each channel is served by extracted model functions. *)
let channels : (string * ((string * string) list -> string)) list = [
  ("acc", Chan_acc.run);
  ("art", Chan_art.run);
  ("codes", Chan_codes.run);
  ("clistep", Chan_art.run_step);
  ("flags", Chan_flags.run_flags);
  ("jprops", Chan_flags.run_jprops);
  ("visit", Chan_visit.run);
  ("dfs", Chan_dfs.run_dfs);
  ("dfsalgo", Chan_dfs.run_dfsalgo);
  ("hball", Chan_hball.run);
  ("split", Chan_split.run_split);
  ("ranges", Chan_split.run_ranges false);
  ("chunks", Chan_split.run_ranges true);
  ("scc", Chan_scc.run);
  ("scccli", Chan_scc.run_cli);
  ("sccbig", Chan_scc.run_big);
  ("llpcomb", Chan_llp.run_comb);
  ("llpranks", Chan_llp.run_ranks);
  ("llpinv", Chan_llp.run_inv);
  ("llpbig", Chan_llp.run_big);
  ("llprun", Chan_llp.run_run);
  ("ess", Chan_ess.run);
  ("essbig", Chan_ess.run_big);
  ("sort", Chan_sort.run_sort);
  ("sortcodec", Chan_sort.run_codec);
  ("sortkm", Chan_sort.run_km);
  ("xform", Chan_xform.run);
  ("pmf", Chan_pmf.run);
  ("lab", Chan_lab.run);
  ("prank", Chan_prank.run);
]

let timeouts = ref 0
let case_timeout = try int_of_string (Sys.getenv "VERIF_CASE_TIMEOUT") with _ -> 20
(* the watchdog counts CPU time of this process (ITIMER_VIRTUAL), not wall-clock time, so
   that it does not depend on the load of the machine; the exact rational solver of the
   "prank" channel gets a larger budget, and so do the two channels that sort up to a
   million inductive numbers with the extracted merge sort (measured: at most about 15 s
   of CPU for a case of 1 000 003 nodes) *)
let timeout_of chan args =
  (* artefacts: the budget grows with the length of the bit stream (the whole Java-written
     data sets of the thorough tier are 7-9 Mbit and take about 30 s to decode and re-encode) *)
  let art_factor =
    if chan = "art" then
      (match List.assoc_opt "glen" args with
       | Some g -> (try 1 + int_of_string g / 1_000_000 with _ -> 1)
       | None -> 1)
    else if chan = "scc" then
      (* dense graphs of several hundred nodes (thorough tier): the list-based models of the
         four SCC algorithms take about 0.5 s per thousand arcs *)
      (match List.assoc_opt "arcs" args with
       | Some a -> (try 1 + int_of_string a / 8_000 with _ -> 1)
       | None -> 1)
    else 1 in
  float_of_int (if chan = "prank" then 6 * case_timeout
                else if chan = "sccbig" || chan = "llpbig" then 10 * case_timeout
                else art_factor * case_timeout)
let set_timer secs =
  ignore (Unix.setitimer Unix.ITIMER_VIRTUAL { Unix.it_interval = 0.0; Unix.it_value = secs })

let () =
  Sys.set_signal Sys.sigvtalrm (Sys.Signal_handle (fun _ -> raise Conv.Case_timeout));
  let ic = if Array.length Sys.argv > 1 then open_in Sys.argv.(1) else stdin in
  (try
     while true do
       let line = input_line ic in
       if String.length line > 0 && line.[0] <> '#' then begin
         let (chan, args) = Conv.parse_line line in
         let id = try List.assoc "id" args with Not_found -> "?" in
         let out =
           if !timeouts >= 8 then " error=skipped-after-repeated-model-timeouts" else
           try
             (* per-case watchdog: garbage produced by a broken implementation must not make
                the model run away (e.g. an absurd interval length being expanded) *)
             set_timer (timeout_of chan args);
             let r = (List.assoc chan channels) args in
             set_timer 0.0; r
           with
           | Conv.Case_timeout -> set_timer 0.0; incr timeouts;
             if chan = "art" then " rt=FAIL(model-decoder-timeout)" else " error=model-timeout"
           | Out_of_memory -> set_timer 0.0; incr timeouts; Gc.compact ();
             if chan = "art" then " rt=FAIL(model-decoder-out-of-memory)" else " error=model-out-of-memory"
           | Not_found -> " error=unknown-channel-" ^ chan
           | Failure m -> " error=" ^ String.map (fun c -> if c = ' ' then '_' else c) m
           | Stack_overflow -> " error=stack-overflow" in
         print_string (chan ^ " id=" ^ id ^ out ^ "\n")
       end
     done
   with End_of_file -> ());
  flush stdout
