(* Channels "sort", "sortcodec", "sortkm": external sorting (C08).
   Oracle aspects evaluate the property on what the implementation returned, with the
   specification functions of the model (sort_spec, boundaries, sdedup, ksort/kdedup);
   correspondence aspects compare the extracted model's output with the implementation's. *)
open Model
open Model.SortM
type string = Stdlib.String.t
let max = Stdlib.max
let min = Stdlib.min
open Conv

type t3 = (n * n) * n   (* ((src, dst), label) *)

let rec triples_of_ints (l : int list) : t3 list =
  match l with
  | s :: d :: lb :: rest -> ((n_of_int s, n_of_int d), n_of_int lb) :: triples_of_ints rest
  | [] -> []
  | _ -> failwith "triples: length not a multiple of 3"

let ints_of_triples (l : t3 list) : int list =
  List.concat_map (fun ((s, d), lb) -> [int_of_n s; int_of_n d; int_of_n lb]) l

let keys (l : t3 list) : (int * int) list = List.map (fun ((s, d), _) -> (int_of_n s, int_of_n d)) l
let ikeys (l : (n * n) list) : (int * int) list = List.map (fun (s, d) -> (int_of_n s, int_of_n d)) l
let full (l : t3 list) : (int * int * int) list =
  List.map (fun ((s, d), lb) -> (int_of_n s, int_of_n d, int_of_n lb)) l
let sorted_full l = List.sort compare (full l)

let show_keys (l : (int * int) list) : string =
  let l' = if List.length l > 12 then List.filteri (fun i _ -> i < 12) l else l in
  String.concat "," (List.map (fun (s, d) -> Printf.sprintf "%d:%d" s d) l')

let ok b = if b then "ok" else "FAIL"
let bool_arg args k = get_int args k = 1

let codec_of (s : string) : codec_kind = if s = "gaps" then CGaps else CGrouped

(* deterministic pseudo-random small naturals (tie-breaks of the model's heap) *)
let ties_of (seed : int) (len : int) : nat list =
  let st = ref (seed land 0x3FFFFFFF) in
  List.init len (fun _ ->
    st := (!st * 1103515245 + 12345) land 0x3FFFFFFF;
    nat_of_int ((!st lsr 16) mod 7))

let hash_id (id : string) : int = Hashtbl.hash id

let rec take k l = if k <= 0 then [] else match l with [] -> [] | x :: r -> x :: take (k - 1) r

(* ---------------------------------------------------------------------------------- *)

let is_seq_entry e =
  List.mem e ["pi_sort_seq"; "pi_try_sort_seq"; "pi_sort_labeled_seq"; "pi_try_sort_labeled_seq";
              "g_sort_pairs"; "g_sort_graph"]
let is_blocks_entry e = List.mem e ["pi_sort"; "pi_sort_labeled"; "g_par_sort_pair_iters"]

let run_sort (args : (string * string) list) : string =
  let id = get args "id" in
  let entry = get args "entry" in
  let k = codec_of (get args "codec") in
  let cd = bool_arg args "cd" and md = bool_arg args "md" in
  let ni = get_int args "n" and pi = get_int args "p" in
  let threads = get_int args "threads" and mu = get_int args "mu" in
  let n = n_of_int ni and p = nat_of_int pi in
  let blocks : t3 list list = List.map triples_of_ints (lists_of_string (get args "blocks")) in
  let input = List.concat blocks in
  let m = List.length input in
  let status = get args "status" in
  let res = Buffer.create 128 in
  let add a v = Buffer.add_string res (" " ^ a ^ "=" ^ v) in
  let bad_src = List.exists (fun ((s, _), _) -> int_of_n s >= ni) input in
  let expect_err = bad_src || get args "ierr" <> "-" in
  let is_err = String.length status >= 4 && String.sub status 0 4 = "err:" in
  (* the error clause: Err exactly when a source is out of range (or the input itself
     failed); never a panic, a hang or an abort *)
  add "status" (if expect_err then (if is_err then "ok" else "FAIL(expected-err;got:" ^ status ^ ")")
                else if status = "ok" then "ok" else "FAIL(expected-ok;got:" ^ status ^ ")");
  (* model: capacity of the buffers and split of the input among producers *)
  let bs = if mu = 0 then m + 1
    else int_of_n (if is_seq_entry entry then batch_size_seq (n_of_int mu) p
                   else batch_size_par (n_of_int mu) (nat_of_int threads) p) in
  let cap = nat_of_int (min bs (m + 1)) in
  let prods : (nat * t3 list) list =
    if is_seq_entry entry then [(cap, input)]
    else if is_blocks_entry entry then List.map (fun b -> (cap, b)) blocks
    else
      (* parallel iterator: any split; here round-robin runs of 3 over [threads] producers *)
      List.init threads (fun w ->
        (cap, List.filteri (fun i _ -> (i / 3) mod threads = w) input)) in
  let ties = List.init pi (fun i -> ties_of (hash_id id + i) (m + 1)) in
  let model = sort_pipeline k n p cd md prods ties in
  (match model with
   | SErr -> add "merr" (ok expect_err)
   | SPanic -> add "merr" "FAIL(model-panic)"
   | SDone _ -> add "merr" (ok (not bad_src)));
  if status = "ok" && not bad_src then begin
    let ibounds = ints_of_string (get args "bounds") in
    let iparts : t3 list list = List.map triples_of_ints (lists_of_string (get args "parts")) in
    let mbounds = List.map int_of_n (boundaries n p) in
    (* boundaries: p+1 non-decreasing entries from 0 to n.  WHICH ones is the implementation's
       choice (ceiling-sized stripes today): the partitions are judged against the REPORTED
       boundaries; whether they follow the model's formula is recorded *)
    let nn = int_of_n n in
    let rec nondec = function a :: (b :: _ as r) -> a <= b && nondec r | _ -> true in
    let legal_bounds = List.length ibounds = pi + 1 && (match ibounds with b0 :: _ -> b0 = 0 | [] -> false)
                       && List.nth ibounds pi = nn && nondec ibounds in
    add "bounds" (if legal_bounds then "ok" else "FAIL(illegal:" ^ string_of_ints ibounds ^ ")");
    add "i_boundsformula" (if ibounds = mbounds then "model" else "other");
    add "nparts" (ok (List.length iparts = pi));
    let ikeys_in = List.map fst input in
    (* partition i = the specified keys, in order *)
    let bad = ref "" in
    List.iteri (fun i part ->
      if !bad = "" then begin
        (* the specification of ONE partition covering everything, applied to the keys whose
           source lies in the reported range of partition i *)
        let lo = (try List.nth ibounds i with _ -> 0) and hi = (try List.nth ibounds (i + 1) with _ -> 0) in
        let in_range k = let sx = int_of_n (fst k) in sx >= lo && sx < hi in
        let spec = ikeys (sort_spec md n (nat_of_int 1) (nat_of_int 0) (List.filter in_range ikeys_in)) in
        if keys part <> spec then
          bad := Printf.sprintf "part%d:got:%s;want:%s" i (show_keys (keys part)) (show_keys spec)
      end) iparts;
    add "parts" (if !bad = "" then "ok" else "FAIL(" ^ !bad ^ ")");
    (* labels stay attached: without deduplication the triples of the output are the
       triples of the input (multiset); with it every output triple is an input triple *)
    let all_out = List.concat iparts in
    if md then begin
      let tbl = Hashtbl.create 64 in
      List.iter (fun t -> Hashtbl.replace tbl t ()) (full input);
      add "labels" (ok (List.for_all (fun t -> Hashtbl.mem tbl t) (full all_out)))
    end else
      add "labels" (ok (sorted_full all_out = sorted_full input));
    (* model = implementation (keys, partition by partition) *)
    (match model with
     | SDone (mb, mparts) ->
       add "model" (ok (List.map int_of_n mb = ibounds && List.map keys mparts = List.map keys iparts))
     | _ -> add "model" "FAIL(model-not-done)");
    (* batch files *)
    let raw_files = lists_of_string (get args "batches") in
    (* a single one-element entry is the harness's marker for "temporary files exist but do
       not follow the naming scheme the inspection knows": the layout of the sorter's
       temporary files is an internal detail, so the batch-file aspects are then skipped *)
    let unknown_layout = (match raw_files with [[_]] -> true | _ -> false) in
    if unknown_layout then add "i_batchlayout" "unknown";
    let files = if unknown_layout then [] else List.map (fun l ->
      match l with
      | w :: pp :: idx :: rest -> ((w, pp, idx), triples_of_ints rest)
      | _ -> failwith "batches: short entry") raw_files in
    if get_int_def args "vx" 1 = 1 && not unknown_layout then begin
      (* every file holds at most one buffer, of sources of its partition *)
      let in_range pp ((s, _), _) =
        let lo = List.nth mbounds pp and hi = List.nth mbounds (pp + 1) in
        int_of_n s >= lo && int_of_n s < hi in
      add "bfiles" (ok (List.for_all (fun ((_, pp, _), ts) ->
        pp < pi && (mu = 0 || List.length ts <= bs) && List.for_all (in_range pp) ts) files));
      (* nothing lost on the way to disk *)
      let all_b = List.concat_map snd files in
      if cd then add "bunion" (ok (List.sort_uniq compare (keys all_b) = List.sort_uniq compare (keys input)))
      else add "bunion" (ok (sorted_full all_b = sorted_full input));
      (* sequential entry points: the files are exactly the model's flushed batches *)
      if is_seq_entry entry then begin
        match producer n p (cap, input) with
        | SDone per_part ->
          let mfiles = List.concat (List.mapi (fun pp bl ->
            List.mapi (fun idx b -> ((0, pp, idx), keys (codec_rt k cd (isort b)))) bl) per_part) in
          let ifiles = List.map (fun (key, ts) -> (key, keys ts)) files in
          add "batches" (ok (List.sort compare mfiles = List.sort compare ifiles))
        | _ -> add "batches" "FAIL(model-producer)"
      end
    end
  end;
  Buffer.contents res

(* ---------------------------------------------------------------------------------- *)

let flat_toks (ts : n tok list) : int list =
  List.map (fun t -> match t with TN x -> int_of_n x | TL l -> int_of_n l) ts

(* the values read from a file, tagged the way the decoder reads them *)
let toks_of_ints (k : codec_kind) (l : int list) : n tok list =
  match l with
  | [] -> []
  | len :: rest ->
    let rec gaps l = match l with
      | sg :: dg :: lb :: r -> TN (n_of_int sg) :: TN (n_of_int dg) :: TL (n_of_int lb) :: gaps r
      | _ -> [] in
    let rec grouped l = match l with
      | sg :: od :: r -> TN (n_of_int sg) :: TN (n_of_int od) :: elems od r
      | _ -> []
    and elems cnt l =
      if cnt = 0 then grouped l
      else match l with
        | dg :: lb :: r -> TN (n_of_int dg) :: TL (n_of_int lb) :: elems (cnt - 1) r
        | _ -> [] in
    TN (n_of_int len) :: (match k with CGaps -> gaps rest | CGrouped -> grouped rest)

let rec key_sorted (l : t3 list) : bool =
  match l with
  | a :: ((b :: _) as r) -> kleb (fst a) (fst b) && key_sorted r
  | _ -> true

let run_codec (args : (string * string) list) : string =
  let k = codec_of (get args "codec") in
  let cd = bool_arg args "cd" in
  let status = get args "status" in
  if status <> "ok" then " status=FAIL(" ^ status ^ ")"
  else begin
    let raw = triples_of_ints (ints_of_string (get args "raw")) in
    let sorted = triples_of_ints (ints_of_string (get args "sorted")) in
    let itoks = ints_of_string (get args "toks") in
    let dec = triples_of_ints (ints_of_string (get args "dec")) in
    let res = Buffer.create 64 in
    let add a v = Buffer.add_string res (" " ^ a ^ "=" ^ v) in
    add "status" "ok";
    (* the in-place sort returned a key-sorted permutation (hypothesis of the theorems) *)
    add "sortperm" (ok (key_sorted sorted && sorted_full sorted = sorted_full raw));
    (* round trip on the implementation: decode(encode(b)) = b, or its first-of-each-key
       subsequence when the codec deduplicates *)
    let want = sdedup cd sorted in
    add "dec" (ok (full dec = full want));
    add "tt" (ok (get_int args "tt" = List.length want));
    (* the file content is the model's *)
    let mtoks = codec_encode k cd sorted in
    add "toks" (if flat_toks mtoks = itoks then "ok"
                else "FAIL(model:" ^ string_of_ints (take 12 (flat_toks mtoks)) ^ ")");
    (* the model's decoder on the implementation's file *)
    add "mdec" (ok (full (codec_decode k (toks_of_ints k itoks)) = full dec));
    Buffer.contents res
  end

(* ---------------------------------------------------------------------------------- *)

let run_km (args : (string * string) list) : string =
  let id = get args "id" in
  let md = bool_arg args "md" in
  let status = get args "status" in
  if status <> "ok" then " status=FAIL(" ^ status ^ ")"
  else begin
    let lists = List.map triples_of_ints (lists_of_string (get args "lists")) in
    let out = triples_of_ints (ints_of_string (get args "out")) in
    let all_in = List.concat lists in
    let res = Buffer.create 64 in
    let add a v = Buffer.add_string res (" " ^ a ^ "=" ^ v) in
    add "status" "ok";
    let spec = ikeys (kdedup md (ksort (List.map fst all_in))) in
    add "kmspec" (if keys out = spec then "ok" else "FAIL(want:" ^ show_keys spec ^ ")");
    if md then begin
      let tbl = Hashtbl.create 64 in
      List.iter (fun t -> Hashtbl.replace tbl t ()) (full all_in);
      add "kmlabels" (ok (List.for_all (fun t -> Hashtbl.mem tbl t) (full out)))
    end else add "kmlabels" (ok (sorted_full out = sorted_full all_in));
    let m = kmerge md (ties_of (hash_id id) (List.length all_in + 1)) lists in
    add "kmmodel" (ok (keys m = keys out));
    Buffer.contents res
  end
