(* Conversions between OCaml ints/strings and the extracted inductive numbers, and
   parsing helpers for case lines.  Hand-written glue (trusted base). *)
open Model
type string = Stdlib.String.t

exception Case_timeout

let rec pos_of_int (i : int) : positive =
  if i = 1 then XH
  else if i land 1 = 0 then XO (pos_of_int (i lsr 1))
  else XI (pos_of_int (i lsr 1))

let n_of_int (i : int) : n = if i = 0 then N0 else Npos (pos_of_int i)

let rec int_of_pos (p : positive) : int =
  match p with XH -> 1 | XO q -> 2 * int_of_pos q | XI q -> 2 * int_of_pos q + 1

let int_of_n (x : n) : int = match x with N0 -> 0 | Npos p -> int_of_pos p

let z_of_int (i : int) : z =
  if i = 0 then Z0 else if i > 0 then Zpos (pos_of_int i) else Zneg (pos_of_int (-i))

let int_of_z (x : z) : int =
  match x with Z0 -> 0 | Zpos p -> int_of_pos p | Zneg p -> - (int_of_pos p)

let rec nat_of_int (i : int) : nat = if i <= 0 then O else S (nat_of_int (i - 1))
let rec int_of_nat (x : nat) : int =
  let rec go acc = function O -> acc | S y -> go (acc + 1) y in go 0 x

(* numbers possibly above max_int are not needed: usize values fit in 63 bits in all
   generated cases; u64::MAX-like values are passed as the token "inf" *)

let split_on c s = if s = "" then [] else String.split_on_char c s

let ints_of_string (s : string) : int list = List.map int_of_string (split_on ',' s)

let nlist_of_string s = List.map n_of_int (ints_of_string s)

(* "1,2;3;;4" -> [[1;2];[3];[];[4]]   ("" -> [] and "-" denotes a single empty list) *)
let lists_of_string (s : string) : int list list =
  if s = "" then [] else if s = "-" then [[]]
  else List.map ints_of_string (String.split_on_char ';' s)

let string_of_ints l = String.concat "," (List.map string_of_int l)
let string_of_lists ll = if ll = [[]] then "-" else String.concat ";" (List.map string_of_ints ll)

let parse_line (line : string) : string * (string * string) list =
  match String.split_on_char ' ' (String.trim line) with
  | [] -> ("", [])
  | chan :: rest ->
    let kv tok =
      match String.index_opt tok '=' with
      | Some i -> (String.sub tok 0 i, String.sub tok (i + 1) (String.length tok - i - 1))
      | None -> (tok, "") in
    (chan, List.map kv (List.filter (fun t -> t <> "") rest))

let get args k = try List.assoc k args with Not_found -> failwith ("missing key " ^ k)
let get_opt args k = try Some (List.assoc k args) with Not_found -> None
let get_int args k = int_of_string (get args k)
let get_int_def args k d = match get_opt args k with Some v -> int_of_string v | None -> d

let code_of_string (s : string) : code =
  match s with
  | "U" -> Unary | "G" -> Gamma | "D" -> Delta | "O" -> Omega
  | _ ->
    let k = n_of_int (int_of_string (String.sub s 1 (String.length s - 1))) in
    (match s.[0] with 'Z' -> Zeta k | 'P' -> Pi k | _ -> failwith ("bad code " ^ s))

let string_of_code (c : code) : string =
  match c with
  | Unary -> "U" | Gamma -> "G" | Delta -> "D" | Omega -> "O"
  | Zeta k -> "Z" ^ string_of_int (int_of_n k) | Pi k -> "P" ^ string_of_int (int_of_n k)

let codes_of_string (s : string) : codes =
  match List.map code_of_string (String.split_on_char ',' s) with
  | [a; b; c; d; e] -> { cd_outdeg = a; cd_ref = b; cd_block = c; cd_int = d; cd_res = e }
  | _ -> failwith "codes: need five"

let bytes_of_hex (h : string) : Bytes.t =
  let n = String.length h / 2 in
  Bytes.init n (fun i -> Char.chr (int_of_string ("0x" ^ String.sub h (2 * i) 2)))

let hex_of_string (s : string) : string =
  String.concat "" (List.map (fun c -> Printf.sprintf "%02x" (Char.code c))
                      (List.init (String.length s) (String.get s)))

let string_of_hex h = Bytes.to_string (bytes_of_hex h)

(* bit [i] of the stream stored in [b]: big-endian streams are MSB-first inside each byte,
   little-endian streams LSB-first *)
let stream_bit (le : bool) (b : Bytes.t) (i : int) : bool =
  let byte = Char.code (Bytes.get b (i lsr 3)) in
  if le then (byte lsr (i land 7)) land 1 = 1 else (byte lsr (7 - (i land 7))) land 1 = 1

let bits_of_bytes (le : bool) (b : Bytes.t) (from : int) (len : int) : bool list =
  let rec go i acc = if i < from then acc else go (i - 1) (stream_bit le b i :: acc) in
  go (from + len - 1) []

let rec list_len_int l = List.length l

(* Coq strings (inductive ascii of 8 booleans, least significant first) *)
let coq_of_char (c : char) : ascii =
  let n = Char.code c in
  let b i = (n lsr i) land 1 = 1 in
  Ascii (b 0, b 1, b 2, b 3, b 4, b 5, b 6, b 7)

let char_of_coq (a : ascii) : char =
  match a with
  | Ascii (b0, b1, b2, b3, b4, b5, b6, b7) ->
    let v b i = if b then 1 lsl i else 0 in
    Char.chr (v b0 0 + v b1 1 + v b2 2 + v b3 3 + v b4 4 + v b5 5 + v b6 6 + v b7 7)

let coq_of_string (s : string) : Model.string =
  let rec go i acc = if i < 0 then acc else go (i - 1) (String (coq_of_char s.[i], acc)) in
  go (String.length s - 1) EmptyString

let string_of_coq (s : Model.string) : string =
  let b = Buffer.create 64 in
  let rec go = function EmptyString -> () | String (a, r) -> Buffer.add_char b (char_of_coq a); go r in
  go s; Buffer.contents b

(* usize::MAX *)
let n_usize_max : n =
  let rec ones k = if k = 1 then XH else XI (ones (k - 1)) in Npos (ones 64)

let n_of_token (s : string) : n = if s = "inf" then n_usize_max else n_of_int (int_of_string s)
let token_of_n (x : n) : string = if x = n_usize_max then "inf" else string_of_int (int_of_n x)

(* A Java properties text as what it denotes: the set of key=value lines, comment lines (#, !)
   and blank lines dropped, order ignored.  Used to compare the implementation's properties
   text with the model's: the order of the keys and the comment header are not part of the
   content of a properties file. *)
let props_canon (drop_keys : Stdlib.String.t list) (text : Stdlib.String.t) : Stdlib.String.t list =
  let starts l k = Stdlib.String.length l >= Stdlib.String.length k && Stdlib.String.sub l 0 (Stdlib.String.length k) = k in
  let lines = Stdlib.String.split_on_char '\n' text in
  let lines = List.map Stdlib.String.trim lines in
  let keep l = l <> "" && l.[0] <> '#' && l.[0] <> '!' && not (List.exists (starts l) drop_keys) in
  List.sort compare (List.filter keep lines)
