(* Channels "llpcomb", "llpranks", "llpinv", "llprun": layered label propagation (C17). *)
open Model
open Model.LlpM
type string = Stdlib.String.t
let max = Stdlib.max
let min = Stdlib.min
open Conv

let ok b = if b then "ok" else "FAIL"
let nl s = List.map n_of_int (ints_of_string s)
let str_nl l = string_of_ints (List.map int_of_n l)
let nll s = List.map (List.map n_of_int) (lists_of_string s)
let str_nll ll = string_of_lists (List.map (List.map int_of_n) ll)

let rec pos_of_i64 (i : int64) : positive =
  if i = 1L then XH
  else if Int64.logand i 1L = 0L then XO (pos_of_i64 (Int64.shift_right_logical i 1))
  else XI (pos_of_i64 (Int64.shift_right_logical i 1))

let z_of_string (s : string) : z =
  let i = Int64.of_string s in
  if i = 0L then Z0 else if i > 0L then Zpos (pos_of_i64 i) else Zneg (pos_of_i64 (Int64.neg i))

let short s = if String.length s > 60 then String.sub s 0 60 ^ "..." else s

(* the stored labelings in the order in which combine_labels meets them *)
let family_in args (fam : n list list) (order : int list) =
  let costs = List.map z_of_string (split_on ',' (get args "costs")) in
  List.map (fun j -> (List.nth costs j, List.nth fam j)) order
let family args (fam : n list list) = family_in args fam (ints_of_string (get args "order"))

(* The order in which labelings of EQUAL cost are combined is not fixed by anything (today it
   is the order in which the directory lists them); it only affects the numbering of the
   combined classes.  The model sorts stably, so feeding it the stored labelings in another
   order explores the other tie orders: all orders for up to 5 labelings, four for more. *)
let rec perms (l : int list) : int list list =
  match l with
  | [] -> [[]]
  | _ -> List.concat_map (fun x -> List.map (fun r -> x :: r) (perms (List.filter (fun y -> y <> x) l))) l
let alt_orders (order : int list) : int list list =
  if List.length order <= 5 then perms order
  else [order; List.rev order; List.sort compare order; List.rev (List.sort compare order)]

(* two labelings of the same nodes induce the same partition (numbering aside) *)
let same_classes (a : n list) (b : n list) : bool =
  List.length a = List.length b &&
  (let h1 = Hashtbl.create 64 and h2 = Hashtbl.create 64 in
   List.for_all2 (fun x y ->
       let x = int_of_n x and y = int_of_n y in
       (match Hashtbl.find_opt h1 x with Some y' -> y' = y | None -> Hashtbl.replace h1 x y; true)
       && (match Hashtbl.find_opt h2 y with Some x' -> x' = x | None -> Hashtbl.replace h2 y x; true)) a b)

let refine_limit = 200
let mono_limit = 60

let run_comb (args : (string * string) list) : string =
  let fam = nll (get args "fam") in
  let status = get args "status" in
  let impl_ok = status = "ok" in
  let nogap = get_int args "nogap" in
  let n = get_int args "n" in
  let res = Buffer.create 128 in
  let add k v = Buffer.add_string res (" " ^ k ^ "=" ^ v) in
  let model = if nogap >= 0 then None else llp_combine_labels (family args fam) in
  (match model with
   | None ->
     (* invalid input: the implementation must not produce labels *)
     add "refuses" (if impl_ok then "FAIL(model:refuse;impl:ok)" else "ok")
   | Some r ->
     add "accepts" (if impl_ok then "ok" else "FAIL(" ^ short status ^ ")");
     if impl_ok then begin
       let out = nl (get args "out") in
       let order = ints_of_string (get args "order") in
       let some_order = out = r || List.exists (fun o ->
           match llp_combine_labels (family_in args fam o) with Some r' -> r' = out | None -> false)
           (alt_orders order) in
       (* the NUMBERING of the combined classes is not fixed by the property (dense in [0,k) is,
          aspect dense): the model must yield the same classes *)
       add "combined" (if some_order || same_classes out r then "ok" else "FAIL(model:" ^ short (str_nl r) ^ ")");
       add "i_combined_numbering" (if out = r then "same" else if some_order then "other-tie-order" else "other-numbering");
       add "length" (ok (List.length out = n));
       add "dense" (ok (check_dense out));
       add "refine" (if n <= refine_limit then ok (check_refinement out fam) else "skip");
       add "again" (ok (get args "again" = "same"))
     end);
  Buffer.contents res

let run_ranks (args : (string * string) list) : string =
  let labels = nl (get args "labels") in
  let status = get args "status" in
  let n = get_int args "n" in
  if status <> "ok" then " status=FAIL(" ^ short status ^ ")"
  else begin
    let ranks = nl (get args "ranks") in
    let m = labels_to_ranks labels in
    " status=ok"
    ^ " ranks=" ^ (if m = ranks then "ok" else "FAIL(model:" ^ short (str_nl m) ^ ")")
    ^ " perm=" ^ ok (List.length ranks = n && check_perm ranks)
    ^ " mono=" ^ (if n <= mono_limit then ok (check_monotone labels ranks) else "skip")
  end

let run_inv (args : (string * string) list) : string =
  let p = nl (get args "perm") in
  let status = get args "status" in
  if status <> "ok" then " status=FAIL(" ^ short status ^ ")"
  else begin
    let inv = nl (get args "inv") in
    let m = invert_permutation p in
    " status=ok"
    ^ " inv=" ^ (if m = inv then "ok" else "FAIL(model:" ^ short (str_nl m) ^ ")")
    ^ " inverse=" ^ ok (check_inverse p inv && check_inverse inv p)
    ^ " perm=" ^ ok (check_perm inv)
  end

let run_run (args : (string * string) list) : string =
  let status = get args "status" in
  let starts p = String.length status >= String.length p && String.sub status 0 (String.length p) = p in
  if status <> "ok" then begin
    (* the empty graph may be refused (combine_labels refuses zero nodes), not crashed on *)
    if get_int args "n" = 0 && (starts "err:" || starts "combine:err:") then " status=ok refused=ok"
    else " status=FAIL(" ^ short status ^ ")"
  end else begin
    let n = get_int args "n" in
    let g = nll (get args "g") in
    let stored = nll (get args "stored") in
    let combined = nl (get args "combined") in
    let ranks = nl (get args "ranks") in
    let pg = nll (get args "pg") in
    let nn = n_of_int n in
    let res = Buffer.create 128 in
    let add k v = Buffer.add_string res (" " ^ k ^ "=" ^ v) in
    add "status" "ok";
    (* oracle: the property on what the implementation stored and returned *)
    add "nodes" (ok (List.for_all (fun l -> List.length l = n && check_lt nn l) stored));
    add "length" (ok (List.length combined = n && List.length ranks = n));
    add "dense" (ok (check_dense combined));
    add "refine" (if n <= refine_limit then ok (check_refinement combined stored) else "skip");
    add "full" (ok (get args "full" <> "differs"));
    add "perm" (ok (check_perm ranks));
    add "mono" (if n <= mono_limit then ok (check_monotone combined ranks) else "skip");
    add "iso" (ok (check_iso ranks g pg));
    (* correspondence *)
    (match llp_combine_labels (family args stored) with
     | None -> add "combined" "FAIL(model:refuse)"
     | Some r ->
       (* as in run_comb: any order of labelings of equal cost is accepted *)
       let order = ints_of_string (get args "order") in
       let some_order = r = combined || List.exists (fun o ->
           match llp_combine_labels (family_in args stored o) with Some r' -> r' = combined | None -> false)
           (alt_orders order) in
       add "combined" (if some_order || same_classes combined r then "ok" else "FAIL(model:" ^ short (str_nl r) ^ ")"));
    let mr = labels_to_ranks combined in
    add "ranks" (if mr = ranks then "ok" else "FAIL(model:" ^ short (str_nl mr) ^ ")");
    let mpg = permute_graph ranks g in
    add "pg" (if mpg = pg then "ok" else "FAIL(model:" ^ short (str_nll mpg) ^ ")");
    Buffer.contents res
  end

(* "llpbig": large inputs (around the minimum task length of the parallel loops), far too
   large for check_perm / check_inverse / check_monotone (quadratic).  The verdict "big" is
   computed by the extracted n log n checkers big_check_inverse / big_check_ranks, proved to
   decide the same specifications (C17_big_inverse_spec, C17_big_ranks_spec).  "bigagree"
   compares it with the verdict the harness computed by linear scans (hverdict): a cheap
   cross check of both. *)
let run_big (args : (string * string) list) : string =
  let status = get args "status" in
  let hv = get args "hverdict" in
  let n = get_int args "n" in
  let mine =
    if status <> "ok" then "FAIL(" ^ short status ^ ")" else
    match get args "kind" with
    | "invert" ->
      let p = nl (get args "perm") and q = nl (get args "inv") in
      if List.length p <> n then "FAIL(case-length)"
      else if BigCheckM.big_check_inverse p q then "ok" else "FAIL(big_check_inverse)"
    | "ranks" ->
      let labels = nl (get args "labels") and ranks = nl (get args "ranks") in
      if List.length labels <> n then "FAIL(case-length)"
      else if BigCheckM.big_check_ranks labels ranks then "ok" else "FAIL(big_check_ranks)"
    | k -> "FAIL(unknown-kind:" ^ k ^ ")" in
  " big=" ^ mine ^ " bigagree=" ^
  (if (mine = "ok") = (hv = "ok") then "ok" else "FAIL(driver:" ^ mine ^ ";harness:" ^ short hv ^ ")")
