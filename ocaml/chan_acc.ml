(* Channel "acc" (C03): a compressed graph read by the implementation through every access
   path, with the bytes of the graph file and the Elias-Fano offsets.  The extracted model
   (BV/Access.v over the bit list of the file and the offsets table) is run on the same
   bytes; oracle aspects (i_..., degs, offs, ef) evaluate the property on what the
   implementation returned, correspondence aspects (rt, m_...) compare the model with it. *)
open Model
open Model.AccessM
open Model.MaskedIterM
type string = Stdlib.String.t
let max = Stdlib.max
let min = Stdlib.min
open Conv

let paths = ["ra"; "ralen"; "outdeg"; "iter"; "iter_from"; "next_from"; "seq_iter"; "seq_iter_from";
             "seq_next"; "offdeg"; "offdeg_from"; "check_impl"]

let params_of args : params =
  { window = n_of_int (get_int args "w");
    max_ref = (match get args "mr" with "inf" -> None | v -> Some (n_of_int (int_of_string v)));
    min_len = n_of_int (get_int args "L") }

let clean s = String.map (fun c -> if c = ' ' || c = '=' then '_' else c) s

(* "DIFF(variant;k:3;x:5;got:1,2)" -> assoc list of the k:v parts *)
let witness (v : string) : (string * string) list =
  if String.length v < 6 || String.sub v 0 5 <> "DIFF(" then []
  else
    let inner = String.sub v 5 (String.length v - 6) in
    List.filter_map (fun tok ->
        match String.index_opt tok ':' with
        | Some i -> Some (String.sub tok 0 i, String.sub tok (i + 1) (String.length tok - i - 1))
        | None -> None)
      (String.split_on_char ';' inner)

let rec skipn k l = if k <= 0 then l else match l with [] -> [] | _ :: t -> skipn (k - 1) t
let rec firstn k l = if k <= 0 then [] else match l with [] -> [] | x :: t -> x :: firstn (k - 1) t

let run (args : (string * string) list) : string =
  let res = Buffer.create 256 in
  let add k v = Buffer.add_string res (" " ^ k ^ "=" ^ v) in
  let okf b detail = if b then "ok" else "FAIL(" ^ clean detail ^ ")" in
  let okf' s = if s = "" then "ok" else "FAIL(" ^ clean s ^ ")" in
  if get_opt args "kind" = Some "mi" then begin
    (* the public MaskedIter alone: extracted state machine against the implementation *)
    let l = ints_of_string (get args "l") and bs = ints_of_string (get args "bs") in
    let dbg = get_int args "dbg" = 1 in
    let status = get args "status" in
    (* independent reference: alternately keep / drop blocks, keep the tail iff the number
       of blocks is even *)
    let rec mask_ref c bs l =
      match bs with
      | [] -> if c then l else []
      | b :: bs' -> (if c then firstn b l else []) @ mask_ref (not c) bs' (skipn b l) in
    let sum = List.fold_left (+) 0 bs in
    let nl = List.length l in
    let canonical =
      sum <= nl && List.for_all (fun b -> b >= 1) (match bs with [] -> [] | _ :: t -> t)
      && (List.length bs mod 2 = 1 || sum < nl) in
    (* oracle: on canonical pairs the implementation must not panic, must yield the masked
       list and report its length *)
    add "mi_spec"
      (if not canonical then "ok"
       else if status <> "ok" then "FAIL(panic-on-canonical-blocks)"
       else
         let out = ints_of_string (get args "out") in
         okf (out = mask_ref true bs l && get_int args "len" = List.length out) "differs-from-mask");
    add "mi_class" (if canonical then "canonical" else if status = "ok" then "noncanonical-ok" else "noncanonical-panic");
    (* correspondence: same items and length, or the same kind of failure *)
    let kind_of_msg m =
      let has sub =
        let n = String.length sub and k = String.length m in
        let rec go i = i + n <= k && (String.sub m i n = sub || go (i + 1)) in go 0 in
      if has "index_out_of_bounds" then 1
      else if has "subtract_with_overflow" then 2
      else if has "assertion" then 4
      else 0 in
    let model = mi_collect dbg (List.map n_of_int l) (List.map n_of_int bs) in
    (* judged on the block lists the compressor can emit (canonical); on the others - which the
       property does not cover - how the iterator fails, or whether it does, is recorded only *)
    add (if canonical then "m_mi" else "i_m_mi")
      (match model, status with
       | MOk (len, out), "ok" ->
         okf (List.map int_of_n out = ints_of_string (get args "out") && int_of_n len = get_int args "len")
           (Printf.sprintf "model:%s;len:%d" (string_of_ints (List.map int_of_n out)) (int_of_n len))
       | MErr e, "panic" ->
         let k = kind_of_msg (get args "msg") in
         okf (k = int_of_n (mi_err_code e)) (Printf.sprintf "model-error:%d;impl:%d" (int_of_n (mi_err_code e)) k)
       | MOk _, _ -> "FAIL(impl-panics-model-does-not)"
       | MErr e, _ -> Printf.sprintf "FAIL(model-error:%d;impl-ok)" (int_of_n (mi_err_code e)));
    Buffer.contents res end
  else if get_opt args "skipped" = Some "1" then begin add "skipped" "1"; Buffer.contents res end
  else if get args "ef_status" <> "ok" then begin
    add "ef" ("FAIL(" ^ clean (get args "ef_status") ^ ")"); Buffer.contents res end
  else begin
    let p = params_of args in
    let cs = codes_of_string (get args "codes") in
    let le = get_int args "le" = 1 in
    let g_int = lists_of_string (get args "g") in
    let nn = List.length g_int in
    let g = List.map (List.map n_of_int) g_int in
    let buf = bytes_of_hex (get args "graph") in
    let total = Bytes.length buf * 8 in
    let bits = bits_of_bytes le buf 0 total in
    let ef_int = ints_of_string (get args "ef") in
    let offs = List.map n_of_int ef_int in
    let ks = ints_of_string (get args "ks") in
    (* ---- oracle: what the implementation returned ---- *)
    add "i_load" (let v = get args "load" in if v = "ok" then "ok" else clean v);
    List.iter (fun pth ->
        let v = get args pth in
        add ("i_" ^ pth) (if v = "ok" then "ok" else "FAIL(" ^ clean v ^ ")")) paths;
    let scan =
      if get args "scan" = "1" then
        Some (List.combine (ints_of_string (get args "scan_offs")) (ints_of_string (get args "scan_degs")))
      else None in
    (match scan with
     | Some sc ->
       add "degs" (okf (List.map snd sc = List.map List.length g_int) "scan-degrees-differ-from-list-lengths");
       add "offs" (okf (List.map fst sc = firstn nn ef_int) "scan-offsets-differ-from-ef")
     | None -> add "degs" "FAIL(no-scan)");
    (* ---- the proved sequential decoder on the bytes, with positions ---- *)
    (match decode_records (rd_bits le cs) (fun s -> n_of_int (total - List.length s)) p
             (nat_of_int nn) N0 [] bits with
     | None -> add "rt" "FAIL(decode-error)"
     | Some (rs, rest) ->
       let lists = List.map (fun ((_, l), _) -> l) rs in
       add "rt" (okf (lists = g) "sequential-model-decoder-differs-from-input");
       let poss = List.map (fun (_, ps) -> int_of_n ps) rs @ [total - List.length rest] in
       (* the Elias-Fano entries are the positions of the records and of the end *)
       add "ef" (okf (poss = ef_int) "ef-differs-from-record-positions");
       (* nesting depth of random access: fuel depth+1 suffices, fuel depth does not *)
       let sel = List.map (fun ((r, _), _) -> r.r_ref) rs in
       let deps = List.map int_of_n (depths sel) in
       let seek = seek_bits offs bits in
       let bad = ref "" in
       List.iteri (fun x dep ->
           let gx = List.nth g x in
           if ra_labels (rd_bits le cs) seek p (nat_of_int (dep + 1)) (n_of_int x) <> Some gx then
             bad := Printf.sprintf "x:%d;fuel:%d" x (dep + 1)
           else if ra_labels (rd_bits le cs) seek p (nat_of_int dep) (n_of_int x) <> None then
             bad := Printf.sprintf "x:%d;fuel:%d-not-needed" x dep) deps;
       add "m_fuel" (okf (!bad = "") !bad);
       (* random access through the index-level state machines of MaskedIter and Succ
          (two nested calls per level in the model: nodes of depth <= 10 only) *)
       if get args "ra" = "ok" then begin
         let bad = ref "" in
         List.iteri (fun x dep ->
             if dep <= 10 && !bad = "" then
               if ra_labels_sm (rd_bits le cs) seek true p (nat_of_int (dep + 1)) (n_of_int x)
                  <> Some (List.nth g x) then bad := Printf.sprintf "x:%d" x) deps;
         add "m_sm" (okf (!bad = "") !bad)
       end;
       (match p.max_ref with
        | Some m -> add "depth" (okf (List.for_all (fun d -> d <= int_of_n m) deps) "chain-deeper-than-max-ref")
        | None -> ()));
    (* ---- the model of every access path against the implementation ---- *)
    let first_bad f xs = List.fold_left (fun acc x -> if acc <> "" then acc else f x) "" xs in
    let nodes = List.init nn (fun x -> x) in
    (* expected list at (path, k, x): the implementation's, i.e. the input list unless the
       harness printed a difference for exactly that point *)
    let expected pth k x =
      let w = witness (get args pth) in
      match List.assoc_opt "x" w, List.assoc_opt "got" w with
      | Some wx, Some got when int_of_string wx = x
                               && (match List.assoc_opt "k" w with Some wk -> int_of_string wk = k | None -> true) ->
        List.map n_of_int (ints_of_string got)
      | _ -> List.nth g x in
    add "m_ra" (okf' (first_bad (fun x ->
        if acc_ra le cs p offs bits (n_of_int x) = Some (expected "ra" x x) then "" else Printf.sprintf "x:%d" x) nodes));
    add "m_merge" (okf' (first_bad (fun x ->
        if acc_ra_merge le cs p offs bits (n_of_int x) = Some (expected "ra" x x) then "" else Printf.sprintf "x:%d" x) nodes));
    add "m_outdeg" (okf' (first_bad (fun x ->
        if acc_outdegree le cs offs bits (n_of_int x) = Some (n_of_int (List.length (List.nth g_int x))) then ""
        else Printf.sprintf "x:%d" x) nodes));
    add "m_iter_from" (okf' (first_bad (fun k ->
        let exp = List.mapi (fun i _ -> expected "iter_from" k (k + i)) (skipn k g) in
        if acc_iter_from le cs p offs bits (n_of_int k) = Some exp then "" else Printf.sprintf "k:%d" k) ks));
    add "m_iter_ring" (okf' (first_bad (fun k ->
        let exp = List.mapi (fun i _ -> expected "iter_from" k (k + i)) (skipn k g) in
        if acc_iter_from_ring le cs p offs bits (n_of_int k) = Some exp then "" else Printf.sprintf "k:%d" k) ks));
    add "m_seq_from" (okf' (first_bad (fun k ->
        if seq_iter_from (rd_bits le cs) p (nat_of_int nn) (nat_of_int k) bits = Some (skipn k g) then ""
        else Printf.sprintf "k:%d" k) ks));
    add "m_next" (okf' (if acc_next_successors le cs p (nat_of_int nn) bits = Some g then "" else "differs"));
    (match scan with
     | Some sc ->
       let isc = List.map (fun (o, d) -> (n_of_int o, n_of_int d)) sc in
       add "m_offdeg" (okf' (if acc_offdeg le cs p (nat_of_int nn) bits = Some isc then "" else "differs"));
       add "m_offdeg_from" (okf' (first_bad (fun k ->
           if acc_offdeg_from le cs p offs bits (n_of_int k) = Some (skipn k isc) then ""
           else Printf.sprintf "k:%d" k) ks));
       add "m_offdeg_ring" (okf' (if acc_offdeg_ring le cs p (nat_of_int nn) bits = Some isc then "" else "differs"));
       add "m_offdeg_from_ring" (okf' (first_bad (fun k ->
           if acc_offdeg_from_ring le cs p offs bits (n_of_int k) = Some (skipn k isc) then ""
           else Printf.sprintf "k:%d" k) ks))
     | None -> ());
    Buffer.contents res
  end
