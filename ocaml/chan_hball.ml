(* Channel "hball": HyperBall (C19).  Cases of one group (same graph, weights, seed, register
   count, estimator, iteration bound) must agree; the first successful case of a group is its
   reference.  When the initial registers are given, the extracted model replays the whole
   run (modes, modified counters, registers) under the rules of the code as it is now
   (local = pre_local && systolic), and the estimates are recomputed from the
   model's registers with the HyperLogLog formula (hand-written floating-point glue). *)
open Model
open Model.HBallM
type string = Stdlib.String.t
let max = Stdlib.max
let min = Stdlib.min
open Conv

(* ---- HyperLogLog estimate (card-est-array 0.6.0, LogLog-beta enabled) ---- *)
let loglog_beta : float array array = [|
  [| (-0.582581413904517); (-1.93530035756005); (11.079323758035073); (-22.131357446444323); (22.505391846630037); (-12.000723834917984); (3.220579408194167); (-0.342225302271235) |];
  [| (-0.7518999460733967); (-0.959003007774876); (5.599737132214161); (-8.209763699976552); (6.509125489447204); (-2.683029373432373); (0.5612891113138221); (-0.0463331622196545) |];
  [| (29.825790096961963); (-31.328708333772592); (-10.594252303658228); (-11.572012568909962); (3.818875437390749); (-2.416013032853081); (0.4542208940970826); (-0.0575155452020420) |];
  [| (2.810292129082006); (-3.9780498518175995); (1.3162680041351582); (-3.92524863358059); (2.008083575394647); (-0.7527151937556955); (0.1265569894242751); (-0.0109946438726240) |];
  [| (1.0063354488755052); (-2.005806664051124); (1.6436974936651412); (-2.7056080994056617); (1.392099802442226); (-0.4647037427218319); (0.07384282377269775); (-0.00578554885254223) |];
  [| (-0.09415657458167959); (-0.7813097592455053); (1.7151494675071246); (-1.7371125040651634); (0.8644150848904892); (-0.23819027465047218); (0.03343448400269076); (-0.00207858528178157) |];
  [| (-0.25935400670790054); (-0.5259830199980581); (1.4893303492587684); (-1.2964271408499357); (0.6228475621722162); (-0.1567232677025104); (0.02054415903878563); (-0.00112488483925502) |];
  [| (-4.32325553856025e-01); (-1.08450736399632e-01); (6.09156550741120e-01); (-1.65687801845180e-02); (-7.95829341087617e-02); (4.71830602102918e-02); (-7.81372902346934e-03); (5.84268708489995e-04) |];
  [| (-3.84979202588598e-01); (1.83162233114364e-01); (1.30396688841854e-01); (7.04838927629266e-02); (-8.95893971464453e-03); (1.13010036741605e-02); (-1.94285569591290e-03); (2.25435774024964e-04) |];
  [| (-0.41655270946462997); (-0.22146677040685156); (0.38862131236999947); (0.4534097974606237); (-0.36264738324476375); (0.12304650053558529); (-0.0170154038455551); (0.00102750367080838) |];
  [| (-3.71009760230692e-01); (9.78811941207509e-03); (1.85796293324165e-01); (2.03015527328432e-01); (-1.16710521803686e-01); (4.31106699492820e-02); (-5.99583540511831e-03); (4.49704299509437e-04) |];
  [| (-0.38215145543875273); (-0.8906940053609084); (0.3760233577467887); (0.9933597744068238); (-0.6557744163831896); (0.1833234212970361); (-0.02241529633062872); (0.00121399789330194) |];
  [| (-0.3733187664375306); (-1.41704077448123); (0.40729184796612533); (1.5615203390658416); (-0.9924223353428613); (0.2606468139948309); (-0.03053811369682807); (0.00155770210179105) |];
  [| (-0.36775502299404605); (0.5383142235137797); (0.7697028927876792); (0.5500258358645056); (-0.7457558826114694); (0.2571183578582195); (-0.03437902606864149); (0.00185949146371616) |];
  [| (-0.3647962332596054); (0.9973041232863503); (1.5535438623008122); (1.2593267719802892); (-1.5332594820911016); (0.4780104220005659); (-0.05951025172951174); (0.00291076804642205) |]
|]

let beta_horner (z : float) (log2m : int) : float =
  let beta = loglog_beta.(log2m - 4) in
  let zl = log (z +. 1.0) in
  let res = ref 0.0 in
  for i = 7 downto 1 do res := !res *. zl +. beta.(i) done;
  !res *. zl +. beta.(0) *. z

let estimate (log2m : int) (regs : int array) : float =
  let m = Array.length regs in
  let hm = ref 0.0 and zeroes = ref 0 in
  Array.iter (fun v -> if v = 0 then incr zeroes; hm := !hm +. ldexp 1.0 (- v)) regs;
  let mf = float_of_int m in
  let alpha = match log2m with 4 -> 0.673 | 5 -> 0.697 | 6 -> 0.709 | _ -> 0.7213 /. (1.0 +. 1.079 /. mf) in
  let amm = alpha *. (mf *. mf) in
  if !zeroes <> 0 && log2m <= 18 then begin
    let z = float_of_int !zeroes in
    amm *. (mf -. z) /. (mf *. (!hm +. beta_horner z log2m))
  end else amm /. !hm

(* ---- helpers ---- *)
let floats_of_string (s : string) : float list =
  if s = "-" || s = "" then [] else List.map float_of_string (String.split_on_char ',' s)

let close (a : float) (b : float) : bool =
  a = b || abs_float (a -. b) <= 1e-9 *. max (abs_float a) (abs_float b)

let rec all2 f a b = match a, b with
  | [], [] -> true | x :: a', y :: b' -> f x y && all2 f a' b' | _ -> false

let transpose (n : int) (g : int list list) : int list list =
  let t = Array.make n [] in
  List.iteri (fun x l -> List.iter (fun y -> if y < n then t.(y) <- x :: t.(y)) l) g;
  Array.to_list (Array.map List.rev t)

let graph_of (g : int list list) : nat list list = List.map (List.map nat_of_int) g

type group = {
  mutable ref_case : (string * string) list option;       (* first successful case *)
  mutable regs : n list list option;                       (* initial registers *)
  runs : (string, n list cstate list) Hashtbl.t;           (* model runs by (store, tr) *)
  mutable balls : (int * float list) option;               (* exact ball sizes at a round *)
}
let groups : (string, group) Hashtbl.t = Hashtbl.create 97

let mode_string (s : n list cstate) : string =
  let (((sys, loc), pl), cnt) = cs_flags s in
  (if not sys then "N" else "S" ^ (if loc then "L" else "") ^ (if pl then "P" else ""))
  ^ ":" ^ string_of_int (int_of_nat cnt)

let int_regs (r : n list) : int array = Array.of_list (List.map int_of_n r)

let ok b = if b then "ok" else "FAIL"

let run (args : (string * string) list) : string =
  let res = Buffer.create 256 in
  let add k v = Buffer.add_string res (" " ^ k ^ "=" ^ v) in
  let grp = get args "grp" in
  let n = get_int args "n" in
  let g = lists_of_string (get args "g") in
  let g = if n = 0 then [] else g in
  let hll8 = get args "kind" = "hll8" in
  let log2m = get_int args "log2m" in
  let weights = match get args "w" with "-" -> None | s -> Some (ints_of_string s) in
  let status = get args "status" in
  let gr = match Hashtbl.find_opt groups grp with
    | Some x -> x
    | None -> let x = { ref_case = None; regs = None; runs = Hashtbl.create 7; balls = None } in
      Hashtbl.replace groups grp x; x in
  (match get_opt args "regs" with
   | Some s -> gr.regs <- Some (List.map (List.map n_of_int) (lists_of_string s))
   | None -> ());
  (* refusals: register arrays that do not fill words; HyperLogLog sized for zero elements *)
  let elems = match weights with None -> n | Some w -> List.fold_left (+) 0 w in
  let must_refuse = hb_refused hll8 (n_of_int log2m) || ((not hll8) && elems = 0) in
  let refused = String.length status >= 7 && String.sub status 0 7 = "refused"
                || (elems = 0 && String.length status >= 5 && String.sub status 0 5 = "panic") in
  add "refusal" (if must_refuse = refused then "ok" else "FAIL(model:" ^ string_of_bool must_refuse ^ ")");
  if status <> "ok" then begin
    if not refused then add "status" ("FAIL(" ^ (String.sub status 0 (min 60 (String.length status))) ^ ")")
  end else begin
    add "status" "ok";
    let est_s = get args "est" in
    let est = floats_of_string est_s in
    let nf = floats_of_string (get args "nf") in
    let iters = get_int args "iters" in
    (* ---- oracle: the property evaluated on the implementation ---- *)
    let rec mono = function a :: (b :: _ as r) -> a <= b && mono r | _ -> true in
    add "nf_mono" (ok (mono nf));
    add "shape" (ok (List.length est = n && List.length nf = iters + 1));
    (match gr.ref_case with
     | None -> gr.ref_case <- Some args
     | Some r ->
       add "group_est" (if get r "est" = est_s then "ok" else "FAIL(differs-from-" ^ get r "id" ^ ")");
       let rnf = floats_of_string (get r "nf") in
       add "group_iters" (if List.length rnf = List.length nf then "ok"
                          else "FAIL(" ^ string_of_int (List.length nf - 1) ^ "-vs-" ^ string_of_int (List.length rnf - 1) ^ ")");
       if List.length rnf = List.length nf then begin
         let rec first_bad i a b = match a, b with
           | x :: a', y :: b' -> if close x y then first_bad (i + 1) a' b' else Some (i, x, y)
           | _ -> None in
         add "group_nf" (match first_bad 0 nf rnf with None -> "ok"
                         | Some (i, x, y) -> Printf.sprintf "FAIL(round%d:%.17g-vs-%.17g)" i x y)
       end;
       let cents = ["reach"; "harm"; "sumd"; "clos"; "lin"; "niem"; "disc"] in
       let bad = List.filter (fun k -> let a = get args k and b = get r k in a <> "-" && b <> "-" && a <> b) cents in
       add "group_cent" (if bad = [] then "ok" else "FAIL(" ^ String.concat "," bad ^ ")"));
    (* accuracy with 2^14 registers: within 6 standard errors of the exact ball size *)
    if log2m = 14 && weights = None then begin
      let sizes = match gr.balls with
        | Some (t, s) when t = iters -> s
        | _ ->
          let (s, _) = ball_sizes (graph_of g) (nat_of_int iters) in
          let s = List.map (fun z -> float_of_int (int_of_z z)) s in
          gr.balls <- Some (iters, s); s in
      let tol = 6.0 *. 1.04 /. sqrt 16384.0 in
      let rec worst i a b = match a, b with
        | e :: a', x :: b' -> if abs_float (e -. x) <= tol *. x then worst (i + 1) a' b' else Some (i, e, x)
        | _ -> None in
      add "accuracy" (if List.length sizes <> List.length est then "FAIL(length)"
                      else match worst 0 est sizes with None -> "ok"
                        | Some (i, e, x) -> Printf.sprintf "FAIL(node%d:%.6g-vs-exact-%.0f)" i e x)
    end;
    (* ---- correspondence: the model replays the run from the initial registers ---- *)
    (match gr.regs with
     | None -> ()
     | Some regs0 ->
       let ext = get args "store" = "ext" and tr = get args "tr" = "1" in
       let ub = match get args "ub" with "done" | "max" -> n | s -> min n (int_of_string s) in
       let key = get args "store" ^ get args "tr" in
       let states = match Hashtbl.find_opt gr.runs key with
         | Some s -> s
         | None ->
           let mg = graph_of g in
           let mgt = if tr then graph_of (transpose n g) else [] in
           let s = hb_run_regs ext tr mg mgt (nat_of_int ub) regs0 in
           Hashtbl.replace gr.runs key s; s in
       let mtrace = String.concat "," (List.map mode_string states) in
       let itrace = get args "trace" in
       add "trace" (if mtrace = itrace || (mtrace = "" && itrace = "-") then "ok" else "FAIL(model:" ^ mtrace ^ ")");
       add "iters" (if List.length states = iters then "ok" else "FAIL(model:" ^ string_of_int (List.length states) ^ ")");
       let final = match List.rev states with [] -> regs0 | s :: _ -> cs_curr s in
       (* the concrete run ends with the counters of the plain synchronous iteration *)
       add "model_sync" (ok (final = regs_sync (graph_of g) (nat_of_int (List.length states)) regs0));
       let est_of r = estimate log2m (int_regs r) in
       let mest = List.map est_of final in
       let rec first_bad i a b = match a, b with
         | x :: a', y :: b' -> if close x y then first_bad (i + 1) a' b' else Some (i, x, y)
         | [], [] -> None | _ -> Some (-1, 0.0, 0.0) in
       add "est_corr" (match first_bad 0 est mest with None -> "ok"
                       | Some (i, x, y) -> Printf.sprintf "FAIL(node%d:impl-%.17g-model-%.17g)" i x y);
       (* the neighbourhood function as [iterate] accumulates it: a standard iteration sums
          the estimates of all nodes, a systolic one (local or not) compensates the last
          value with the differences of the modified counters.  [old_rule]: the rule the
          code had before its repair (a local, non-systolic iteration summed the check list
          only); used only to name a regression. *)
       let nf_of (old_rule : bool) (states : n list cstate list) : float list =
         let last = ref (float_of_int n) and outs = ref [float_of_int n] in
         let prev = ref (Array.of_list (List.map est_of regs0)) in
         List.iter (fun s ->
             let (((sys, loc), _), _) = cs_flags s in
             let cur = Array.of_list (List.map est_of (cs_curr s)) in
             let md = Array.of_list (cs_mod s) in
             let v =
               if sys then begin
                 let d = ref 0.0 in
                 Array.iteri (fun i b -> if b then d := !d +. (cur.(i) -. !prev.(i))) md;
                 !last +. !d
               end else if old_rule && loc then
                 List.fold_left (fun a i -> a +. cur.(int_of_nat i)) 0.0 (cs_check s)
               else Array.fold_left (+.) 0.0 cur in
             last := v;
             let lo = List.hd !outs in
             outs := (if v < lo then lo else v) :: !outs;
             prev := cur) states;
         List.rev !outs in
       let mnf = nf_of false states in
       add "nf_corr" (match first_bad 0 nf mnf with None -> "ok"
                      | Some (i, x, y) ->
                        let old_states = hb_run_regs_prefix ext tr (graph_of g)
                            (if tr then graph_of (transpose n g) else []) (nat_of_int ub) regs0 in
                        let regress = first_bad 0 nf (nf_of true old_states) = None in
                        Printf.sprintf "FAIL(round%d:impl-%.17g-model-%.17g%s)" i x y
                          (if regress then ";equals-the-model-of-the-pre-repair-local-flag-rule" else "")))
  end;
  Buffer.contents res
