(* Channels "dfs" and "dfsalgo": depth-first visits, top_sort, is_acyclic (C14). *)
open Model
open Model.DfsM
type string = Stdlib.String.t
let max = Stdlib.max
let min = Stdlib.min
open Conv

let ni = n_of_int
let ii = int_of_n

(* events as the harness prints them *)
let fmt_event (nopred : bool) (e : event) : string =
  match e with
  | EInit r -> Printf.sprintf "I.%d" (ii r)
  | EDone r -> Printf.sprintf "D.%d" (ii r)
  | EPre (v, p, r, d) ->
    if nopred then Printf.sprintf "P.%d.%d.%d" (ii v) (ii r) (ii d)
    else Printf.sprintf "P.%d.%d.%d.%d" (ii v) (ii p) (ii r) (ii d)
  | ERev (v, p, r, d, b) ->
    if nopred then Printf.sprintf "R.%d.%d.%d" (ii v) (ii r) (ii d)
    else Printf.sprintf "R.%d.%d.%d.%d.%d" (ii v) (ii p) (ii r) (ii d) (if b then 1 else 0)
  | EPost (v, p, r, d) -> Printf.sprintf "O.%d.%d.%d.%d" (ii v) (ii p) (ii r) (ii d)

let fmt_events nopred (evs : event list) (panic : bool) : string =
  let l = List.map (fmt_event nopred) evs @ (if panic then ["X"] else []) in
  if l = [] then "-" else String.concat "," l

(* parse the implementation's events; returns (events, panicked) *)
let parse_events (nopred : bool) (s : string) : event list * bool =
  if s = "-" then ([], false)
  else begin
    let toks = String.split_on_char ',' s in
    let panic = List.mem "X" toks in
    let evs = List.filter_map (fun t ->
        if t = "X" then None
        else
          let f = String.split_on_char '.' t in
          let k = List.hd f and a = List.map int_of_string (List.tl f) in
          Some (match k, a with
              | "I", [r] -> EInit (ni r)
              | "D", [r] -> EDone (ni r)
              | "P", [v; p; r; d] -> EPre (ni v, ni p, ni r, ni d)
              | "P", [v; r; d] when nopred -> EPre (ni v, ni 0, ni r, ni d)
              | "R", [v; p; r; d; b] -> ERev (ni v, ni p, ni r, ni d, b = 1)
              | "R", [v; r; d] when nopred -> ERev (ni v, ni 0, ni r, ni d, false)
              | "O", [v; p; r; d] -> EPost (ni v, ni p, ni r, ni d)
              | _ -> failwith ("bad event " ^ t))) toks in
    (evs, panic)
  end

type visit = { reset : bool; roots : n list; kind : int; a : int; b : int; stop : int }

let parse_visit (s : string) : visit =
  match String.split_on_char '/' s with
  | [r; roots; f; stop] ->
    (match List.map int_of_string (String.split_on_char '.' f) with
     | [kind; a; b] ->
       { reset = r = "1"; roots = List.map ni (ints_of_string roots); kind; a; b; stop = int_of_string stop }
     | _ -> failwith "bad filter")
  | _ -> failwith ("bad visit " ^ s)

let rec take k l = if k <= 0 then [] else match l with [] -> [] | x :: r -> x :: take (k - 1) r

let graph_of args : graph = List.map (List.map ni) (lists_of_string (get args "g"))

let sort_ints (l : int list) = List.sort_uniq compare l

(* one visit call of the model: (delivered events, panicked, interrupted, known', onst') *)
let model_visit fl g (v : visit) known onst =
  let flt = dfs_filter (ni v.kind) (ni v.a) (ni v.b) in
  match dfs fl g flt v.roots known onst with
  | DfsOutOfFuel -> failwith "model-out-of-fuel"
  | DfsOutOfRange evs -> (evs, true, false, known, onst)
  | DfsOk (evs, c) ->
    if v.stop = -1 then (evs, false, false, c.c_known, c.c_onst)
    else
      let cut = if v.stop = -2 then ev_upto flagged evs else take (v.stop + 1) evs in
      (* interrupted iff the breaking event exists *)
      let interrupted = if v.stop = -2 then List.exists flagged evs else List.length evs > v.stop in
      (* a break on the first event (the Init of the first root not yet known) leaves the
         marks as they were: the callback runs before the root is marked *)
      if v.stop = 0 && interrupted then (cut, false, interrupted, known, onst)
      else (cut, false, interrupted, c.c_known, c.c_onst)

let flavour_name = function NoPred -> "nopred" | Pred -> "pred" | Path -> "path"

let run_dfs (args : (string * string) list) : string =
  let g = graph_of args in
  let vis = List.map parse_visit (String.split_on_char '|' (get args "vis")) in
  let res = Buffer.create 128 in
  let add k v = Buffer.add_string res (" " ^ k ^ "=" ^ v) in
  let impl fl =
    let s = get args (flavour_name fl) in
    if s = "x" then None else Some (List.map (parse_events (fl = NoPred)) (String.split_on_char '|' s)) in
  let ipath = impl Path and ipred = impl Pred and inopred = impl NoPred in
  (* correspondence: exact event sequences, per flavour, chaining the marks *)
  let corr fl impl_evs =
    match impl_evs with
    | None -> ()
    | Some ievs ->
      let known = ref [] and onst = ref [] in
      let bad = ref "" in
      List.iteri (fun i (v, (ie, ipanic)) ->
          if v.reset then (known := []; onst := []);
          let (me, mpanic, _, k', o') = model_visit fl g v !known !onst in
          known := k'; onst := o';
          let ms = fmt_events (fl = NoPred) me mpanic and is = fmt_events (fl = NoPred) ie ipanic in
          if ms <> is && !bad = "" then
            bad := Printf.sprintf "visit%d;model:%s;impl:%s" i
                (if String.length ms > 120 then String.sub ms 0 120 else ms)
                (if String.length is > 120 then String.sub is 0 120 else is))
        (List.combine vis ievs);
      add ("ev_" ^ flavour_name fl) (if !bad = "" then "ok" else "FAIL(" ^ !bad ^ ")") in
  corr Path ipath; corr Pred ipred; corr NoPred inopred;
  (* oracle: the implementation's own events are well formed (proved replay checker);
     the seen set is carried along by the checker's own reading of the events *)
  let oracle track fl impl_evs =
    match impl_evs with
    | None -> ()
    | Some ievs ->
      let seen = ref [] in
      let bad = ref "" in
      List.iteri (fun i (v, (ie, ipanic)) ->
          if v.reset then seen := [];
          let complete = v.stop = -1 && not ipanic in
          let okv =
            if complete then wf_events track g !seen ie
            else wf_events_prefix track g !seen ie in
          if not okv && !bad = "" then bad := Printf.sprintf "visit%d" i;
          (* a panic is legitimate only for a root outside the graph *)
          if ipanic && not (List.exists (fun r -> ii r >= List.length g) v.roots) && !bad = "" then
            bad := Printf.sprintf "visit%d:panic" i;
          seen := List.rev_append (pre_nodes ie) !seen)
        (List.combine vis ievs);
      add ("wf_" ^ flavour_name fl) (if !bad = "" then "ok" else "FAIL(" ^ !bad ^ ")") in
  oracle true Path ipath; oracle false Pred ipred;
  (* oracle: spanning forest of the reachable set, on fresh complete unfiltered visits *)
  (match ipath with
   | Some ievs ->
     let bad = ref "" in
     let fresh = ref true in
     List.iteri (fun i (v, (ie, ipanic)) ->
         if v.reset then fresh := true;
         if !fresh && v.stop = -1 && not ipanic && v.kind = 0 then begin
           match reach_star g v.roots with
           | None -> if !bad = "" then bad := "closure-fuel"
           | Some s ->
             if sort_ints (List.map ii s) <> sort_ints (List.map ii (pre_nodes ie))
             || List.length (pre_nodes ie) <> List.length (sort_ints (List.map ii (pre_nodes ie))) then
               if !bad = "" then bad := Printf.sprintf "visit%d" i
         end;
         fresh := false)
       (List.combine vis ievs);
     add "span" (if !bad = "" then "ok" else "FAIL(" ^ !bad ^ ")")
   | None -> ());
  (* oracle: the three flavours agree up to what they can show *)
  (match ipath, ipred with
   | Some p, Some q ->
     let okp = List.for_all2 (fun (a, pa) (b, pb) -> pa = pb && (
         let ea = List.concat_map (ev_erase Pred) a in
         (* interrupted on a flag only in the path flavour: compare the common prefix *)
         let la = List.length ea and lb = List.length b in
         take (min la lb) ea = take (min la lb) b)) p q in
     add "flav_pred" (if okp then "ok" else "FAIL")
   | _ -> ());
  (match ipred, inopred with
   | Some p, Some q ->
     (* index-based interruptions cut the two streams at different places: compare only
        when no visit of the scenario is interrupted *)
     if List.for_all (fun v -> v.stop = -1) vis then begin
       let okp = List.for_all2 (fun (a, pa) (b, pb) -> pa = pb && List.concat_map (ev_erase NoPred) a = b) p q in
       add "flav_nopred" (if okp then "ok" else "FAIL")
     end
   | _ -> ());
  Buffer.contents res

let run_dfsalgo (args : (string * string) list) : string =
  let g = graph_of args in
  let n = List.length g in
  let res = Buffer.create 128 in
  let add k v = Buffer.add_string res (" " ^ k ^ "=" ^ v) in
  let acyc = get args "acyc" and ts = get args "ts" and order = get args "order" in
  let is_panic s = String.length s >= 5 && String.sub s 0 5 = "panic" in
  add "nopanic" (if is_panic acyc || is_panic ts || is_panic order then "FAIL" else "ok");
  (* correspondence *)
  if not (is_panic acyc) then
    add "m_acyc" (match is_acyclic g with
        | Some b -> if (if b then "1" else "0") = acyc then "ok" else "FAIL(model:" ^ string_of_bool b ^ ")"
        | None -> "FAIL(model-error)");
  let its = if is_panic ts then [] else if ts = "-" then [] else ints_of_string ts in
  if not (is_panic ts) then
    (* WHICH topological order (which reverse postorder) is returned is not fixed by the
       property; the order is judged by the proved checkers below (ts_perm, ts_valid) and the
       comparison with the model's order (roots 0..n-1) is recorded only *)
    add "i_m_ts" (match top_sort g with
        | Some l -> if List.map ii l = its then "same" else "differs"
        | None -> "model-error");
  let fmt_order l = if l = [] then "-" else String.concat "," (List.map (fun (((r, p), v), d) ->
      Printf.sprintf "%d.%d.%d.%d" (ii r) (ii p) (ii v) (ii d)) l) in
  if not (is_panic order) then begin
    let cut s = if String.length s > 100 then String.sub s 0 100 else s in
    (match dfs_order g with
     | Some l -> add "m_order" (if fmt_order l = order then "ok" else "FAIL(model:" ^ cut (fmt_order l) ^ ")")
     | None -> add "m_order" "FAIL(model-error)");
    (* oracle: the iterator as specified (root = root of the node's tree) *)
    (match dfs_order_spec g with
     | Some l ->
       let strip s = if s = "-" then [] else List.map (fun t -> match String.split_on_char '.' t with
           | [_; p; v; d] -> (p, v, d) | _ -> failwith "order") (String.split_on_char ',' s) in
       add "order_fields" (if strip (fmt_order l) = strip order then "ok" else "FAIL");
       add "order_root" (if fmt_order l = order then "ok" else "FAIL(expected:" ^ cut (fmt_order l) ^ ")")
     | None -> add "order_root" "FAIL(model-error)");
    (* ExactSizeIterator: remaining length n, n-1, ..., 0 *)
    let lens = ints_of_string (get args "len") in
    add "order_len" (if lens = List.init (n + 1) (fun i -> n - i) then "ok" else "FAIL")
  end;
  (* oracle: brute force by saturation (proved) when the graph is small; otherwise the
     certificates: a valid topological order proves acyclicity *)
  let ts_n = List.map ni its in
  if not (is_panic ts) then
    add "ts_perm" (if is_perm_nodes g ts_n then "ok" else "FAIL");
  if not (is_panic acyc) && not (is_panic ts) then begin
    let valid = check_topsort g ts_n in
    if n <= 24 then begin
      match has_cycle_brute g with
      | None -> add "acyc" "FAIL(closure-fuel)"
      | Some cyc ->
        add "acyc" (if (acyc = "1") = (not cyc) then "ok" else "FAIL(brute-cycle:" ^ string_of_bool cyc ^ ")");
        add "ts_valid" (if cyc || valid then "ok" else "FAIL")
    end else begin
      (* acyclic answer must come with a valid order; a cyclic answer must have no valid order
         from the implementation and a node on a cycle among the nodes *)
      if acyc = "1" then add "ts_valid" (if valid then "ok" else "FAIL")
      else begin
        add "ts_valid" (if valid then "FAIL(valid-order-on-cyclic-answer)" else "ok");
        (* certificate: the target of the model's first flagged revisit lies on a cycle *)
        let cert = match dfs Path g (dfs_filter (ni 0) (ni 0) (ni 0)) (List.init n ni) [] [] with
          | DfsOk (evs, _) ->
            (match List.find_opt flagged evs with
             | Some (ERev (v, _, _, _, _)) ->
               (match reach_plus g v with Some s -> List.mem v s | None -> false)
             | _ -> false)
          | _ -> false in
        add "acyc" (if cert then "ok" else "FAIL(no-cycle-certificate)")
      end
    end
  end;
  Buffer.contents res
