(* Channel "visit": breadth-first visits (C13).
   Oracle aspects evaluate the property on the events the implementation produced, against
   the proved specification [bfs_levels] (level sets by iteration):
     struct   Init first / Done last, nothing at all for an empty visit
     levels   per distance, the multiset of visited nodes = the specification level
     pred     the predecessor is the node itself at distance 0, otherwise a node of the
              previous level of which the node is a successor
     fsize    the sequence of FrontierSize events = the level sizes
     order    position of FrontierSize events relative to Visit events
     revisit  Revisit events name an arc towards a node that is visited
     fresh    no node visited by an earlier visit on the un-reset visitor is visited again
     perm/len/fused/parent/dist  for the iterators
     refusal/status  error and panic behaviour
   Correspondence aspects compare exactly with the extracted models:
     seqev    event sequence of [bfs_seq]
     parsched [par_step] under a schedule built from the winners reproduces the
              implementation's next frontier (node, pred) exactly
     orderev / rootsev   item sequences of [bfs_order] / [bfs_from_roots]
     permev   the permutation stored by the command-line `perm bfs` = positions in [bfs_order] *)
open Model
open Model.BfsM
type string = Stdlib.String.t
let max = Stdlib.max
let min = Stdlib.min
open Conv

type ev = I | V of int * int * int | W of int * int | R of int * int | Q of int | F of int * int | D
        | Bad of string

let parse_ev (t : string) : ev =
  try
    let rest = String.sub t 1 (String.length t - 1) in
    let nums () = List.map int_of_string (String.split_on_char ':' rest) in
    match t.[0] with
    | 'I' when rest = "" -> I
    | 'D' when rest = "" -> D
    | 'V' -> (match nums () with [a; b; c] -> V (a, b, c) | _ -> Bad t)
    | 'W' -> (match nums () with [a; c] -> W (a, c) | _ -> Bad t)
    | 'R' -> (match nums () with [a; b] -> R (a, b) | _ -> Bad t)
    | 'Q' -> (match nums () with [a] -> Q a | _ -> Bad t)
    | 'F' -> (match nums () with [a; b] -> F (a, b) | _ -> Bad t)
    | _ -> Bad t
  with _ -> Bad t

let parse_events (s : string) : ev list = List.map parse_ev (split_on ',' s)

let string_of_model_event (e : event) : string =
  match e with
  | EInit -> "I"
  | EVisit (v, p, d) -> Printf.sprintf "V%d:%d:%d" (int_of_n v) (int_of_n p) (int_of_n d)
  | ERevisit (v, p) -> Printf.sprintf "R%d:%d" (int_of_n v) (int_of_n p)
  | EFrontier (d, s) -> Printf.sprintf "F%d:%d" (int_of_n d) (int_of_n s)
  | EDone -> "D"

let mk_filter (blocked : int list) (maxd : int) (salt : int) : n -> n -> bool =
  let tbl = Hashtbl.create 16 in
  List.iter (fun x -> Hashtbl.replace tbl x ()) blocked;
  fun v d ->
    let v = int_of_n v and d = int_of_n d in
    (not (Hashtbl.mem tbl v)) && d <= maxd && (salt = 0 || (v * 7 + d * 13 + salt) mod 5 <> 0)

let sorted l = List.sort compare l
let ok_or b detail = if b then "ok" else "FAIL(" ^ detail ^ ")"

let first_n k s = if String.length s <= k then s else String.sub s 0 k

(* oracle on a callback-style event list *)
let check_events (kind : string) (g : int list array) (levels : int list list) (visited_before : (int, unit) Hashtbl.t)
    (evs : ev list) : (string * string) list =
  let nl = List.length levels in
  let lv = Array.of_list levels in
  let inlevel k x = k >= 0 && k < nl && List.mem x lv.(k) in
  let succ_of p s = p >= 0 && p < Array.length g && List.mem s g.(p) in
  let bad = List.exists (function Bad _ -> true | _ -> false) evs in
  (* struct *)
  let structure =
    if bad then "FAIL(unparsable-event)"
    else if nl = 0 then ok_or (evs = []) "events-on-empty-visit"
    else begin
      let ni = List.length (List.filter (fun e -> e = I) evs) in
      let nd = List.length (List.filter (fun e -> e = D) evs) in
      match evs with
      | I :: _ when ni = 1 && nd = 1 && List.nth evs (List.length evs - 1) = D -> "ok"
      | _ -> "FAIL(init-done)"
    end in
  (* levels *)
  let vis = List.filter_map (function V (v, _, d) -> Some (v, d) | W (v, d) -> Some (v, d) | _ -> None) evs in
  let levels_ok =
    let too_far = List.exists (fun (_, d) -> d < 0 || d >= nl) vis in
    if too_far then "FAIL(visit-beyond-last-level)"
    else begin
      let res = ref "ok" in
      Array.iteri (fun k l ->
          let got = sorted (List.filter_map (fun (v, d) -> if d = k then Some v else None) vis) in
          if got <> sorted l && !res = "ok" then
            res := Printf.sprintf "FAIL(level%d:got=%s;spec=%s)" k (first_n 60 (string_of_ints got)) (first_n 60 (string_of_ints (sorted l)))) lv;
      !res
    end in
  (* pred *)
  let pred_ok =
    let badp = List.filter_map (function
        | V (v, p, d) ->
          if d = 0 then (if p = v then None else Some (v, p, d))
          else if inlevel (d - 1) p && succ_of p v then None else Some (v, p, d)
        | _ -> None) evs in
    (match badp with [] -> "ok" | (v, p, d) :: _ -> Printf.sprintf "FAIL(node%d:pred%d:dist%d)" v p d) in
  (* fsize *)
  let fs = List.filter_map (function F (d, s) -> Some (d, s) | _ -> None) evs in
  let spec_fs = List.mapi (fun k l -> (k, List.length l)) levels in
  let fsize = ok_or (fs = spec_fs)
      (Printf.sprintf "got=%s;spec=%s"
         (first_n 80 (String.concat "," (List.map (fun (a, b) -> Printf.sprintf "%d:%d" a b) fs)))
         (first_n 80 (String.concat "," (List.map (fun (a, b) -> Printf.sprintf "%d:%d" a b) spec_fs)))) in
  (* order: [nf] = number of FrontierSize events seen so far *)
  let order =
    let nf = ref 0 and res = ref "ok" in
    List.iter (fun e ->
        match e with
        | F _ -> incr nf
        | V (v, _, d) | W (v, d) ->
          let legal = if kind = "fair" || kind = "fairnp" then !nf = d + 1 else !nf = d in
          if (not legal) && !res = "ok" then res := Printf.sprintf "FAIL(node%d:dist%d:after%dfrontier-events)" v d !nf
        | _ -> ()) evs;
    !res in
  (* revisit *)
  let revisit =
    let anylevel x = Hashtbl.mem visited_before x || List.exists (fun l -> List.mem x l) levels in
    let badr = List.filter_map (function
        | R (v, p) -> if anylevel v && succ_of p v && List.exists (fun l -> List.mem p l) levels then None else Some v
        | Q v -> if anylevel v then None else Some v
        | _ -> None) evs in
    (match badr with [] -> "ok" | v :: _ -> Printf.sprintf "FAIL(node%d)" v) in
  (* fresh *)
  let fresh =
    match List.filter (fun (v, _) -> Hashtbl.mem visited_before v) vis with
    | [] -> "ok" | (v, _) :: _ -> Printf.sprintf "FAIL(node%d-visited-again)" v in
  [("struct", structure); ("levels", levels_ok); ("pred", pred_ok); ("fsize", fsize); ("order", order);
   ("revisit", revisit); ("fresh", fresh)]

(* remove one occurrence *)
let rec remove_one x = function
  | [] -> None
  | y :: r -> if x = y then Some r else (match remove_one x r with Some r' -> Some (y :: r') | None -> None)

let run (args : (string * string) list) : string =
  let kind = get args "kind" in
  let n = get_int args "n" in
  let gl = lists_of_string (get args "g") in
  let garr = Array.of_list gl in
  let g : n list list = List.map (List.map n_of_int) gl in
  let nv = get_int args "nv" in
  let status = get args "status" in
  let res = Buffer.create 256 in
  (* keep the first failure of each aspect over the visits of the case *)
  let acc : (string, string) Hashtbl.t = Hashtbl.create 16 in
  let order_keys = ref [] in
  let add k v =
    if not (Hashtbl.mem acc k) then (Hashtbl.replace acc k v; order_keys := k :: !order_keys)
    else if Hashtbl.find acc k = "ok" && v <> "ok" then Hashtbl.replace acc k v in
  let ivisit i k = get args (Printf.sprintf "%s%d" k i) in
  let roots_of i = ints_of_string (ivisit i "r") in
  let bad_input =
    let rec any i = i < nv && (List.exists (fun r -> r >= n) (roots_of i) || any (i + 1)) in
    any 0 || (kind = "order" && n = 0) in
  let starts p s = String.length s >= String.length p && String.sub s 0 (String.length p) = p in
  if status <> "ok" then begin
    if bad_input then add "refusal" (ok_or (starts "panic" status) ("not-a-panic:" ^ first_n 40 status))
    else add "status" ("FAIL(" ^ first_n 80 status ^ ")")
  end else if bad_input then add "refusal" "FAIL(accepted-a-root-outside-the-graph)"
  else begin
    add "status" "ok";
    let vmodel = ref [] in                       (* the model's visited list *)
    let before : (int, unit) Hashtbl.t = Hashtbl.create 64 in   (* implementation side *)
    for i = 0 to nv - 1 do
      let roots_i = roots_of i in
      let roots = List.map n_of_int roots_i in
      let f = mk_filter (ints_of_string (ivisit i "b")) (int_of_string (ivisit i "m")) (int_of_string (ivisit i "s")) in
      let es = ivisit i "e" in
      match kind with
      | "seq" | "fair" | "fairnp" | "lowmem" ->
        if ivisit i "x" = "1" then (vmodel := []; Hashtbl.reset before);
        (* nodes reported by an abandoned (interrupted) visit that preceded this one on the same
           visitor: they are marked as visited, nothing else of it may survive *)
        (match get_opt args (Printf.sprintf "a%d" i) with
         | Some a ->
           List.iter (fun v ->
               if not (List.mem (n_of_int v) !vmodel) then vmodel := n_of_int v :: !vmodel;
               Hashtbl.replace before v ()) (ints_of_string a)
         | None -> ());
        let levels_m = bfs_levels g f roots !vmodel in
        let levels = List.map (List.map int_of_n) levels_m in
        let evs = parse_events es in
        List.iter (fun (k, v) -> add k v) (check_events kind garr levels before evs);
        if kind = "seq" then begin
          let (v', mev) = bfs_seq g f roots !vmodel in
          let ms = String.concat "," (List.map string_of_model_event mev) in
          add "seqev" (ok_or (ms = es) ("model=" ^ first_n 120 ms));
          vmodel := v'
        end else begin
          if kind <> "fairnp" then begin
            (* a schedule in which the winners' steps come first reproduces the outcome *)
            let vis = List.filter_map (function V (v, p, d) -> Some (v, p, d) | _ -> None) evs in
            let maxd = List.fold_left (fun m (_, _, d) -> max m d) 0 vis in
            let vk = ref !vmodel in
            let r = ref "ok" in
            for k = 0 to maxd do
              let lk = List.filter_map (fun (v, _, d) -> if d = k then Some v else None) vis in
              vk := List.map n_of_int lk @ !vk;
              let winners = List.filter_map (fun (v, p, d) -> if d = k + 1 then Some (p, v) else None) vis in
              let all = List.map (fun (p, s) -> (int_of_n p, int_of_n s)) (steps g (List.map n_of_int lk)) in
              let rest = List.fold_left (fun acc w ->
                  match acc with None -> None | Some l -> remove_one w l) (Some all) winners in
              (match rest with
               | None -> if !r = "ok" then r := Printf.sprintf "FAIL(level%d:winner-is-not-a-scan-step)" (k + 1)
               | Some rest ->
                 let sched = List.map (fun (p, s) -> (n_of_int p, n_of_int s)) (winners @ rest) in
                 let (_, nx) = par_step f (n_of_int (k + 1)) sched !vk in
                 let got = sorted (List.map (fun (s, p) -> (int_of_n p, int_of_n s)) nx) in
                 if got <> sorted winners && !r = "ok" then r := Printf.sprintf "FAIL(level%d)" (k + 1))
            done;
            add "parsched" !r
          end;
          vmodel := List.concat levels_m @ !vmodel
        end;
        List.iter (function V (v, _, _) | W (v, _) -> Hashtbl.replace before v () | _ -> ()) evs
      | "order" ->
        let toks = split_on ',' es in
        let items = List.filter_map (fun t ->
            if String.length t > 1 && t.[0] = 'V' then
              (match List.map int_of_string (String.split_on_char ':' (String.sub t 1 (String.length t - 1))) with
               | [r; p; v; d] -> Some (r, p, v, d) | _ -> None)
            else None) toks in
        add "fused" (if List.mem "FUSEDPANIC" toks then "FAIL(next-after-None-panics)"
                     else ok_or (not (List.mem "OVERRUN" toks || List.mem "NOTFUSED" toks)) "iterator-does-not-stop");
        add "len" (ok_or (List.mem "L1" toks) "ExactSizeIterator::len");
        add "perm" (ok_or (sorted (List.map (fun (_, _, v, _) -> v) items) = List.init n (fun x -> x)) "not-every-node-exactly-once");
        (* parent: an earlier item of the same root at distance - 1 *)
        let seen = Hashtbl.create 64 in
        let pr = ref "ok" in
        List.iter (fun (r, p, v, d) ->
            let good =
              if d = 0 then r = v && p = v
              else Hashtbl.mem seen (r, p, d - 1) && p < n && List.mem v garr.(p) in
            if (not good) && !pr = "ok" then pr := Printf.sprintf "FAIL(root%d:parent%d:node%d:dist%d)" r p v d;
            Hashtbl.replace seen (r, v, d) ()) items;
        add "parent" !pr;
        (* dist: per root, the levels of a visit from that root avoiding earlier trees *)
        let dr = ref "ok" in
        let vb = ref [] in
        let rec groups = function
          | [] -> []
          | (r, _, _, _) :: _ as l ->
            let (a, b) = List.partition (fun (r', _, _, _) -> r' = r) l in
            (* contiguity: the items of root r must form a prefix *)
            let rec is_prefix a l = match a, l with [], _ -> true | x :: a', y :: l' -> x = y && is_prefix a' l' | _ -> false in
            if not (is_prefix a l) && !dr = "ok" then dr := Printf.sprintf "FAIL(root%d-not-contiguous)" r;
            (r, a) :: groups b in
        List.iter (fun (r, grp) ->
            let lv = bfs_levels g (fun _ _ -> true) [n_of_int r] !vb in
            let spec = sorted (List.map (fun (v, d) -> (int_of_n v, int_of_n d)) (tag_levels N0 lv)) in
            let got = sorted (List.map (fun (_, _, v, d) -> (v, d)) grp) in
            if got <> spec && !dr = "ok" then dr := Printf.sprintf "FAIL(root%d)" r;
            vb := List.concat lv @ !vb) (groups items);
        add "dist" !dr;
        let m = bfs_order g in
        let ms = List.map (fun (((r, p), v), d) -> (int_of_n r, int_of_n p, int_of_n v, int_of_n d)) m in
        add "orderev" (ok_or (ms = items) "sequence-differs")
      | "cliperm" ->
        (* perm[node] = position of the node in the BfsOrder enumeration *)
        let toks = split_on ',' es in
        let perm = List.map (fun t -> int_of_string (String.sub t 1 (String.length t - 1))) toks in
        add "perm" (ok_or (sorted perm = List.init n (fun x -> x)) "not-a-permutation");
        let order = List.map (fun (((_, _), v), _) -> int_of_n v) (bfs_order g) in
        let mp = Array.make n (-1) in
        List.iteri (fun i v -> if v < n then mp.(v) <- i) order;
        add "permev" (ok_or (Array.to_list mp = perm) "differs-from-model")
      | "fromroots" ->
        let toks = split_on ',' es in
        let m = bfs_from_roots g roots in
        if toks = ["ERR"] then add "refusal" (ok_or (m = None) "error-on-non-empty-roots")
        else begin
          add "refusal" (ok_or (m <> None) "accepted-empty-roots");
          let items = List.filter_map (fun t ->
              if String.length t > 1 && t.[0] = 'V' then
                (match List.map int_of_string (String.split_on_char ':' (String.sub t 1 (String.length t - 1))) with
                 | [p; v; d] -> Some (p, v, d) | _ -> None)
              else None) toks in
          add "fused" (ok_or (not (List.mem "OVERRUN" toks)) "iterator-does-not-stop");
          let levels_m = bfs_levels g (fun _ _ -> true) roots [] in
          let levels = List.map (List.map int_of_n) levels_m in
          let evs = List.map (fun (p, v, d) -> V (v, p, d)) items in
          List.iter (fun (k, v) -> if k = "levels" || k = "pred" then add k v)
            (check_events "seq" garr levels (Hashtbl.create 1) evs);
          (match m with
           | Some l ->
             let ms = List.map (fun ((p, v), d) -> (int_of_n p, int_of_n v, int_of_n d)) l in
             add "rootsev" (ok_or (ms = items) "sequence-differs")
           | None -> ())
        end
      | _ -> add "status" ("FAIL(kind-" ^ kind ^ ")")
    done
  end;
  List.iter (fun k -> Buffer.add_string res (" " ^ k ^ "=" ^ Hashtbl.find acc k)) (List.rev !order_keys);
  Buffer.contents res
