(* Channel "prank": PageRank (C18).  The implementation's f64 vectors are converted to
   exact (dyadic) rationals; all comparisons are made in Q with the extracted functions. *)
module ZZ = Z
module QQ = Q
open Model
open Model.PageRankM
type string = Stdlib.String.t
let max = Stdlib.max
let min = Stdlib.min
open Conv

let rec pos_pow2 (k : int) : positive = if k <= 0 then XH else XO (pos_pow2 (k - 1))
let rec pos_shift (p : positive) (k : int) : positive = if k <= 0 then p else pos_shift (XO p) (k - 1)

let q_of_ints (a : int) (b : int) : q = qred { qnum = z_of_int a; qden = pos_of_int b }
let q0 = { qnum = Z0; qden = XH }
let q1 = { qnum = Zpos XH; qden = XH }

(* exact value of the f64 with the given bits; None for infinities and NaN *)
let q_of_bits (h : string) : q option =
  let b = Int64.of_string ("0x" ^ h) in
  let neg = Int64.compare b 0L < 0 in
  let e = Int64.to_int (Int64.logand (Int64.shift_right_logical b 52) 0x7ffL) in
  let m = Int64.to_int (Int64.logand b 0xfffffffffffffL) in
  if e = 2047 then None
  else begin
    let (m, e) = if e = 0 then (m, -1074) else (m lor (1 lsl 52), e - 1075) in
    if m = 0 then Some q0
    else begin
      let p = pos_of_int m in
      let (num, den) = if e >= 0 then (pos_shift p e, XH) else (p, pos_pow2 (-e)) in
      Some (qred { qnum = (if neg then Zneg num else Zpos num); qden = den })
    end
  end

let float_of_bits (h : string) : float = Int64.float_of_bits (Int64.of_string ("0x" ^ h))

(* (m, e) with value = m * 2^e, 0.5 <= m < 1 *)
let rec fe_of_pos (p : positive) : float * int =
  match p with
  | XH -> (0.5, 1)
  | XO p -> let (m, e) = fe_of_pos p in (m, e + 1)
  | XI p ->
    let (m, e) = fe_of_pos p in
    let m' = m +. ldexp 1.0 (- e - 1) in
    if m' >= 1.0 then (m' /. 2.0, e + 2) else (m', e + 1)

let float_of_q (x : q) : float =
  let (md, ed) = fe_of_pos x.qden in
  match x.qnum with
  | Z0 -> 0.0
  | Zpos p -> let (m, e) = fe_of_pos p in ldexp (m /. md) (e - ed)
  | Zneg p -> let (m, e) = fe_of_pos p in -. ldexp (m /. md) (e - ed)

let qsum (l : q list) : q = List.fold_left (fun a b -> qred (qplus a b)) q0 l
let qle a b = qle_bool a b
let fstr (f : float) : string = Printf.sprintf "%.3e" f

(* ---- untrusted fast solver (Zarith): Gauss-Jordan elimination on the rows produced by the
   extracted [system_rows].  Its result is accepted ONLY through the proved certificate
   checker [certified] (exactly as the result of the extracted [pr_solve], which it replaces
   because elimination with inductive binary numbers takes minutes beyond 40 nodes). ---- *)
let rec zt_of_pos (p : positive) : ZZ.t = match p with
  | XH -> ZZ.one | XO p -> ZZ.shift_left (zt_of_pos p) 1 | XI p -> ZZ.succ (ZZ.shift_left (zt_of_pos p) 1)
let zt_of_z (z : z) : ZZ.t = match z with Z0 -> ZZ.zero | Zpos p -> zt_of_pos p | Zneg p -> ZZ.neg (zt_of_pos p)
let qt_of_q (x : q) : QQ.t = QQ.make (zt_of_z x.qnum) (zt_of_pos x.qden)
let rec pos_of_zt (z : ZZ.t) : positive =
  if ZZ.equal z ZZ.one then XH
  else if ZZ.is_even z then XO (pos_of_zt (ZZ.shift_right z 1)) else XI (pos_of_zt (ZZ.shift_right z 1))
let q_of_qt (x : QQ.t) : q =
  let n = QQ.num x and d = QQ.den x in
  { qnum = (if ZZ.sign n = 0 then Z0 else if ZZ.sign n > 0 then Zpos (pos_of_zt n) else Zneg (pos_of_zt (ZZ.neg n)));
    qden = pos_of_zt d }

let fast_solve (rows : q list list) : q list option =
  let a = Array.of_list (List.map (fun r -> Array.of_list (List.map qt_of_q r)) rows) in
  let n = Array.length a in
  if n = 0 then Some [] else
  if Array.exists (fun r -> Array.length r <> n + 1) a then None else begin
    let ok = ref true in
    (try
       for c = 0 to n - 1 do
         (* pivot *)
         let p = ref (-1) in
         for r = c to n - 1 do if !p < 0 && QQ.sign a.(r).(c) <> 0 then p := r done;
         if !p < 0 then (ok := false; raise Exit);
         let t = a.(c) in a.(c) <- a.(!p); a.(!p) <- t;
         let h = a.(c).(c) in
         for j = c to n do a.(c).(j) <- QQ.div a.(c).(j) h done;
         for r = 0 to n - 1 do
           if r <> c && QQ.sign a.(r).(c) <> 0 then begin
             let f = a.(r).(c) in
             for j = c to n do a.(r).(j) <- QQ.sub a.(r).(j) (QQ.mul f a.(c).(j)) done
           end
         done
       done
     with Exit -> ());
    if !ok then Some (List.init n (fun i -> q_of_qt a.(i).(n))) else None
  end

let pr_solve gt alpha v md : q list option = fast_solve (system_rows gt alpha v md)

let mode_of_string = function
  | "s" -> StronglyPreferential | "w" -> WeaklyPreferential | "p" -> PseudoRank
  | m -> failwith ("bad mode " ^ m)

let rec pow10 k = if k = 0 then 1 else 10 * pow10 (k - 1)

let bits_list (s : string) : string list = split_on ',' s

let run (args : (string * string) list) : string =
  let res = Buffer.create 256 in
  let add k v = Buffer.add_string res (" " ^ k ^ "=" ^ v) in
  let okf b detail = if b then "ok" else "FAIL(" ^ detail ^ ")" in
  let n = get_int args "n" in
  let status = get args "status" in
  add "status" (okf (status = "ok") status);
  if status <> "ok" then Buffer.contents res
  else begin
    let gti = lists_of_string (get args "gt") in
    let gti = if n = 0 then [] else gti in
    let gt = List.map (List.map nat_of_int) gti in
    let alpha = q_of_ints (get_int args "an") (get_int args "ad") in
    let md = mode_of_string (get args "mode") in
    let v =
      match get args "pref" with
      | "u" -> List.init n (fun _ -> q_of_ints 1 (max n 1))
      | w -> let ws = ints_of_string w in
        let tot = List.fold_left (+) 0 ws in
        List.map (fun a -> q_of_ints a tot) ws in
    let epsexp = get_int args "epsexp" in
    let eps = q_of_ints 1 (pow10 epsexp) in
    let tol = qred (qmult (q_of_ints 8 1) eps) in
    let xs_bits = bits_list (get args "x") in
    let ximpl_o = List.map q_of_bits xs_bits in
    let finite = List.for_all (fun o -> o <> None) ximpl_o in
    add "finite" (okf finite "nan-or-inf");
    add "len" (okf (List.length xs_bits = n) (string_of_int (List.length xs_bits)));
    if n = 0 || not finite || List.length xs_bits <> n then Buffer.contents res
    else begin
      let ximpl = List.map (function Some x -> x | None -> q0) ximpl_o in
      (* exact solution + certificate *)
      (match pr_solve gt alpha v md with
       | None -> add "cert" "FAIL(no-solution)"
       | Some sol ->
         let cert = certified gt alpha v md sol in
         add "cert" (okf cert "certificate-rejected");
         if cert then begin
           let err = qred (l1dist ximpl sol) in
           add "l1" (okf (qle err tol) ("err:" ^ fstr (float_of_q err) ^ ";tol:" ^ fstr (float_of_q tol)));
           add "nonneg" (okf (List.for_all (fun x -> qle q0 x) ximpl) "negative-entry");
           let nd = float_of_bits (get args "nd") in
           let epsf = 10.0 ** (-. float_of_int epsexp) in
           add "stop" (okf (nd <= epsf *. (1.0 +. 1e-9) && get_int args "iters" >= 1) ("nd:" ^ fstr nd));
           let errf = float_of_q err in
           add "_err" (fstr errf);
           add "_ratio" (if nd > 0.0 then fstr (errf /. nd) else "na");
           (match md with
            | PseudoRank ->
              (match pr_solve gt alpha v StronglyPreferential with
               | None -> add "propexact" "FAIL(no-strong-solution)"
               | Some ss ->
                 let c = qsum sol in
                 let scaled = List.map (fun x -> qred (qmult c x)) ss in
                 let exact = certified gt alpha v StronglyPreferential ss
                             && List.for_all2 (fun a b -> qeq_bool a b) scaled sol in
                 add "propexact" (okf exact "pseudorank-not-proportional-in-model");
                 let e2 = qred (l1dist ximpl scaled) in
                 add "prop" (okf (qle e2 tol) ("err:" ^ fstr (float_of_q e2))))
            | _ ->
              let s = qsum ximpl in
              let d = qabs (qminus s q1) in
              add "sum" (okf (qle d tol) ("sum-1:" ^ fstr (float_of_q d))));
           (* the exact solution is a fixed point of the modelled sweep (small cases) *)
           if n <= 12 then begin
             let order = List.init n nat_of_int in
             let dr = qred (dangling_rank (nat_of_int n) (predf gt) (vecf sol)) in
             let ((xs', _), nrm) = sweep gt alpha v md order (fun _ _ -> false) sol dr in
             add "fixpt" (okf (qeq_bool nrm q0 && List.for_all2 (fun a b -> qeq_bool a b) xs' sol) "sweep-moves-the-solution")
           end;
           (* the statement S_error_bound (theorem C18_error_bound) evaluated on the extracted
              sweep with a pseudo-random write order and staleness pattern, two sweeps: a
              cross-check of the extraction, not an independent oracle *)
           if n <= 8 && get_int args "arcs" <= 30 then begin
             let st = Random.State.make [| Hashtbl.hash (get args "id"); n |] in
             let perm = Array.init n (fun i -> i) in
             for i = n - 1 downto 1 do
               let j = Random.State.int st (i + 1) in
               let t = perm.(i) in perm.(i) <- perm.(j); perm.(j) <- t
             done;
             let order = List.map nat_of_int (Array.to_list perm) in
             let tbl = Array.init n (fun _ -> Array.init n (fun _ -> Random.State.bool st)) in
             let stale i j = tbl.(int_of_nat i).(int_of_nat j) in
             let ok = ref true in
             let cur = ref v in
             for _ = 1 to 2 do
               let dr = qred (dangling_rank (nat_of_int n) (predf gt) (vecf !cur)) in
               let ((xs', _), nrm) = sweep gt alpha v md order stale !cur dr in
               let lhs = qmult (qminus q1 alpha) (l1dist xs' sol) in
               if not (qle lhs (qmult alpha nrm)) then ok := false;
               cur := xs'
             done;
             add "asyncbound" (okf !ok "model-sweep-exceeds-norm-delta-bound")
           end
         end);
      (* deterministic trajectory: k single-threaded iterations vs the model's Gauss-Seidel sweeps *)
      let k = get_int args "k" in
      let xk_o = List.map q_of_bits (bits_list (get args "xk")) in
      if get_int args "arcs" * k > 300 then add "_sweep" "skipped"
      else if List.for_all (fun o -> o <> None) xk_o && List.length xk_o = n then begin
        let xk = List.map (function Some x -> x | None -> q0) xk_o in
        let order = List.init n nat_of_int in
        let (xm, ndm) = pr_iterate gt alpha v md (nat_of_int k) order (fun _ _ _ -> false) in
        let d = qred (l1dist xk xm) in
        add "sweep" (okf (qle d (q_of_ints 1 (pow10 12)) && get_int args "itk" = k) ("diff:" ^ fstr (float_of_q d)));
        let ndk = float_of_bits (get args "ndk") in
        let ndmf = float_of_q ndm in
        add "nd" (okf (Float.abs (ndk -. ndmf) <= 1e-10 *. Float.max 1.0 ndmf) ("impl:" ^ fstr ndk ^ ";model:" ^ fstr ndmf))
      end else add "sweep" "FAIL(xk-not-finite)";
      Buffer.contents res
    end
  end
