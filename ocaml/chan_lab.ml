(* Channel "lab": labelled compression (C07).  The case carries the input labelled graph,
   the configuration, the bytes of the graph / label / label-offsets files written by the
   implementation and what the implementation read back.  Every check is made by extracted
   model functions; this file only parses, calls them and prints. *)
open Model
open Model.LabelStoreM
type string = Stdlib.String.t
let max = Stdlib.max
let min = Stdlib.min
open Conv

let ok b = if b then "ok" else "FAIL"

(* hexadecimal label (up to 64 bits) to N, digit by digit *)
let n_of_hex (h : string) : n =
  let bits = ref [] in
  String.iter (fun c ->
      let d = int_of_string ("0x" ^ String.make 1 c) in
      bits := !bits @ [d land 8 <> 0; d land 4 <> 0; d land 2 <> 0; d land 1 <> 0]) h;
  let rec strip = function false :: l -> strip l | l -> l in
  match strip !bits with
  | [] -> N0
  | _ :: rest -> Npos (List.fold_left (fun p b -> if b then XI p else XO p) XH rest)

let lgraph_of_string (s : string) : (n * n) list list =
  if s = "" then [] else if s = "-" then [[]]
  else List.map (fun node ->
      List.map (fun tok ->
          match String.index_opt tok ':' with
          | Some i -> (n_of_int (int_of_string (String.sub tok 0 i)),
                       n_of_hex (String.sub tok (i + 1) (String.length tok - i - 1)))
          | None -> failwith ("bad arc " ^ tok)) (split_on ',' node))
      (String.split_on_char ';' s)

let hexlists_of_string (s : string) : n list list =
  if s = "" then [] else if s = "-" then [[]]
  else List.map (fun node -> List.map n_of_hex (split_on ',' node)) (String.split_on_char ';' s)

let ser_of_string (s : string) : ser =
  if s = "G" then GammaL else FixedW (n_of_int (int_of_string (String.sub s 1 (String.length s - 1))))

let all_bits (le : bool) (b : Bytes.t) : bool list = bits_of_bytes le b 0 (8 * Bytes.length b)

let rec take k l = if k <= 0 then [] else match l with x :: l' -> x :: take (k - 1) l' | [] -> []
let rec drop k l = if k <= 0 then l else match l with _ :: l' -> drop (k - 1) l' | [] -> []

let starts s pre = String.length s >= String.length pre && String.sub s 0 (String.length pre) = pre

let run (args : (string * string) list) : string =
  let p = Chan_art.params_of args in
  let cs = codes_of_string (get args "codes") in
  let le = get_int args "le" = 1 in
  let sr = ser_of_string (get args "ser") in
  let lg = lgraph_of_string (get args "lg") in
  let nn = List.length lg in
  let g = succs lg and ls = labs lg in
  let res = Buffer.create 256 in
  let add k v = Buffer.add_string res (" " ^ k ^ "=" ^ v) in
  let status = get args "status" in
  if not (labels_valid sr lg && ser_ok sr) then begin add "input" "FAIL(label-out-of-range)"; Buffer.contents res end
  else if status <> "ok" then begin
    (* an error return is legitimate exactly when the properties file cannot express the codes *)
    add "status" (if starts status "err" && not (representable le cs) then "ok" else "FAIL(" ^ status ^ ")");
    Buffer.contents res
  end else begin
    add "status" (ok (representable le cs));
    let path = get args "path" in
    let cuts = ints_of_string (get args "cuts") in
    let gbuf = bytes_of_hex (get args "graph") in
    let glen = get_int args "glen" in
    let gbits_all = all_bits le gbuf in
    let lbits_all = all_bits le (bytes_of_hex (get args "labels")) in
    let obits_all = all_bits false (bytes_of_hex (get args "loffsets")) in
    let llen = (match int_of_string_opt (get args "llen") with Some v -> v | None -> -1) in
    (* --- the property evaluated on what the implementation wrote and read back --- *)
    (* offsets: n+1 entries, gaps = bit length of each node's labels, ending at [length] *)
    let node_len nd = List.fold_left (fun a v -> a + List.length (ser_enc le sr v)) 0 nd in
    let gaps = List.map node_len ls in
    (match dec_gammas (nat_of_int (nn + 1)) obits_all with
     | Some (vs, rest) ->
       add "offs" (ok (List.map int_of_n vs = 0 :: gaps));
       add "lopad" (ok (List.for_all not rest))
     | None -> add "offs" "FAIL(decode-error)");
    let total = List.fold_left (+) 0 gaps in
    add "lprops" (if llen = total && get args "lnodes" = string_of_int nn && get args "larcs" = get args "arcs"
                     && get args "lser" = get args "sername" && get args "lend" = (if le then "little" else "big")
                  then "ok" else "FAIL(length/nodes/arcs/serializer/endianness)");
    add "counts" (ok (get args "pnodes" = string_of_int nn && get args "parcs" = get args "arcs"));
    (* the proved readers on the implementation's files *)
    let nnat = nat_of_int nn in
    (* (the model readers recompute the bit position from list lengths, quadratic in the
       stream length: for big files the bit-for-bit comparison with the model's streams
       below and the implementation's own read-back stand alone) *)
    if List.length lbits_all <= 50000 then begin
      add "mseq" (ok (lab_read_seq le sr nnat lbits_all obits_all = Some ls));
      add "mra" (ok (lab_read_ra_all le sr nnat lbits_all obits_all = Some ls));
      add "mzip" (ok (read_zip_seq le cs p sr nnat gbits_all lbits_all obits_all = Some lg));
      add "mzipra" (ok (read_zip_ra le cs p sr nnat gbits_all lbits_all obits_all = Some lg))
    end;
    (* the implementation's own read-back *)
    let rstatus = get args "rstatus" in
    add "rstatus" (if rstatus = "ok" then "ok" else "FAIL(" ^ rstatus ^ ")");
    if rstatus = "ok" then begin
      add "zseq" (ok (lgraph_of_string (get args "zseq") = lg));
      add "zra" (ok (lgraph_of_string (get args "zra") = lg));
      add "zras" (ok (lgraph_of_string (get args "zras") = lg));
      add "lseq" (ok (hexlists_of_string (get args "lseq") = ls));
      add "lra" (ok (hexlists_of_string (get args "lra") = ls));
      add "ldeg" (ok (ints_of_string (get args "ldeg") = List.map List.length lg));
      (match get_opt args "fromseq", get_opt args "fromra" with
       | Some a, Some b ->
         (* iter_from(n/2) of both labelings: the labels of the nodes from n/2 on *)
         let expect = drop (nn / 2) ls in
         add "lfrom" (ok (hexlists_of_string a = expect && hexlists_of_string b = expect))
       | _ -> ());
      add "verify" (ok (get args "verify" = "11"));
      add "leftovers" (ok (get args "leftovers" = "0"))
    end;
    (* --- correspondence: the model's files from the same input --- *)
    let decoded =
      decode_records (rd_bits le cs) (fun s -> N0) p nnat N0 [] (take glen gbits_all) in
    (match decoded with
     | None -> add "grt" "FAIL(decode-error)"
     | Some (rs, _) ->
       let lists = List.map (fun ((_, l), _) -> l) rs in
       add "grt" (ok (lists = g));
       if lists = g then begin
         let sel = List.map (fun ((r, _), _) -> r.r_ref) rs in
         let big = List.length lbits_all > 50000 in
         let (mg, mf) =
           if big then
             (* the closed form, proved equal to the state machine and to the parallel result *)
             (Some (graph_bits le cs (encode_graph p N0 g sel)), lab_closed le sr lg)
           else if starts path "comp_labeled" then
             (let ((gb, _), f) = comp_labeled le cs p sr lg sel in (Some gb, f))
           else begin
             let seglens = let rec go = function a :: (b :: _ as t) -> (b - a) :: go t | _ -> [] in go cuts in
             let k = List.length seglens in
             let sels = Chan_art.segments seglens sel in
             let pads = List.init k (fun i -> ([true; i mod 2 = 0; true], [i mod 3 = 0; true])) in
             let order = (match get args "order" with
                 | "os" -> List.init k (fun i -> i)
                 | "-" -> []
                 | o -> ints_of_string o) in
             (* chunks that never report a job (empty ones) arrive first, then the imposed order *)
             let others = List.filter (fun i -> not (List.mem i order)) (List.init k (fun i -> i)) in
             let arrival = List.map nat_of_int (others @ order) in
             match par_comp_labeled le cs p sr (List.map n_of_int cuts) lg sels pads arrival with
             | (SpliceOk (gb, _, _, _), f) -> (Some gb, f)
             | (SpliceNonAdjacent _, f) -> (None, f)
           end in
         (match mg with
          | Some gb -> add "gbits" (ok (gb = take glen gbits_all))
          | None -> add "gbits" "FAIL(model-non-adjacent)");
         let ml = List.length mf.f_lbits and mo = List.length mf.f_obits in
         add "llen" (ok (int_of_n mf.f_ltotal = llen));
         add "lbits" (ok (take ml lbits_all = mf.f_lbits));
         add "lpad" (ok (List.for_all not (drop ml lbits_all)));
         add "lobits" (ok (take mo obits_all = mf.f_obits && List.for_all not (drop mo obits_all)))
       end);
    Buffer.contents res
  end
