(* Channel "xform": graph transforms (C09).  Oracle aspects evaluate the specification
   (the set-theoretic successor lists of Transform/Pipelines.v) on what the implementation
   returned; correspondence aspects compare the extracted pipeline model (partitioned
   sorter, NodeLabels reader, MergeDedupPairs) with the implementation's output. *)
open Model
open Model.XformM
type string = Stdlib.String.t
let max = Stdlib.max
let min = Stdlib.min
open Conv

let nlists (s : string) : n list list = List.map (List.map n_of_int) (lists_of_string s)
let str_of_nlists (l : n list list) : string = string_of_lists (List.map (List.map int_of_n) l)

let opt_lists (s : string) : n list list option = if s = "none" then None else Some (nlists s)

let show (o : n list list option) : string =
  match o with None -> "none" | Some l -> let s = str_of_nlists l in if String.length s > 120 then String.sub s 0 120 ^ "..." else s

let cmp name (expected : n list list option) (got : n list list option) : string =
  " " ^ name ^ "=" ^ (if expected = got then "ok" else "FAIL(expected:" ^ show expected ^ ";got:" ^ show got ^ ")")

let starts s p = String.length s >= String.length p && String.sub s 0 (String.length p) = p

(* the arrival order given to the model: the blocks in reverse order (the proved result
   does not depend on it) *)
let rev_arrival (cuts : n list) : nat list =
  let k = max 0 (List.length cuts - 1) in
  List.init k (fun i -> nat_of_int (k - 1 - i))

let run (args : (string * string) list) : string =
  let op = get args "op" in
  let g = nlists (get args "g") in
  let n = List.length g in
  (* the number of partitions of the result is the implementation's choice (one per pool
     thread today): the model is run for the number of partitions the implementation produced
     - the theorems hold for every positive count - so that boundaries and lenders are
     compared with the sorter's boundaries for that count *)
  let p =
    let t = get_int args "t" in
    let observed = (match get_opt args "bounds" with
        | Some b when b <> "" && b <> "-" -> List.length (ints_of_string b) - 1
        | _ -> 0) in
    nat_of_int (if observed >= 1 then observed else t) in
  let status = get args "status" in
  let malformed = get_int args "malformed" = 1 in
  let nl = get_int args "nl" = 1 in
  let f = nlist_of_string (get args "f") in
  let m = n_of_int (get_int args "m") in
  let is_par = starts op "transpose2_par" || (String.length op > 4 && String.sub op (String.length op - 4) 4 = "_par") in
  let impl_cuts = nlist_of_string (get args "cuts") in
  (* for a refused call the harness has no cutpoints: any legal sequence serves *)
  let cuts = if impl_cuts = [] then [N0; n_of_int n] else impl_cuts in
  let arrival = rev_arrival cuts in
  let out = opt_lists (get args "out") and outp = opt_lists (get args "outp") in
  let impl_ok = status = "ok" in
  let res = Buffer.create 256 in
  let add s = Buffer.add_string res s in
  let flag name b detail = add (" " ^ name ^ "=" ^ (if b then "ok" else "FAIL(" ^ detail ^ ")")) in
  add (" nopanic=" ^ (if starts status "panic" then "FAIL(" ^ status ^ ")" else "ok"));
  let wf = wf_graph g in
  if not wf then add " error=ill-formed-input"
  else if starts op "transpose_labeled" then begin
    let labs = nlists (get args "lab") in
    let lg = List.map2 (fun l x -> List.combine l x) g labs in
    let (ms, mp) = run_parts ksort phi_transpose (n_of_int n) is_par p cuts arrival lg in
    let spec = transpose_labeled_spec lg in
    let split o = match o with
      | None -> (None, None)
      | Some l -> (Some (List.map (List.map fst) l), Some (List.map (List.map snd) l)) in
    let (ss, sl) = split (Some spec) and (ms1, ms2) = split ms and (mp1, mp2) = split mp in
    flag "status" impl_ok status;
    if impl_ok then begin
      add (cmp "spec" ss out); add (cmp "speclab" sl (opt_lists (get args "outlab")));
      add (cmp "specp" ss outp); add (cmp "specplab" sl (opt_lists (get args "outplab")));
      add (cmp "model" ms1 out); add (cmp "modellab" ms2 (opt_lists (get args "outlab")));
      add (cmp "modelp" mp1 outp); add (cmp "modelplab" mp2 (opt_lists (get args "outplab")));
      flag "nout" (get_int args "nout" = n) (get args "nout");
      flag "bounds" (boundaries (n_of_int n) p = nlist_of_string (get args "bounds")) (get args "bounds")
    end
  end
  else if op = "symmetrize_sorted_par" then begin
    let mp = symmetrize_sorted_par_lenders ksort nl p cuts arrival g in
    let ms = symmetrize_sorted_par ksort nl p cuts arrival g in
    let spec = Some (xop_spec (XSymm nl) g) in
    flag "status" impl_ok status;
    if impl_ok then begin
      add (cmp "specp" spec outp);
      add (cmp "modelp" mp outp);
      (* the two readings of the model agree (the implementation offers only one) *)
      add (cmp "model" ms outp);
      flag "nout" (get_int args "nout" = n) (get args "nout");
      flag "bounds" (boundaries (n_of_int n) p = nlist_of_string (get args "bounds")) (get args "bounds")
    end
  end
  else if starts op "transpose2" then begin
    (* transpose(transpose(g)) = g; the model is run twice *)
    let (m1, _) = run_xop ksort ksortd XTranspose is_par p cuts arrival g in
    flag "status" impl_ok status;
    (match m1 with
     | None -> add " model=FAIL(first-transpose-refused)"
     | Some t ->
       let cuts2 = if is_par then boundaries (n_of_int n) p else [N0; n_of_int n] in
       let (m2, m2p) = run_xop ksort ksortd XTranspose is_par p cuts2 (rev_arrival cuts2) t in
       if impl_ok then begin
         add (cmp "involutive" (Some g) out); add (cmp "involutivep" (Some g) outp);
         add (cmp "model" m2 out); add (cmp "modelp" m2p outp);
         flag "nout" (get_int args "nout" = n) (get args "nout")
       end)
  end
  else begin
    let xo =
      if starts op "transpose" then XTranspose
      else if starts op "symmetrize" then XSymm nl
      else if starts op "permute" then XPermute f
      else if starts op "map" then XMap (f, m)
      else failwith ("unknown op " ^ op) in
    let (ms, mp) = run_xop ksort ksortd xo is_par p cuts arrival g in
    let nout = xop_nout xo g in
    if malformed then begin
      (* outside the property's hypotheses: the model and the implementation must still
         agree (refusal exactly when the model refuses, same lists otherwise) *)
      (match ms with
       | None -> flag "refusal" (starts status "err") status
       | Some _ ->
         flag "refusal" impl_ok status;
         if impl_ok then begin add (cmp "model" ms out); add (cmp "modelp" mp outp) end)
    end else begin
      let spec = Some (xop_spec xo g) in
      flag "status" impl_ok status;
      if impl_ok then begin
        add (cmp "spec" spec out); add (cmp "specp" spec outp);
        add (cmp "model" ms out); add (cmp "modelp" mp outp);
        flag "nout" (get_int args "nout" = int_of_n nout) (get args "nout");
        flag "bounds" (boundaries nout p = nlist_of_string (get args "bounds")) (get args "bounds")
      end
    end
  end;
  Buffer.contents res
